// Package gen is the draw layer every property in this harness is written
// against.  A property is a func(g *gen.G).  In search mode every draw comes
// from *rapid.T (so rapid owns all randomness, shrinks and replays it) and is
// appended to a record; in replay mode the record of an earlier failing case is
// popped instead and rapid is not involved at all.  The layer also accumulates
// the per-run statistics that end up in the evidence file (evaluations, shape
// classes, distinct non-trivial cases, samples) and writes the record of a
// failing case to the directory named by VERIF_FAILDIR.
package gen

import (
	"encoding/hex"
	"encoding/json"
	"fmt"
	"hash/fnv"
	"os"
	"path/filepath"
	"runtime/debug"
	"sort"
	"strings"
	"sync"
	"testing"

	"pgregory.net/rapid"
)

// Draw is one recorded generator decision.
type Draw struct {
	L string  `json:"l"`           // label
	I *int64  `json:"i,omitempty"` // integer / bool value
	U *uint64 `json:"u,omitempty"`
	B *string `json:"b,omitempty"` // hex bytes
}

// Record is the library-free replay file format.
type Record struct {
	Property string   `json:"property"`
	Test     string   `json:"test"`
	Tier     string   `json:"tier,omitempty"` // VERIF_TIER the case was generated under (draws may depend on it)
	Message  string   `json:"message,omitempty"`
	Notes    []string `json:"notes,omitempty"`
	Draws    []Draw   `json:"draws"`
}

// G is the handle a property draws from.
type G struct {
	rt       *rapid.T
	tb       testing.TB
	id       string
	test     string
	rec      []Draw
	replay   []Draw
	pos      int
	classes  map[string]int
	nontriv  bool
	ntKey    string
	notes    []string
	failed   bool
	inserted int
}

type failure struct{ msg string }

func (g *G) Replaying() bool { return g.rt == nil }

func (g *G) next(label string) *Draw {
	if g.pos >= len(g.replay) {
		// The record of a failing case ends where the failure was raised.  Once
		// the defect is repaired the property draws on: those draws take their
		// minimal value (what shrinking converges to).
		g.pos++
		return nil
	}
	d := &g.replay[g.pos]
	g.pos++
	if d.L != label {
		// The property asks for another draw than the record holds next: either the
		// generator gained a draw since the record was taken, or the code under test
		// behaves differently (typically: the defect was repaired and a message is no
		// longer sent).  Resynchronise: if the asked label occurs within the next few
		// entries the entries in between are dropped; otherwise the asked draw is
		// treated as inserted (minimal value) and the record is not advanced.
		for k := 1; k <= 12 && g.pos-1+k < len(g.replay); k++ {
			if g.replay[g.pos-1+k].L == label {
				g.notes = append(g.notes, fmt.Sprintf("replay resynchronised at draw %d: %d entries skipped to reach %q", g.pos-1, k, label))
				g.pos = g.pos - 1 + k
				d = &g.replay[g.pos]
				g.pos++
				g.rec = append(g.rec, *d)
				return d
			}
		}
		g.pos--
		g.inserted++
		if g.inserted > 2000 {
			g.pos = len(g.replay) + 1 // hopelessly out of step: minimal values from here on
		}
		return nil
	}
	g.rec = append(g.rec, *d)
	return d
}

// diverge drops the rest of the record (see next).
func (g *G) diverge(label string) {
	g.notes = append(g.notes, fmt.Sprintf("replay diverged at draw %d (%s): minimal values from here on", g.pos-1, label))
	g.pos = len(g.replay) + 1
}

// Int draws an integer in [min, max].
func (g *G) Int(label string, min, max int) int {
	if max < min {
		panic(fmt.Sprintf("gen.Int(%s): empty range %d..%d", label, min, max))
	}
	if g.rt == nil {
		d := g.next(label)
		if d == nil {
			i := int64(min)
			g.rec = append(g.rec, Draw{L: label, I: &i})
			return min
		}
		if d.I == nil || int(*d.I) < min || int(*d.I) > max {
			g.diverge(label)
			i := int64(min)
			g.rec[len(g.rec)-1] = Draw{L: label, I: &i}
			return min
		}
		return int(*d.I)
	}
	v := rapid.IntRange(min, max).Draw(g.rt, label)
	i := int64(v)
	g.rec = append(g.rec, Draw{L: label, I: &i})
	return v
}

// Pick draws an index in [0, n).
func (g *G) Pick(label string, n int) int { return g.Int(label, 0, n-1) }

// Bool draws a boolean (false is the shrink target).
func (g *G) Bool(label string) bool { return g.Int(label, 0, 1) == 1 }

// Chance is true with probability about num/den (false is the shrink target).
func (g *G) Chance(label string, num, den int) bool { return g.Int(label, 0, den-1) >= den-num }

// Uint64 draws any 64-bit value.
func (g *G) Uint64(label string) uint64 {
	if g.rt == nil {
		d := g.next(label)
		if d == nil {
			var z uint64
			g.rec = append(g.rec, Draw{L: label, U: &z})
			return 0
		}
		if d.U == nil {
			g.diverge(label)
			var z uint64
			g.rec[len(g.rec)-1] = Draw{L: label, U: &z}
			return 0
		}
		return *d.U
	}
	v := rapid.Uint64().Draw(g.rt, label)
	g.rec = append(g.rec, Draw{L: label, U: &v})
	return v
}

// Bytes draws a byte string with length in [minLen, maxLen].
func (g *G) Bytes(label string, minLen, maxLen int) []byte {
	if g.rt == nil {
		d := g.next(label)
		if d == nil {
			z := hex.EncodeToString(make([]byte, minLen))
			g.rec = append(g.rec, Draw{L: label, B: &z})
			return make([]byte, minLen)
		}
		if d.B == nil {
			g.diverge(label)
			z := hex.EncodeToString(make([]byte, minLen))
			g.rec[len(g.rec)-1] = Draw{L: label, B: &z}
			return make([]byte, minLen)
		}
		b, err := hex.DecodeString(*d.B)
		if err != nil || len(b) < minLen || len(b) > maxLen {
			g.diverge(label)
			z := hex.EncodeToString(make([]byte, minLen))
			g.rec[len(g.rec)-1] = Draw{L: label, B: &z}
			return make([]byte, minLen)
		}
		return b
	}
	b := rapid.SliceOfN(rapid.Byte(), minLen, maxLen).Draw(g.rt, label)
	if b == nil {
		b = []byte{}
	}
	s := hex.EncodeToString(b)
	g.rec = append(g.rec, Draw{L: label, B: &s})
	return append([]byte{}, b...)
}

// Expand derives n pseudo-random bytes from one drawn 64-bit value (splitmix64).
// It is a pure function of the draw, so shrinking and replay still work; it is
// used for bulk content whose individual bytes do not matter.
func (g *G) Expand(label string, n int) []byte {
	x := g.Uint64(label)
	return ExpandSeed(x, n)
}

func ExpandSeed(x uint64, n int) []byte {
	out := make([]byte, n)
	for i := 0; i < n; i += 8 {
		x += 0x9e3779b97f4a7c15
		z := x
		z = (z ^ (z >> 30)) * 0xbf58476d1ce4e5b9
		z = (z ^ (z >> 27)) * 0x94d049bb133111eb
		z ^= z >> 31
		for j := 0; j < 8 && i+j < n; j++ {
			out[i+j] = byte(z >> (8 * j))
		}
	}
	return out
}

// Perm draws a permutation of 0..n-1 (identity is the shrink target).
func (g *G) Perm(label string, n int) []int {
	p := make([]int, n)
	for i := range p {
		p[i] = i
	}
	for i := 0; i < n-1; i++ {
		j := i + g.Int(label, 0, n-1-i)
		p[i], p[j] = p[j], p[i]
	}
	return p
}

// Class records that the current case has the named shape.
func (g *G) Class(name string) { g.classes[name]++ }

// NonTrivial marks the current case non-trivial by the property's stated rule.
// An optional key replaces the full draw record as identity for distinctness.
func (g *G) NonTrivial(key ...string) {
	g.nontriv = true
	if len(key) > 0 {
		g.ntKey = strings.Join(key, "|")
	}
}

// Note attaches a human-readable line to the record (printed with a failure).
func (g *G) Note(format string, a ...any) { g.notes = append(g.notes, fmt.Sprintf(format, a...)) }

// Skip discards the current case (counted); use sparingly.
func (g *G) Skip(why string) {
	stats.mu.Lock()
	stats.Skipped[why]++
	stats.mu.Unlock()
	if g.rt != nil {
		g.rt.Skip(why)
	}
	panic(failure{"SKIPPED-IN-REPLAY: " + why})
}

// Fatalf reports a violation of the property for the current case.
func (g *G) Fatalf(format string, a ...any) {
	msg := fmt.Sprintf(format, a...)
	g.fail(msg)
	if g.rt != nil {
		g.rt.Fatalf("%s", msg)
	}
	panic(failure{msg})
}

func (g *G) fail(msg string) {
	g.failed = true
	writeRecord(g, msg, "fail")
}

// Journal writes the current record to disk *before* a call that may kill the
// process (C abort, SIGSEGV); the driver turns a dead worker with a journal into
// a violation whose replay file is that journal.
func (g *G) Journal(what string) {
	if g.rt == nil {
		return
	}
	writeRecord(g, "process died during: "+what, "journal")
}

func writeRecord(g *G, msg, kind string) {
	dir := os.Getenv("VERIF_FAILDIR")
	if dir == "" {
		return
	}
	r := Record{Property: g.id, Test: g.test, Tier: os.Getenv("VERIF_TIER"), Message: msg, Notes: g.notes, Draws: g.rec}
	b, _ := json.MarshalIndent(r, "", " ")
	name := fmt.Sprintf("%s-%s-%d.json", kind, g.test, os.Getpid())
	tmp := filepath.Join(dir, "."+name)
	_ = os.WriteFile(tmp, b, 0o644)
	_ = os.Rename(tmp, filepath.Join(dir, name))
}

// ---------------------------------------------------------------------------
// statistics

type Stats struct {
	mu          sync.Mutex
	Evaluations int64             `json:"evaluations"`
	NonTrivial  int64             `json:"nontrivial"`
	Classes     map[string]int64  `json:"classes"`
	Skipped     map[string]int64  `json:"skipped"`
	Hashes      map[uint64]bool   `json:"-"`
	HashList    []string          `json:"hashes"`
	ExtraDist   int64             `json:"extra_distinct"` // distinct-by-construction cases from enumerations
	Samples     []json.RawMessage `json:"samples"`
	Exhaustive  []string          `json:"exhaustive"` // names of sub-spaces enumerated completely
	Info        map[string]any    `json:"info"`
}

var stats = &Stats{Classes: map[string]int64{}, Skipped: map[string]int64{}, Hashes: map[uint64]bool{}, Info: map[string]any{}}

const maxSamples = 4
const maxHashes = 400000

func (s *Stats) commit(g *G) {
	s.mu.Lock()
	defer s.mu.Unlock()
	s.Evaluations++
	for k, v := range g.classes {
		s.Classes[k] += int64(v)
	}
	if g.nontriv {
		s.NonTrivial++
		h := fnv.New64a()
		if g.ntKey != "" {
			h.Write([]byte(g.test + "|" + g.ntKey))
		} else {
			b, _ := json.Marshal(g.rec)
			h.Write([]byte(g.test))
			h.Write(b)
		}
		if len(s.Hashes) < maxHashes {
			s.Hashes[h.Sum64()] = true
		}
		if len(s.Samples) < maxSamples {
			b, _ := json.Marshal(map[string]any{"test": g.test, "draws": compact(g.rec), "notes": g.notes, "classes": keys(g.classes)})
			if len(b) < 6000 {
				s.Samples = append(s.Samples, b)
			}
		}
	}
}

func keys(m map[string]int) []string {
	out := make([]string, 0, len(m))
	for k := range m {
		out = append(out, k)
	}
	sort.Strings(out)
	return out
}

// compact renders draws as short "label=value" strings for evidence samples.
func compact(ds []Draw) []string {
	out := make([]string, 0, len(ds))
	for _, d := range ds {
		switch {
		case d.I != nil:
			out = append(out, fmt.Sprintf("%s=%d", d.L, *d.I))
		case d.U != nil:
			out = append(out, fmt.Sprintf("%s=%#x", d.L, *d.U))
		case d.B != nil:
			b := *d.B
			if len(b) > 96 {
				b = fmt.Sprintf("%s…(%d bytes)", b[:96], len(*d.B)/2)
			}
			out = append(out, fmt.Sprintf("%s=%s", d.L, b))
		}
	}
	if len(out) > 120 {
		out = append(out[:120], fmt.Sprintf("… %d more draws", len(ds)-120))
	}
	return out
}

// Count adds evaluations made by an enumeration loop inside one test: n cases,
// nt of them non-trivial and pairwise distinct by construction.
func Count(n, nt int64) {
	stats.mu.Lock()
	stats.Evaluations += n
	stats.NonTrivial += nt
	stats.ExtraDist += nt
	stats.mu.Unlock()
}

// CountClass adds to a class counter outside a case.
func CountClass(name string, n int64) {
	stats.mu.Lock()
	stats.Classes[name] += n
	stats.mu.Unlock()
}

// Sample adds an explicit sample (used by enumerations).
func Sample(v any) {
	stats.mu.Lock()
	defer stats.mu.Unlock()
	if len(stats.Samples) < maxSamples+2 {
		b, _ := json.Marshal(v)
		stats.Samples = append(stats.Samples, b)
	}
}

// Exhaustive records that a named finite sub-space was enumerated completely.
func Exhaustive(name string) {
	stats.mu.Lock()
	stats.Exhaustive = append(stats.Exhaustive, name)
	stats.mu.Unlock()
}

// Info stores a free-form key in the statistics file.
func Info(k string, v any) {
	stats.mu.Lock()
	stats.Info[k] = v
	stats.mu.Unlock()
}

// Flush writes the statistics of this process to VERIF_STATS (called from TestMain).
func Flush() {
	path := os.Getenv("VERIF_STATS")
	if path == "" {
		return
	}
	stats.mu.Lock()
	defer stats.mu.Unlock()
	stats.HashList = stats.HashList[:0]
	for h := range stats.Hashes {
		stats.HashList = append(stats.HashList, fmt.Sprintf("%016x", h))
	}
	sort.Strings(stats.HashList)
	b, _ := json.Marshal(stats)
	_ = os.WriteFile(path, b, 0o644)
}

// ---------------------------------------------------------------------------
// running a property

func isRapidInternal(r any) bool {
	tn := fmt.Sprintf("%T", r)
	return strings.Contains(tn, "rapid.")
}

// Run executes prop under rapid (search) or against the record named by
// VERIF_REPLAY (replay).  id is the property id, the test name identifies the
// sub-check.
func Run(t *testing.T, id string, prop func(g *G)) {
	if capturing != nil { // see Capture: the fuzz engine only wants the property, not a run
		capturing.ID, capturing.Prop = id, prop
		return
	}
	t.Helper()
	test := t.Name()
	if path := os.Getenv("VERIF_REPLAY"); path != "" {
		b, err := os.ReadFile(path)
		if err != nil {
			t.Fatalf("REPLAY-ERROR: %v", err)
		}
		var r Record
		if err := json.Unmarshal(b, &r); err != nil {
			t.Fatalf("REPLAY-ERROR: %v", err)
		}
		if r.Test != test {
			t.Skipf("record is for %s", r.Test)
		}
		RunRecord(t, id, r, prop)
		return
	}
	rapid.Check(t, func(rt *rapid.T) { runRapid(rt, id, test, prop) })
}

func runRapid(rt *rapid.T, id, test string, prop func(g *G)) {
	g := &G{rt: rt, id: id, test: test, classes: map[string]int{}}
	defer func() {
		if r := recover(); r != nil {
			if _, ok := r.(failure); !ok && !isRapidInternal(r) && !g.failed {
				// a Go panic inside the code under test (or the harness)
				g.fail(fmt.Sprintf("panic: %v\n%s", r, trimStack(debug.Stack())))
			}
			panic(r)
		}
	}()
	prop(g)
	stats.commit(g)
}

// Captured is a property taken out of its Test function (see Capture).
type Captured struct {
	ID   string
	Prop func(g *G)
}

var capturing *Captured

// Capture calls a Test function of the property package in a mode in which Run
// records the property instead of running it, and returns that property.  The
// coverage-guided engine (Go's native fuzzer driving rapid through
// rapid.MakeFuzz) uses it to run the very same property function, with the same
// oracle and the same recorded draws, as the rapid search.
func Capture(testFn func(*testing.T)) (c Captured) {
	capturing = &c
	defer func() { capturing = nil }()
	testFn(nil)
	return
}

// Fuzz runs a captured property under Go's native fuzzer: the fuzzer's byte
// string is rapid's source of randomness (rapid.MakeFuzz), so every draw of the
// property is a function of the input, coverage feedback steers the input, and
// a failing execution writes the same library-free record as a rapid failure
// (test is the name of the Test function, which is what replays the record).
func Fuzz(f *testing.F, test string, c Captured) {
	// Seed corpus: rapid reads its random words from the input and gives up on a case when the input is exhausted, so
	// the starting inputs have to be long enough for whole cases (a DKG scenario makes several hundred draws).  The
	// contents are a fixed xorshift stream: the corpus is the same on every run.
	x := uint64(0x9e3779b97f4a7c15)
	for _, n := range []int{64, 512, 2048, 2048, 8192, 8192, 32768} {
		b := make([]byte, n)
		for i := range b {
			x ^= x << 13
			x ^= x >> 7
			x ^= x << 17
			b[i] = byte(x >> 32)
		}
		f.Add(b)
	}
	f.Fuzz(rapid.MakeFuzz(func(rt *rapid.T) { runRapid(rt, c.ID, test, c.Prop) }))
}

// RunRecord replays one record without rapid.
func RunRecord(t *testing.T, id string, r Record, prop func(g *G)) {
	g := &G{tb: t, id: id, test: r.Test, replay: r.Draws, classes: map[string]int{}}
	defer func() {
		if rec := recover(); rec != nil {
			if f, ok := rec.(failure); ok {
				if strings.HasPrefix(f.msg, "REPLAY-MISMATCH") || strings.HasPrefix(f.msg, "SKIPPED-IN-REPLAY") {
					t.Fatalf("%s", f.msg)
				}
				t.Fatalf("REPLAY-FAILED: %s", f.msg)
			}
			t.Fatalf("REPLAY-FAILED: panic: %v\n%s", rec, trimStack(debug.Stack()))
		}
	}()
	prop(g)
	stats.commit(g)
}

func trimStack(b []byte) string {
	s := string(b)
	if len(s) > 3000 {
		s = s[:3000]
	}
	return s
}

// Main is the TestMain body shared by the property packages.
func Main(m *testing.M) {
	code := m.Run()
	Flush()
	os.Exit(code)
}
