package random

// C15 — in-package tape-model checks of the sampling helpers of genericPRG.
//
// This file is NOT part of the repository under test.  The driver injects it
// into package random at build time (go test -overlay), which gives it access
// to the unexported genericPRG so that the helpers can be run on top of a
// scripted byte TAPE (a randCore whose Read serves chosen values).  The output
// of a helper then is an explicit function of the source bytes and "exactly
// uniform in the PRG's bits" becomes a counting statement that is decided by
// complete enumeration.
//
// TAPE MODEL ASSUMPTION (taken from the comments of UintN): one attempt draws
// size = ceil(bitlen(n-1)/8) bytes, reads them little-endian, ignores the bits
// above bitlen(n-1) and rejects values > n-1; rejected attempts are repeated.
// If the implementation reads in a different pattern the checks do not decide
// anything: the test prints TAPE-MODEL-DOES-NOT-APPLY and exits with code 3.
//
// The file uses the standard library only and cannot import the harness (it is
// compiled inside the module of the repository).  Protocol with the driver:
// VERIF_STATS, VERIF_FAILDIR, VERIF_N, VERIF_TIER, VERIF_SHARD, VERIF_SHARDS,
// VERIF_SEED_EFF, VERIF_REPLAY (see /verif/driver/c15_overlay.py).

import (
	"encoding/hex"
	"encoding/json"
	"fmt"
	"math/bits"
	"os"
	"path/filepath"
	"strconv"
	"testing"
)

// ---------------------------------------------------------------------------
// protocol: environment, statistics, failure records

type c15Stats struct {
	Evaluations   int64            `json:"evaluations"`
	NonTrivial    int64            `json:"nontrivial"`
	ExtraDistinct int64            `json:"extra_distinct"`
	Classes       map[string]int64 `json:"classes"`
	Skipped       map[string]int64 `json:"skipped"`
	Hashes        []string         `json:"hashes"`
	Samples       []any            `json:"samples"`
	Exhaustive    []string         `json:"exhaustive"`
	Info          map[string]any   `json:"info"`
}

func c15NewStats() *c15Stats {
	return &c15Stats{Classes: map[string]int64{}, Skipped: map[string]int64{}, Hashes: []string{},
		Samples: []any{}, Exhaustive: []string{}, Info: map[string]any{}}
}

func (s *c15Stats) sample(v any) {
	if len(s.Samples) < 6 {
		s.Samples = append(s.Samples, v)
	}
}

func (s *c15Stats) flush() {
	path := os.Getenv("VERIF_STATS")
	if path == "" {
		return
	}
	b, _ := json.Marshal(s)
	tmp := path + ".tmp"
	if os.WriteFile(tmp, b, 0o644) == nil {
		_ = os.Rename(tmp, path)
	}
}

type c15Draw struct {
	L string  `json:"l"`
	I *int64  `json:"i,omitempty"`
	U *uint64 `json:"u,omitempty"`
	B *string `json:"b,omitempty"`
}

func c15I(l string, v int64) c15Draw  { return c15Draw{L: l, I: &v} }
func c15U(l string, v uint64) c15Draw { return c15Draw{L: l, U: &v} }
func c15B(l string, v []byte) c15Draw { s := hex.EncodeToString(v); return c15Draw{L: l, B: &s} }
func c15Us(l string, v []uint64) []c15Draw {
	out := make([]c15Draw, len(v))
	for i := range v {
		out[i] = c15U(l, v[i])
	}
	return out
}

type c15Record struct {
	Property string    `json:"property"`
	Test     string    `json:"test"`
	Message  string    `json:"message"`
	Draws    []c15Draw `json:"draws"`
}

// c15Failure is the verdict of one sub-check: a violation (with the parameters
// that reproduce it) or the statement that the tape model does not apply.
type c15Failure struct {
	msg     string
	draws   []c15Draw
	modelNA bool
}

func c15Violation(draws []c15Draw, format string, a ...any) *c15Failure {
	return &c15Failure{msg: fmt.Sprintf(format, a...), draws: draws}
}

func c15ModelNA(format string, a ...any) *c15Failure {
	return &c15Failure{msg: fmt.Sprintf(format, a...), modelNA: true}
}

type c15Env struct {
	n             int
	thorough      bool
	shard, shards int
	seed          uint64
	replay        string
}

func c15GetEnv(defQuick, defThorough int) c15Env {
	e := c15Env{thorough: os.Getenv("VERIF_TIER") == "thorough", shards: 1, replay: os.Getenv("VERIF_REPLAY")}
	e.n = defQuick
	if e.thorough {
		e.n = defThorough
	}
	if v, err := strconv.Atoi(os.Getenv("VERIF_N")); err == nil && v > 0 {
		e.n = v
	}
	if v, err := strconv.Atoi(os.Getenv("VERIF_SHARDS")); err == nil && v > 0 {
		e.shards = v
	}
	if v, err := strconv.Atoi(os.Getenv("VERIF_SHARD")); err == nil && v >= 0 {
		e.shard = v % e.shards
	}
	e.seed = 20260924
	if v, err := strconv.ParseUint(os.Getenv("VERIF_SEED_EFF"), 10, 64); err == nil {
		e.seed = v
	}
	return e
}

// c15Report ends the test on a failure: a violation is written as a replay
// record and fails the test; "model does not apply" exits with code 3.
func c15Report(t *testing.T, st *c15Stats, env c15Env, f *c15Failure) {
	t.Helper()
	if f == nil {
		return
	}
	if f.modelNA {
		msg := "TAPE-MODEL-DOES-NOT-APPLY: " + f.msg
		st.Info["inconclusive"] = msg
		st.flush()
		fmt.Println(msg)
		os.Stdout.Sync()
		os.Exit(3)
	}
	st.Info["violation"] = f.msg
	st.flush()
	if env.replay != "" {
		t.Fatalf("REPLAY-FAILED: %s", f.msg)
	}
	if dir := os.Getenv("VERIF_FAILDIR"); dir != "" {
		r := c15Record{Property: "C15", Test: t.Name(), Message: f.msg, Draws: f.draws}
		b, _ := json.MarshalIndent(r, "", " ")
		name := fmt.Sprintf("fail-%s-%d.json", t.Name(), os.Getpid())
		tmp := filepath.Join(dir, "."+name)
		if os.WriteFile(tmp, b, 0o644) == nil {
			_ = os.Rename(tmp, filepath.Join(dir, name))
		}
	}
	t.Fatalf("C15 violated: %s", f.msg)
}

// c15LoadReplay returns the draws of the record named by VERIF_REPLAY, or skips
// the test if the record belongs to another test.
func c15LoadReplay(t *testing.T, path string) map[string][]c15Draw {
	b, err := os.ReadFile(path)
	if err != nil {
		t.Fatalf("REPLAY-ERROR: %v", err)
	}
	var r c15Record
	if err := json.Unmarshal(b, &r); err != nil {
		t.Fatalf("REPLAY-ERROR: %v", err)
	}
	if r.Test != t.Name() {
		t.Skipf("record is for %s", r.Test)
	}
	m := map[string][]c15Draw{}
	for _, d := range r.Draws {
		m[d.L] = append(m[d.L], d)
	}
	return m
}

func c15DrawInt(m map[string][]c15Draw, l string) (int64, bool) {
	if d := m[l]; len(d) > 0 {
		if d[0].I != nil {
			return *d[0].I, true
		}
		if d[0].U != nil {
			return int64(*d[0].U), true
		}
	}
	return 0, false
}

func c15DrawUint(m map[string][]c15Draw, l string) (uint64, bool) {
	if d := m[l]; len(d) > 0 {
		if d[0].U != nil {
			return *d[0].U, true
		}
		if d[0].I != nil && *d[0].I >= 0 {
			return uint64(*d[0].I), true
		}
	}
	return 0, false
}

// splitmix64: every pseudo-random choice of this file is a pure function of the seed.
type c15Rng struct{ x uint64 }

func (r *c15Rng) next() uint64 {
	r.x += 0x9e3779b97f4a7c15
	z := r.x
	z = (z ^ (z >> 30)) * 0xbf58476d1ce4e5b9
	z = (z ^ (z >> 27)) * 0x94d049bb133111eb
	return z ^ (z >> 31)
}

func c15Mix(parts ...uint64) uint64 {
	r := c15Rng{x: 0x6a09e667f3bcc909}
	var h uint64
	for _, p := range parts {
		r.x ^= p
		h = r.next()
		r.x = h
	}
	return h
}

type c15Runaway struct{}

// ---------------------------------------------------------------------------
// (a) UintN

// c15Tape is the scripted randCore of the UintN checks: read number i serves
// vals[i] little-endian in as many bytes as are requested, later reads serve
// zeros (always accepted).  It records what was requested.
type c15Tape struct {
	vals  [16]uint64
	reads int
	size  int // request length the tape model predicts
	short int // requests shorter than size
	long  int // requests longer than size
}

func (t *c15Tape) Read(b []byte) {
	var v uint64
	if t.reads < len(t.vals) {
		v = t.vals[t.reads]
	} else if t.reads > 4096 {
		panic(c15Runaway{})
	}
	t.reads++
	if len(b) != t.size {
		if len(b) > t.size {
			t.long++
		} else {
			t.short++
		}
	}
	for i := range b {
		b[i] = byte(v)
		v >>= 8
	}
}

func (t *c15Tape) reset() { t.reads, t.short, t.long = 0, 0, 0 }

type c15Shape struct {
	max, mask uint64
	bitlen    int
	size      int
}

func c15ShapeOf(n uint64) c15Shape {
	s := c15Shape{max: n - 1}
	s.bitlen = bits.Len64(s.max)
	s.size = (s.bitlen + 7) / 8
	if s.bitlen == 64 {
		s.mask = ^uint64(0)
	} else {
		s.mask = uint64(1)<<uint(s.bitlen) - 1
	}
	return s
}

// c15Model is the tape model: the masked value of the first accepted read and
// the number of reads consumed (reads beyond the script serve zero).
func c15Model(sh c15Shape, vals []uint64) (uint64, int) {
	for i, v := range vals {
		if v&sh.mask <= sh.max {
			return v & sh.mask, i + 1
		}
	}
	return 0, len(vals) + 1
}

// c15UintNRig holds the objects reused by all UintN evaluations (no allocation
// in the enumeration loops).
type c15UintNRig struct {
	tape     c15Tape
	poisoned *genericPRG // has served an 8-byte all-ones read before: stale high bytes in any internal buffer
	clean    *genericPRG
	counts   []uint32
	mult     uint64 // odd: second read of a rejected first read f is (f*mult+add) mod 256^size
	add      uint64
	seed     uint64
	evals    int64
	lastBig  map[string]any // one evaluated case, for the evidence samples
}

func c15NewRig(seed uint64) *c15UintNRig {
	r := &c15UintNRig{counts: make([]uint32, 1<<16), seed: seed}
	r.poisoned = &genericPRG{randCore: &r.tape}
	r.clean = &genericPRG{randCore: &r.tape}
	r.mult = c15Mix(seed, 1) | 1
	r.add = c15Mix(seed, 2)
	return r
}

// prime makes the "poisoned" generator process an 8-byte read of all ones, so
// that whatever scratch memory UintN keeps between calls holds non-zero bytes
// above the bytes later, shorter reads overwrite.
func (r *c15UintNRig) prime() *c15Failure {
	n := ^uint64(0)
	r.tape.reset()
	r.tape.size = 8
	r.tape.vals[0], r.tape.vals[1] = ^uint64(0), ^uint64(0)-1
	got := r.poisoned.UintN(n)
	r.evals++
	return r.judge(n, r.tape.vals[:2], got, "poisoned")
}

// judge compares one finished evaluation with the model.
func (r *c15UintNRig) judge(n uint64, vals []uint64, got uint64, which string) *c15Failure {
	sh := c15ShapeOf(n)
	want, wantReads := c15Model(sh, vals)
	t := &r.tape
	if got == want && t.reads == wantReads && t.short == 0 && t.long == 0 {
		return nil
	}
	draws := append([]c15Draw{c15U("seed", r.seed), c15U("n", n)}, c15Us("read", vals)...)
	if got >= n {
		return c15Violation(draws, "UintN(%d) returned %d, which is not in [0, n) (source reads, little-endian: %#x)", n, got, vals)
	}
	if t.long > 0 || t.short > 0 {
		return c15ModelNA("UintN(%d) requested %d read(s) longer and %d shorter than ceil(bitlen(n-1)/8) = %d bytes", n, t.long, t.short, sh.size)
	}
	first := vals[0] & sh.mask
	switch {
	case t.reads != wantReads && first > sh.max && t.reads == 1:
		return c15Violation(draws, "UintN(%d): first %d-byte read %#x has masked value %d > n-1 but was not rejected (result %d after 1 read): values are not equally likely",
			n, sh.size, vals[0], first, got)
	case t.reads != wantReads:
		return c15Violation(draws, "UintN(%d) on source reads %#x (%d-byte little-endian, %d significant bits) consumed %d reads, the rejection-sampling model consumes %d (result %d, model %d; %s generator)",
			n, vals, sh.size, sh.bitlen, t.reads, wantReads, got, want, which)
	default:
		return c15Violation(draws, "UintN(%d) on source reads %#x (%d-byte little-endian, %d significant bits) returned %d, the first read with masked value <= n-1 gives %d (%s generator)",
			n, vals, sh.size, sh.bitlen, got, want, which)
	}
}

// checkSmall enumerates every first read for one n <= 65536 (and every second
// read after one rejected first read).  Returned: evaluations, distinct
// non-trivial cases.
func (r *c15UintNRig) checkSmall(n uint64) (nt int64, f *c15Failure) {
	sh := c15ShapeOf(n)
	if sh.size > 2 {
		panic("c15: checkSmall needs n <= 65536")
	}
	total := uint64(1) << uint(8*sh.size)
	per := uint32(total >> uint(sh.bitlen)) // first reads per value
	t := &r.tape
	t.reset()
	t.size = sh.size
	t.vals = [16]uint64{}
	counts := r.counts[:n]
	pow2 := sh.mask == sh.max
	if sh.size == 0 {
		// n == 1 needs no source bytes; whether an empty read is issued is not constrained
		for _, p := range []*genericPRG{r.poisoned, r.clean} {
			t.reset()
			got := p.UintN(n)
			r.evals++
			if got != 0 {
				return 0, c15Violation([]c15Draw{c15U("seed", r.seed), c15U("n", n)}, "UintN(1) returned %d", got)
			}
			if t.long > 0 {
				return 0, c15ModelNA("UintN(1) requested source bytes")
			}
		}
		return 0, nil
	}

	passes := 1
	if sh.size <= 1 {
		passes = 2 // cheap: both generators see every first read
	}
	for pass := 0; pass < passes; pass++ {
		p, which := r.poisoned, "poisoned"
		if pass == 1 {
			p, which = r.clean, "clean"
		}
		for i := range counts {
			counts[i] = 0
		}
		for first := uint64(0); first < total; first++ {
			t.vals[0] = first
			mv := first & sh.mask
			want, wantReads := mv, 1
			if mv > sh.max {
				s := (first*r.mult + r.add) & (total - 1)
				t.vals[1] = s
				if ms := s & sh.mask; ms <= sh.max {
					want, wantReads = ms, 2
				} else {
					want, wantReads = 0, 3
				}
			}
			t.reads = 0
			got := p.UintN(n)
			if got != want || t.reads != wantReads || t.short|t.long != 0 {
				r.evals += int64(first) + 1
				return 0, r.judge(n, t.vals[:3], got, which)
			}
			if wantReads == 1 {
				counts[got]++
			}
		}
		r.evals += int64(total)
		for v := range counts {
			if counts[v] != per {
				return 0, c15Violation([]c15Draw{c15U("seed", r.seed), c15U("n", n)},
					"UintN(%d): among the %d possible first reads accepted at once, value %d occurs %d times, expected exactly 256^%d/2^%d = %d",
					n, total, v, counts[v], sh.size, sh.bitlen, per)
			}
		}
	}
	if pow2 {
		return 0, nil
	}
	// second level: one rejected first read, every second read; the decision
	// must be the same function of the read as at the first level.
	first := total - 1 // all ones: masked value is the mask > n-1
	if bits.OnesCount64(n)&1 == 0 {
		first = n // smallest rejected value
	}
	for i := range counts {
		counts[i] = 0
	}
	t.vals[0] = first
	for s := uint64(0); s < total; s++ {
		t.vals[1] = s
		ms := s & sh.mask
		want, wantReads := ms, 2
		if ms > sh.max {
			want, wantReads = 0, 3
		}
		t.reads = 0
		got := r.clean.UintN(n)
		if got != want || t.reads != wantReads || t.short|t.long != 0 {
			r.evals += int64(s) + 1
			return 0, r.judge(n, t.vals[:3], got, "clean")
		}
		if wantReads == 2 {
			counts[got]++
		}
	}
	r.evals += int64(total)
	for v := range counts {
		if counts[v] != per {
			return 0, c15Violation([]c15Draw{c15U("seed", r.seed), c15U("n", n)},
				"UintN(%d): after the rejected first read %#x, value %d occurs for %d of the %d second reads, expected %d (conditional distribution differs from the first level)",
				n, first, v, counts[v], total, per)
		}
	}
	return int64(2*total - 1), nil
}

// checkBig runs UintN(n) on seed-derived tapes and compares with the model.
func (r *c15UintNRig) checkBig(n uint64, tapes int, seen map[uint64]bool) (nt int64, rejections int64, f *c15Failure) {
	sh := c15ShapeOf(n)
	if sh.size == 0 {
		_, f = r.checkSmall(n)
		return 0, 0, f
	}
	t := &r.tape
	t.size = sh.size
	pow2 := sh.mask == sh.max
	rejectable := sh.mask - sh.max // number of masked values that are rejected
	for j := 0; j < tapes; j++ {
		rng := c15Rng{x: c15Mix(r.seed, n, uint64(j))}
		for i := range t.vals {
			t.vals[i] = rng.next()
		}
		hi := ^sh.mask
		reject := func(i int) {
			if !pow2 {
				t.vals[i] = t.vals[i]&hi | (sh.max + 1 + rng.next()%rejectable)
			}
		}
		switch j % 6 {
		case 1:
			reject(0)
		case 2:
			reject(0)
			reject(1)
		case 3: // the largest accepted value, under random high bits
			t.vals[0] = t.vals[0]&hi | sh.max
		case 4: // the smallest rejected value, then the largest accepted one
			if !pow2 {
				t.vals[0] = t.vals[0]&hi | (sh.max + 1)
			}
			t.vals[1] = t.vals[1]&hi | sh.max
		case 5: // all ones, then zero under all-ones high bits
			t.vals[0] = ^uint64(0)
			t.vals[1] = hi
		}
		p, which := r.clean, "clean"
		if j&1 == 1 {
			p, which = r.poisoned, "poisoned"
		}
		t.reset()
		got := p.UintN(n)
		r.evals++
		want, wantReads := c15Model(sh, t.vals[:])
		if got != want || t.reads != wantReads || t.short|t.long != 0 {
			return 0, 0, r.judge(n, t.vals[:], got, which)
		}
		rejections += int64(wantReads - 1)
		if wantReads > 1 && wantReads <= len(t.vals) && (j%6 == 2 || r.lastBig == nil) {
			rd := make([]string, wantReads)
			for i := range rd {
				rd[i] = fmt.Sprintf("%#x", t.vals[i])
			}
			r.lastBig = map[string]any{"test": "TestVerifC15_UintN", "what": "seed-derived tape", "n": fmt.Sprint(n), "read_bytes": sh.size, "significant_bits": sh.bitlen, "reads_little_endian": rd, "result": fmt.Sprint(got)}
		}
		if !pow2 {
			served := uint64(0)
			if sh.size < 8 {
				served = ^(uint64(1)<<uint(8*sh.size) - 1)
			}
			key := c15Mix(n, uint64(wantReads))
			for i := 0; i < wantReads && i < len(t.vals); i++ {
				key = c15Mix(key, t.vals[i]&^served)
			}
			if !seen[key] {
				seen[key] = true
				nt++
			}
		}
	}
	return nt, rejections, nil
}

// c15BigNs: 2^k, 2^k±1 for every k, 2^63, 2^64-1 and seed-derived n of every bit length above 16.
func c15BigNs(seed uint64, perLen int) []uint64 {
	seen := map[uint64]bool{0: true}
	var out []uint64
	add := func(n uint64) {
		if !seen[n] {
			seen[n] = true
			out = append(out, n)
		}
	}
	for k := 0; k < 64; k++ {
		p := uint64(1) << uint(k)
		add(p)
		add(p + 1)
		add(p - 1)
	}
	add(^uint64(0))     // 2^64-1
	add(^uint64(0) - 1) // 2^64-2
	add(uint64(1)<<63 + 1)
	rng := c15Rng{x: c15Mix(seed, 77)}
	for l := 17; l <= 64; l++ {
		for i := 0; i < perLen; i++ {
			v := rng.next()
			if l < 64 {
				v = v&(uint64(1)<<uint(l)-1) | uint64(1)<<uint(l-1)
			} else {
				v |= uint64(1) << 63
			}
			add(v)
		}
	}
	return out
}

func TestVerifC15_UintN(t *testing.T) {
	env := c15GetEnv(1024, 65536)
	st := c15NewStats()
	rig := c15NewRig(env.seed)
	var cur uint64 // the n being evaluated (for the panic handler)
	defer func() {
		if rec := recover(); rec != nil {
			msg := fmt.Sprintf("UintN(%d) panicked: %v", cur, rec)
			if _, ok := rec.(c15Runaway); ok {
				msg = fmt.Sprintf("UintN(%d) did not terminate on a source that serves zeros after the scripted reads (more than 4096 reads)", cur)
			}
			c15Report(t, st, env, c15Violation(append([]c15Draw{c15U("seed", env.seed), c15U("n", cur)}, c15Us("read", rig.tape.vals[:3])...), "%s", msg))
		}
	}()

	if env.replay != "" {
		m := c15LoadReplay(t, env.replay)
		n, ok := c15DrawUint(m, "n")
		if !ok || n == 0 {
			t.Fatalf("REPLAY-ERROR: record has no usable draw \"n\"")
		}
		if s, ok := c15DrawUint(m, "seed"); ok {
			rig = c15NewRig(s)
		}
		cur = n
		primeFailure := rig.prime() // reported last: the record's own n describes the defect better
		if n <= 1<<16 {
			_, f := rig.checkSmall(n)
			c15Report(t, st, env, f)
		}
		_, _, f := rig.checkBig(n, 4096, map[uint64]bool{})
		c15Report(t, st, env, f)
		// the exact source reads of the record, if present
		if rd := m["read"]; len(rd) > 0 && len(rd) <= len(rig.tape.vals) {
			for _, p := range []*genericPRG{rig.clean, rig.poisoned} {
				rig.tape.reset()
				rig.tape.vals = [16]uint64{}
				rig.tape.size = c15ShapeOf(n).size
				for i, d := range rd {
					if d.U != nil {
						rig.tape.vals[i] = *d.U
					}
				}
				got := p.UintN(n)
				c15Report(t, st, env, rig.judge(n, rig.tape.vals[:len(rd)], got, "replayed"))
			}
		}
		c15Report(t, st, env, primeFailure)
		t.Logf("replay of n=%d passes", n)
		return
	}

	// (a failure of the priming call is reported after the enumeration, which
	// describes the same defect with a small n)
	primeFailure := rig.prime()
	var ntCases int64
	report := func(f *c15Failure) {
		if f != nil {
			st.Evaluations, st.ExtraDistinct = rig.evals, ntCases
			c15Report(t, st, env, f)
		}
	}

	limit := env.n
	if limit > 1<<16 {
		st.Info["note"] = fmt.Sprintf("VERIF_N=%d capped at 65536 (exhaustive part covers 1- and 2-byte reads)", env.n)
		limit = 1 << 16
	}
	mine := func(n uint64) bool { return n%uint64(env.shards) == uint64(env.shard) }
	var nSmall int64
	for n := uint64(1); n <= uint64(limit); n++ {
		if !mine(n) {
			continue
		}
		cur = n
		before := rig.evals
		nt, f := rig.checkSmall(n)
		report(f)
		nSmall++
		ntCases += nt
		if nt > 0 {
			st.Classes["n_notPowerOfTwo"]++
			st.NonTrivial += rig.evals - before
			if sh := c15ShapeOf(n); len(st.Samples) < 2 && (sh.size == 2 || n == 201) {
				st.sample(map[string]any{"test": t.Name(), "what": "complete enumeration of the first and second source read", "n": n, "read_bytes": sh.size, "significant_bits": sh.bitlen,
					"first_reads": 1 << uint(8*sh.size), "first_reads_per_value": (1 << uint(8*sh.size)) >> uint(sh.bitlen), "rejected_first_reads": (1 << uint(8*sh.size)) >> uint(sh.bitlen) * int(sh.mask-sh.max)})
			}
		} else {
			st.Classes["n_powerOfTwo"]++
		}
		if c15ShapeOf(n).size <= 1 {
			st.Classes["n_oneByteReads_all256"]++
		} else {
			st.Classes["n_twoByteReads_all65536"]++
		}
	}
	st.Exhaustive = append(st.Exhaustive, fmt.Sprintf(
		"UintN(n) for every n in [1,%d] with n mod %d = %d: every value of the first source read (256^size tapes), and every value of the second read after one rejected first read",
		limit, env.shards, env.shard))

	report(primeFailure)

	// beyond the budget: the boundary values up to 2^16 and seed-derived n, same complete enumeration
	var extra []uint64
	if limit < 1<<16 {
		seen := map[uint64]bool{}
		add := func(n uint64) {
			if n > uint64(limit) && n <= 1<<16 && !seen[n] && mine(n) {
				seen[n] = true
				extra = append(extra, n)
			}
		}
		for k := 1; k <= 16; k++ {
			p := uint64(1) << uint(k)
			add(p - 1)
			add(p)
			add(p + 1)
		}
		rng := c15Rng{x: c15Mix(env.seed, 3)}
		for i := 0; i < 192*env.shards; i++ {
			add(uint64(limit) + 1 + rng.next()%uint64(1<<16-limit))
		}
		for _, n := range extra {
			cur = n
			before := rig.evals
			nt, f := rig.checkSmall(n)
			report(f)
			ntCases += nt
			if nt > 0 {
				st.NonTrivial += rig.evals - before
			}
			st.Classes["n_sampledBeyondBudget_allFirstReads"]++
		}
	}

	// large n on seed-derived tapes
	perLen, tapes := 6, 96
	if env.thorough {
		perLen, tapes = 48, 768
	}
	seen := map[uint64]bool{}
	var nBig, rejections int64
	for i, n := range c15BigNs(env.seed, perLen) {
		if i%env.shards != env.shard {
			continue
		}
		cur = n
		before := rig.evals
		nt, rej, f := rig.checkBig(n, tapes, seen)
		report(f)
		nBig++
		ntCases += nt
		rejections += rej
		if nt > 0 {
			st.NonTrivial += rig.evals - before
		}
		st.Classes[fmt.Sprintf("bigN_readSize%d", c15ShapeOf(n).size)]++
	}
	st.Classes["bigN_rejectedReads"] = rejections

	st.Evaluations = rig.evals
	st.ExtraDistinct = ntCases
	st.Info["uintn_small_n_enumerated"] = nSmall
	st.Info["uintn_sampled_n_enumerated"] = len(extra)
	st.Info["uintn_big_n"] = nBig
	st.Info["uintn_budget"] = limit
	if rig.lastBig != nil {
		st.sample(rig.lastBig)
	}
	st.flush()
	t.Logf("C15 UintN: %d evaluations, %d n enumerated completely (+%d sampled beyond the budget), %d large n, %d distinct non-trivial cases",
		rig.evals, nSmall, len(extra), nBig, ntCases)
}

// ---------------------------------------------------------------------------
// (b) Permutation, SubPermutation, Shuffle, Samples

const c15MaxCalls = 32

// c15PTape is the scripted randCore of the permutation checks: read number i
// serves vals[i] (i < n), later reads serve zeros.
type c15PTape struct {
	vals  [c15MaxCalls + 8]uint64
	n     int
	reads int
	sizes [c15MaxCalls + 8]uint8
}

func (t *c15PTape) Read(b []byte) {
	var v uint64
	if t.reads < t.n {
		v = t.vals[t.reads]
	}
	if t.reads < len(t.sizes) {
		s := len(b)
		if s > 255 {
			s = 255
		}
		t.sizes[t.reads] = uint8(s)
	} else if t.reads > 4096 {
		panic(c15Runaway{})
	}
	t.reads++
	for i := range b {
		b[i] = byte(v)
		v >>= 8
	}
}

const (
	c15Permutation = iota
	c15SubPermutation
	c15Shuffle
	c15Samples
)

var c15HelperNames = []string{"Permutation", "SubPermutation", "Shuffle", "Samples"}

func c15CallName(h, n, m int) string {
	if h == c15Permutation || h == c15Shuffle {
		return fmt.Sprintf("%s(%d)", c15HelperNames[h], n)
	}
	return fmt.Sprintf("%s(%d,%d)", c15HelperNames[h], n, m)
}

type c15Perm struct {
	tape  c15PTape
	p     *genericPRG
	items [16]int
	out   [16]int
	// view is everything one run lets an observer see about the draws (used only
	// to tell the values of one draw apart): the outcome, extended by the unused
	// capacity of the slice SubPermutation returns resp. by the complete
	// arrangement after Samples.
	view  [16]int
	nview int
	seed  uint64
	evals int64
}

func c15NewPerm(seed uint64) *c15Perm {
	c := &c15Perm{seed: seed}
	c.p = &genericPRG{randCore: &c.tape}
	return c
}

// run executes one helper on the scripted tape.  The outcome (m values: the
// permutation, the sub-permutation, the arrangement after Shuffle, the first m
// items after Samples) is left in c.out[:m]; bad describes an invalid output.
func (c *c15Perm) run(h, n, m int) (bad string) {
	c.evals++
	c.tape.reads = 0
	defer func() {
		if rec := recover(); rec != nil {
			if _, ok := rec.(c15Runaway); ok {
				bad = "did not terminate on a source that serves zeros after the scripted reads"
			} else {
				bad = fmt.Sprintf("panicked: %v", rec)
			}
		}
	}()
	switch h {
	case c15Permutation, c15SubPermutation:
		var res []int
		var err error
		if h == c15Permutation {
			res, err = c.p.Permutation(n)
		} else {
			res, err = c.p.SubPermutation(n, m)
		}
		if err != nil {
			return fmt.Sprintf("returned the error %q for valid sizes", err)
		}
		if len(res) != m {
			return fmt.Sprintf("returned %d elements, expected %d", len(res), m)
		}
		var seen uint32
		for i, v := range res {
			if v < 0 || v >= n {
				return fmt.Sprintf("returned %v: element %d is outside [0,%d)", res, v, n)
			}
			if seen&(1<<uint(v)) != 0 {
				return fmt.Sprintf("returned %v: element %d occurs twice", res, v)
			}
			seen |= 1 << uint(v)
			c.out[i] = v
		}
		if full := res[:cap(res)]; len(full) <= len(c.view) {
			res = full
		}
		c.nview = copy(c.view[:], res)
	default:
		for i := 0; i < n; i++ {
			c.items[i] = i
		}
		swapBad := ""
		nswaps := 0
		swap := func(i, j int) {
			nswaps++
			if i < 0 || j < 0 || i >= n || j >= n {
				if swapBad == "" {
					swapBad = fmt.Sprintf("called swap(%d,%d) with an index outside [0,%d)", i, j, n)
				}
				return
			}
			c.items[i], c.items[j] = c.items[j], c.items[i]
		}
		var err error
		if h == c15Shuffle {
			err = c.p.Shuffle(n, swap)
		} else {
			err = c.p.Samples(n, m, swap)
		}
		if err != nil {
			return fmt.Sprintf("returned the error %q for valid sizes", err)
		}
		if swapBad != "" {
			return swapBad
		}
		var seen uint32
		for i := 0; i < n; i++ {
			seen |= 1 << uint(c.items[i])
		}
		if seen != uint32(1)<<uint(n)-1 {
			return fmt.Sprintf("left %v, which is not a permutation of the original items", c.items[:n])
		}
		copy(c.out[:m], c.items[:m])
		c.nview = copy(c.view[:], c.items[:n])
	}
	return ""
}

func (c *c15Perm) viewKey() uint64 {
	var k uint64 = 1
	for i := 0; i < c.nview; i++ {
		k = k<<4 | uint64(c.view[i]&15)
	}
	return k
}

func (c *c15Perm) key(m int) uint64 {
	var k uint64 = 1
	for i := 0; i < m; i++ {
		k = k<<4 | uint64(c.out[i])
	}
	return k
}

func c15KeyString(k uint64) string {
	var d []int
	for k > 1 {
		d = append([]int{int(k & 15)}, d...)
		k >>= 4
	}
	return fmt.Sprint(d)
}

func (c *c15Perm) tapeBytes() []byte {
	b := make([]byte, c.tape.n)
	for i := range b {
		b[i] = byte(c.tape.vals[i])
	}
	return b
}

func (c *c15Perm) draws(h, n, m int) []c15Draw {
	return []c15Draw{c15U("seed", c.seed), c15I("helper", int64(h)), c15I("n", int64(n)), c15I("m", int64(m)), c15B("tape", c.tapeBytes())}
}

// checkCombo decides one (helper, n, m) completely.  Returned: number of
// distinct scripted tapes evaluated.
func (c *c15Perm) checkCombo(h, n, m int) (tapes int64, info string, f *c15Failure) {
	name := c15CallName(h, n, m)
	t := &c.tape
	viol := func(format string, a ...any) *c15Failure {
		return c15Violation(c.draws(h, n, m), "%s on source bytes %x (then zeros): %s", name, c.tapeBytes(), fmt.Sprintf(format, a...))
	}

	// 0. all-zero tape: number of source reads L and their sizes
	t.n = 0
	if bad := c.run(h, n, m); bad != "" {
		return 0, "", viol("%s", bad)
	}
	L := t.reads
	if L > c15MaxCalls {
		return 0, "", c15ModelNA("%s makes %d source reads on an all-zero source", name, L)
	}
	var sizes0 [c15MaxCalls]uint8
	copy(sizes0[:], t.sizes[:L])
	sizesOK := func(upto int) bool {
		for i := 0; i < upto && i < L; i++ {
			if t.sizes[i] != sizes0[i] {
				return false
			}
		}
		return true
	}

	// 1. per call d (on the zero prefix): which byte values are accepted, how
	// many distinct outcomes they produce (= the k of that UintN call)
	var ks, bl [c15MaxCalls]int
	for d := 0; d < L; d++ {
		if sizes0[d] > 1 {
			return 0, "", c15ModelNA("%s: source read %d requests %d bytes; the tape model predicts at most 1 for populations <= 256", name, d, sizes0[d])
		}
		var accepted [256]bool
		var keys [256]uint64
		mult := map[uint64]int{}
		for v := 0; v < 256; v++ {
			t.n = d + 1
			for i := 0; i < d; i++ {
				t.vals[i] = 0
			}
			t.vals[d] = uint64(v)
			if bad := c.run(h, n, m); bad != "" {
				return 0, "", viol("%s", bad)
			}
			switch t.reads {
			case L:
				accepted[v] = true
				keys[v] = c.viewKey()
				mult[keys[v]]++
			case L + 1:
			default:
				return 0, "", c15ModelNA("%s: %d source reads after replacing byte %d of an all-zero source by %#x (all-zero source: %d reads)", name, t.reads, d, v, L)
			}
		}
		k := len(mult)
		first := -1
		for _, cnt := range mult {
			if first < 0 {
				first = cnt
			}
			if cnt != first {
				t.n = d + 1
				t.vals[d] = 0
				return 0, "", viol("the values of source read %d that are accepted lead to %d different results with unequal multiplicities %v among the 256 byte values: the index drawn at step %d is not uniform", d, k, c15Multiplicities(mult), d)
			}
		}
		b := bits.Len(uint(k - 1))
		mask := 1<<uint(b) - 1
		for v := 0; v < 256; v++ {
			fits := accepted[v] == (v&mask < k)
			if fits && accepted[v] && keys[v] != keys[v&mask] {
				fits = false
			}
			if !fits {
				return 0, "", c15ModelNA("%s: source read %d yields %d outcomes but byte %#x is not treated as (value & %#x) < %d", name, d, k, v, mask, k)
			}
		}
		// (the number of bytes requested is not compared with k: equal classes of
		// byte values are all the counting argument needs)
		ks[d], bl[d] = k, b
	}
	info = fmt.Sprint(ks[:L])

	// 2. every tape of accepted values
	total := int64(1)
	for d := 0; d < L; d++ {
		total *= int64(ks[d])
		if total > 1<<24 {
			return 0, "", c15ModelNA("%s: more than 2^24 accepted-value tapes", name)
		}
	}
	nOut := int64(1)
	for i := 0; i < m; i++ {
		nOut *= int64(n - i)
	}
	counts := make(map[uint64]int32, nOut)
	var idx [c15MaxCalls]int
	var base [16]int
	rng := c15Rng{x: c15Mix(c.seed, uint64(h), uint64(n), uint64(m))}
	sameAsBase := func() bool {
		for i := 0; i < m; i++ {
			if c.out[i] != base[i] {
				return false
			}
		}
		return true
	}
	for leaf := int64(0); leaf < total; leaf++ {
		t.n = L
		for d := 0; d < L; d++ {
			t.vals[d] = uint64(idx[d])
		}
		if bad := c.run(h, n, m); bad != "" {
			return 0, "", viol("%s", bad)
		}
		if t.reads != L || !sizesOK(L) {
			return 0, "", c15ModelNA("%s: values %v are each accepted after a zero prefix (per-draw ranges %v) but this source is consumed with %d reads instead of %d: the range of a draw depends on earlier draws", name, idx[:L], ks[:L], t.reads, L)
		}
		copy(base[:m], c.out[:m])
		counts[c.key(m)]++
		tapes++

		// (iv) bits above the bit length of each call do not matter
		for variant := 0; variant < 2; variant++ {
			changed, allOnes := false, true
			for d := 0; d < L; d++ {
				if sizes0[d] == 0 || bl[d] >= 8 {
					continue
				}
				full := uint64(0xff) << uint(bl[d]) & 0xff
				hi := full
				if variant == 1 {
					hi = rng.next() << uint(bl[d]) & 0xff
				}
				if hi != 0 {
					changed = true
				}
				if hi != full {
					allOnes = false
				}
				t.vals[d] = uint64(idx[d]) | hi
			}
			if !changed || (variant == 1 && allOnes) {
				continue // would repeat the base tape or variant 0
			}
			if bad := c.run(h, n, m); bad != "" {
				return 0, "", viol("%s", bad)
			}
			if t.reads != L || !sameAsBase() {
				return 0, "", viol("outcome %v after %d reads; with the bits above the bit length of each draw cleared (%v) the outcome is %v after %d reads", c.out[:m], t.reads, idx[:L], base[:m], L)
			}
			tapes++
		}

		// (iii) a rejected value inserted anywhere changes nothing
		var multi [c15MaxCalls + 8]uint64
		nm := 0
		for d := 0; d < L; d++ {
			for r := ks[d]; r < 1<<uint(bl[d]); r++ {
				hi := rng.next() << uint(bl[d]) & 0xff
				rv := uint64(r) | hi
				t.n = L + 1
				for i := 0; i < d; i++ {
					t.vals[i] = uint64(idx[i])
				}
				t.vals[d] = rv
				for i := d; i < L; i++ {
					t.vals[i+1] = uint64(idx[i])
				}
				if bad := c.run(h, n, m); bad != "" {
					return 0, "", viol("%s", bad)
				}
				if t.reads != L+1 && sameAsBase() {
					return 0, "", c15ModelNA("%s: byte %#x is rejected by draw %d after a zero prefix but source %x is consumed with %d reads instead of %d", name, rv, d, c.tapeBytes(), t.reads, L+1)
				}
				if !sameAsBase() {
					return 0, "", viol("byte %d (%#x, value %d under the %d-bit mask) should be rejected by a draw from [0,%d) and leave the outcome of %v unchanged (%v after %d reads); got %v after %d reads",
						d, rv, r, bl[d], ks[d], idx[:L], base[:m], L, c.out[:m], t.reads)
				}
				tapes++
				if nm < len(multi)-L-1 && (r == ks[d] || rng.next()&1 == 1) {
					multi[nm] = rv
					nm++
				}
			}
			if nm < len(multi) {
				multi[nm] = uint64(idx[d])
				nm++
			}
		}
		if nm > L+1 && nm <= len(t.vals) { // several rejected values at once
			t.n = nm
			copy(t.vals[:nm], multi[:nm])
			if bad := c.run(h, n, m); bad != "" {
				return 0, "", viol("%s", bad)
			}
			if t.reads != nm || !sameAsBase() {
				return 0, "", viol("the rejected values inserted into %v should leave the outcome %v unchanged and consume %d reads; got %v after %d reads", idx[:L], base[:m], nm, c.out[:m], t.reads)
			}
			tapes++
		}

		// next leaf
		for d := L - 1; d >= 0; d-- {
			idx[d]++
			if idx[d] < ks[d] {
				break
			}
			idx[d] = 0
		}
	}

	// 3. the map tapes -> outcomes is onto all n!/(n-m)! outcomes with equal multiplicity
	t.n = 0
	noTape := []c15Draw{c15U("seed", c.seed), c15I("helper", int64(h)), c15I("n", int64(n)), c15I("m", int64(m))}
	if int64(len(counts)) != nOut || total%nOut != 0 {
		return 0, "", c15Violation(noTape, "%s: the %d equally likely accepted-value tapes (per-draw ranges %v) reach %d distinct outcomes; there are %d possible outcomes, so they cannot be equally likely",
			name, total, ks[:L], len(counts), nOut)
	}
	each := int32(total / nOut)
	for k, cnt := range counts {
		if cnt != each {
			return 0, "", c15Violation(noTape, "%s: outcome %s is produced by %d of the %d equally likely accepted-value tapes (per-draw ranges %v), expected exactly %d (probability %d/%d instead of 1/%d)",
				name, c15KeyString(k), cnt, total, ks[:L], each, cnt, total, nOut)
		}
	}
	return tapes, info, nil
}

func c15Multiplicities(m map[uint64]int) []string {
	var out []string
	for k, v := range m {
		out = append(out, fmt.Sprintf("%s:%d", c15KeyString(k), v))
		if len(out) >= 8 {
			break
		}
	}
	return out
}

// checkErrors: negative or inconsistent sizes return an error and never call swap.
func (c *c15Perm) checkErrors() (int64, *c15Failure) {
	var evals int64
	t := &c.tape
	t.n = 0
	swaps := 0
	swap := func(i, j int) { swaps++ }
	minInt := -int(^uint(0)>>1) - 1
	bad := func(h, n, m int, what string) *c15Failure {
		return c15Violation([]c15Draw{c15U("seed", c.seed), c15I("helper", int64(h)), c15I("n", int64(n)), c15I("m", int64(m)), c15I("errorCase", 1)},
			"%s %s", c15CallName(h, n, m), what)
	}
	// a rejected call leaves the generator where it was: it reads nothing from the source (otherwise two generators with
	// equal seeds and equal histories of accepted calls give different outputs); a call that keeps reading is stopped
	guarded := func(f func()) (runaway bool) {
		defer func() {
			if rec := recover(); rec != nil {
				if _, ok := rec.(c15Runaway); !ok {
					panic(rec)
				}
				runaway = true
			}
		}()
		f()
		return false
	}
	consumed := func() string {
		return fmt.Sprintf("was given inconsistent sizes and read %d value(s) from the random source before (or instead of) returning its error: a rejected call must leave the generator where it was", t.reads)
	}
	for _, n := range []int{-1, -2, -7, -256, -65536, minInt, minInt + 1} {
		t.reads = 0
		var res []int
		var err error
		if guarded(func() { res, err = c.p.Permutation(n) }) || err == nil {
			return evals, bad(c15Permutation, n, n, fmt.Sprintf("returned %v without an error", res))
		}
		if t.reads != 0 {
			return evals, bad(c15Permutation, n, n, consumed())
		}
		swaps = 0
		if guarded(func() { err = c.p.Shuffle(n, swap) }) || err == nil || swaps != 0 {
			return evals, bad(c15Shuffle, n, n, fmt.Sprintf("returned err=%v after %d swap calls", err, swaps))
		}
		if t.reads != 0 {
			return evals, bad(c15Shuffle, n, n, consumed())
		}
		evals += 2
	}
	pairs := [][2]int{}
	for n := -3; n <= 8; n++ {
		for m := -3; m <= 10; m++ {
			if n < 0 || m < 0 || m > n {
				pairs = append(pairs, [2]int{n, m})
			}
		}
	}
	pairs = append(pairs, [2]int{minInt, minInt}, [2]int{minInt, 0}, [2]int{0, minInt}, [2]int{5, minInt}, [2]int{minInt, 5},
		[2]int{-1, int(^uint(0) >> 1)}, [2]int{7, int(^uint(0) >> 1)}, [2]int{1 << 20, 1<<20 + 1})
	for _, p := range pairs {
		n, m := p[0], p[1]
		t.reads = 0
		var res []int
		var err error
		ran := guarded(func() { res, err = c.p.SubPermutation(n, m) })
		if t.reads != 0 {
			return evals, bad(c15SubPermutation, n, m, consumed())
		}
		if ran || err == nil {
			return evals, bad(c15SubPermutation, n, m, fmt.Sprintf("returned %d elements without an error", len(res)))
		}
		swaps = 0
		ran = guarded(func() { err = c.p.Samples(n, m, swap) })
		if t.reads != 0 {
			return evals, bad(c15Samples, n, m, consumed())
		}
		if ran || err == nil || swaps != 0 {
			return evals, bad(c15Samples, n, m, fmt.Sprintf("returned err=%v after %d swap calls", err, swaps))
		}
		evals += 2
	}
	return evals, nil
}

func TestVerifC15_Perm(t *testing.T) {
	env := c15GetEnv(6, 8)
	st := c15NewStats()
	c := c15NewPerm(env.seed)
	maxN := env.n
	if maxN > 10 {
		st.Info["note"] = fmt.Sprintf("VERIF_N=%d capped at 10", env.n)
		maxN = 10
	}

	if env.replay != "" {
		m := c15LoadReplay(t, env.replay)
		if s, ok := c15DrawUint(m, "seed"); ok {
			c = c15NewPerm(s)
		}
		if _, ok := c15DrawInt(m, "errorCase"); ok {
			_, f := c.checkErrors()
			c15Report(t, st, env, f)
			t.Logf("replay of the error cases passes")
			return
		}
		h, ok1 := c15DrawInt(m, "helper")
		n, ok2 := c15DrawInt(m, "n")
		mm, ok3 := c15DrawInt(m, "m")
		if !ok1 || !ok2 || !ok3 || h < 0 || h > 3 || n < 0 || n > 10 || mm < 0 || mm > n {
			t.Fatalf("REPLAY-ERROR: record has no usable draws helper/n/m")
		}
		_, _, f := c.checkCombo(int(h), int(n), int(mm))
		c15Report(t, st, env, f)
		t.Logf("replay of %s passes", c15CallName(int(h), int(n), int(mm)))
		return
	}

	ev, f := c.checkErrors()
	c15Report(t, st, env, f)
	st.Classes["errorArgs"] = ev
	c.evals += ev

	type combo struct{ h, n, m int }
	var combos []combo
	for n := 0; n <= maxN; n++ {
		combos = append(combos, combo{c15Permutation, n, n}, combo{c15Shuffle, n, n})
		for m := 0; m <= n; m++ {
			combos = append(combos, combo{c15SubPermutation, n, m}, combo{c15Samples, n, m})
		}
	}
	ranges := map[string]string{}
	var distinct int64
	report := func(f *c15Failure) {
		if f != nil {
			st.Evaluations, st.ExtraDistinct = c.evals, distinct
			c15Report(t, st, env, f)
		}
	}
	for i, cb := range combos {
		if i%env.shards != env.shard {
			continue
		}
		before := c.evals
		tapes, info, f := c.checkCombo(cb.h, cb.n, cb.m)
		report(f)
		st.Classes[c15HelperNames[cb.h]]++
		if cb.m < cb.n || cb.n >= 3 {
			st.NonTrivial += c.evals - before
			distinct += tapes
		}
		if cb.n == maxN {
			ranges[c15CallName(cb.h, cb.n, cb.m)] = info
		}
	}
	st.Evaluations = c.evals
	st.ExtraDistinct = distinct
	st.Info["perm_draw_ranges_at_max_n"] = ranges
	st.Info["perm_max_n"] = maxN
	st.Exhaustive = append(st.Exhaustive, fmt.Sprintf(
		"Permutation(n), Shuffle(n), SubPermutation(n,m), Samples(n,m) for every n <= %d and m <= n (combination index mod %d = %d): every tape of accepted values (n! resp. n!/(n-m)! tapes), each also with every rejected value inserted at every position and with the unused high bits set",
		maxN, env.shards, env.shard))
	st.sample(map[string]any{"test": t.Name(), "what": "complete enumeration", "call": fmt.Sprintf("Samples(%d,%d)", maxN, maxN/2), "per_draw_ranges": ranges[c15CallName(c15Samples, maxN, maxN/2)]})
	st.sample(map[string]any{"test": t.Name(), "what": "complete enumeration", "call": fmt.Sprintf("Permutation(%d)", maxN), "per_draw_ranges": ranges[c15CallName(c15Permutation, maxN, maxN)]})
	st.flush()
	t.Logf("C15 Perm: %d helper executions, %d distinct non-trivial tapes, n <= %d", c.evals, distinct, maxN)
}

// ---------------------------------------------------------------------------
// (c) UintN: rejection at every depth.  The decision function verified by
// TestVerifC15_UintN at read depths 1 and 2 must be the same at every depth: a
// source that serves K rejected values and then an accepted value v must yield
// exactly v after exactly K+1 reads, for every K (no cap on the number of
// attempts, no fallback that folds a rejected value into the range).

type c15DeepTape struct {
	rejected, accepted uint64
	depth              int
	reads              int
	size               int
	badSize            bool
}

func (t *c15DeepTape) Read(b []byte) {
	v := t.accepted
	if t.reads < t.depth {
		v = t.rejected
	} else if t.reads > t.depth+4096 {
		panic(c15Runaway{})
	}
	t.reads++
	if len(b) != t.size {
		t.badSize = true
	}
	for i := range b {
		b[i] = byte(v)
		v >>= 8
	}
}

func TestVerifC15_Deep(t *testing.T) {
	env := c15GetEnv(128, 1024)
	st := c15NewStats()
	rng := &c15Rng{x: env.seed}
	var ns []uint64
	for n := uint64(3); n <= uint64(env.n)*4; n++ {
		if n&(n-1) != 0 {
			ns = append(ns, n)
		}
	}
	for k := uint(2); k < 64; k++ {
		ns = append(ns, uint64(1)<<k+1, uint64(1)<<k-1, uint64(1)<<k+uint64(1)<<(k-1))
	}
	if env.replay != "" {
		m := c15LoadReplay(t, env.replay)
		if n, ok := c15DrawUint(m, "n"); ok && n > 0 {
			ns = []uint64{n}
		}
	}
	depths := []int{1, 2, 3, 7, 8, 15, 16, 17, 31, 32, 33, 63, 64, 65, 100, 127, 128, 129, 255, 256, 257, 1000}
	if env.thorough {
		depths = nil
		for d := 1; d <= 300; d++ {
			depths = append(depths, d)
		}
		depths = append(depths, 1000, 4000)
	}
	var cur uint64
	var curDepth int
	defer func() {
		if rec := recover(); rec != nil {
			msg := fmt.Sprintf("UintN(%d) panicked after %d rejected reads: %v", cur, curDepth, rec)
			if _, ok := rec.(c15Runaway); ok {
				msg = fmt.Sprintf("UintN(%d) did not stop at the first accepted value after %d rejected reads", cur, curDepth)
			}
			c15Report(t, st, env, c15Violation([]c15Draw{c15U("n", cur), c15I("depth", int64(curDepth))}, "%s", msg))
		}
	}()
	for i, n := range ns {
		if i%env.shards != env.shard {
			continue
		}
		sh := c15ShapeOf(n)
		if sh.mask == sh.max {
			continue // power of two minus... every masked value is accepted: no rejection possible
		}
		cur = n
		for _, d := range depths {
			curDepth = d
			// a rejected masked value in (max, mask] and an accepted one in [0, max], with random high bits above the mask
			rej := sh.max + 1 + rng.next()%(sh.mask-sh.max)
			acc := rng.next() % (sh.max + 1)
			if sh.bitlen < 64 {
				hi := rng.next() &^ sh.mask
				rej |= hi
				acc |= (rng.next() &^ sh.mask)
			}
			tape := &c15DeepTape{rejected: rej, accepted: acc, depth: d, size: sh.size}
			p := &genericPRG{randCore: tape}
			got := p.UintN(n)
			st.Evaluations++
			st.NonTrivial++
			st.ExtraDistinct++
			draws := []c15Draw{c15U("n", n), c15I("depth", int64(d)), c15U("rejected", rej), c15U("accepted", acc)}
			if tape.badSize {
				c15Report(t, st, env, c15ModelNA("UintN(%d) requested a read of a length other than ceil(bitlen(n-1)/8) = %d bytes", n, sh.size))
				return
			}
			if got != acc&sh.mask || tape.reads != d+1 {
				c15Report(t, st, env, c15Violation(draws,
					"UintN(%d) on a source serving %d rejected values (masked %d > n-1) and then the accepted value %d returned %d after %d reads; rejection sampling returns %d after %d reads: values are not equally likely",
					n, d, rej&sh.mask, acc&sh.mask, got, tape.reads, acc&sh.mask, d+1))
				return
			}
		}
	}
	st.Classes["uintN:deepRejection"] = st.Evaluations
	st.Exhaustive = append(st.Exhaustive, fmt.Sprintf("C15: UintN with K rejected reads then an accepted one, %d depths K up to %d, for every non-power-of-two n <= %d and 2^k+1, 2^k-1, 3·2^(k-1)", len(depths), depths[len(depths)-1], env.n*4))
	st.sample(map[string]any{"test": "TestVerifC15_Deep", "n": cur, "depths": len(depths)})
	st.flush()
}
