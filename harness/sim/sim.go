// Package sim is a deterministic, round-synchronous network simulator for the
// DKG protocols of onflow/crypto.  Honest participants are real library
// instances behind a recording DKGProcessor; a Byzantine participant is a real
// instance too, but every message it emits passes through a generated fault
// grammar, and it may inject unsolicited messages.  The scheduler delivers the
// (message, receiver) pairs of a round in a generated order; the only order
// constraints are the ones the properties assume: broadcasts of one sender reach
// every receiver in the order they were sent, every message of a round is
// delivered before the round's timeout, and a broadcast reaches every receiver
// in the same round.  All choices come from gen.G draws, with 0 meaning "FIFO /
// honest" so that shrinking converges to the plain honest run.
package sim

import (
	"bytes"
	"fmt"
	"math/big"

	"github.com/onflow/crypto"

	"verifharness/gen"
	"verifharness/oracle/bls381"
)

type Protocol int

const (
	FeldmanVSS Protocol = iota
	FeldmanVSSQual
	JointFeldman
)

func (p Protocol) String() string {
	return [...]string{"FeldmanVSS", "FeldmanVSSQual", "JointFeldman"}[p]
}

const (
	TagShare     = 0
	TagVector    = 1
	TagComplaint = 2
	TagAnswer    = 3
)

// Event is a Disqualify / FlagMisbehavior callback.
type Event struct {
	Disqualify bool
	Reporter   int
	Target     int
	Round      int
	Log        string
}

// Node is one participant.
type Node struct {
	Idx    int
	Byz    bool
	Inst   crypto.DKGState
	Events []Event
	// End results
	Ended bool
	Err   error
	SK    crypto.PrivateKey
	GPK   crypto.PublicKey
	PKs   []crypto.PublicKey
	sim   *Sim
}

func (n *Node) PrivateSend(dest int, data []byte) { n.sim.emit(n.Idx, dest, append([]byte{}, data...)) }
func (n *Node) Broadcast(data []byte)             { n.sim.emit(n.Idx, -1, append([]byte{}, data...)) }
func (n *Node) Disqualify(index int, log string) {
	n.Events = append(n.Events, Event{true, n.Idx, index, n.sim.Round, log})
	n.sim.tracef("  node %d: DISQUALIFY %d (%s)", n.Idx, index, short(log))
}
func (n *Node) FlagMisbehavior(index int, log string) {
	n.Events = append(n.Events, Event{false, n.Idx, index, n.sim.Round, log})
	n.sim.tracef("  node %d: FLAG %d (%s)", n.Idx, index, short(log))
}

func short(s string) string {
	if len(s) > 90 {
		return s[:90] + "…"
	}
	return s
}

// delivery is one (message, receiver) pair waiting in a round's pool.
type delivery struct {
	from, to  int
	broadcast bool
	bseq      int // per-sender broadcast sequence number (order constraint)
	data      []byte
}

// DealerInfo is what the fault grammar recorded about one dealer's dealing.
type DealerInfo struct {
	VectorFault string         // "", omitted, late, wrongSize, badEncoding, offCurve, notInG2, smallOrder, alt, duplicated, identityA0
	ShareFault  map[int]string // per receiver: "", omitted, late, empty, badTag, wrongSize, zero, geR, alt, plusOne, duplicated
	Honest      [][]byte       // honest share payloads (32-byte scalar) per receiver, nil for self
	Alt         [][]byte       // shares of the alternative polynomial
	VectorSent  []byte         // the vector payload actually broadcast first (nil if never)
	AltVector   []byte         // verification vector of the alternative polynomial
}

// Sim is one scenario.
type Sim struct {
	G       *gen.G
	Proto   Protocol
	N, T    int
	Dealer  int // single dealer (FeldmanVSS, FeldmanVSSQual)
	Nodes   []*Node
	Round   int // 1, 2, 3
	pool    []*delivery
	later   map[int][]*delivery // round -> deliveries emitted by "late" faults
	bseq    []int
	Trace   []string
	Swapped bool

	Dealers map[int]*DealerInfo // Byzantine dealers only
	// what honest participants observed (for the C08 converse oracle)
	HonestComplaints map[[2]int]int    // (complainer, dealer) -> round delivered first
	AllComplaints    map[[2]int]int    // (complainer, dealer) -> round first broadcast, Byzantine complainers included
	Answers          map[[2]int][]byte // (dealer, complainer) -> first answer payload (scalar bytes) broadcast
	FirstVector      map[int][]byte    // sender -> payload of the first verification vector it broadcast (honest and Byzantine dealers)
	FirstVectorRound map[int]int       // sender -> round in which that broadcast was made
	Classes          map[string]bool
	reorder          bool // whether non-FIFO delivery happened
	faultsOn         bool
	inEmitHook       bool
	inTimeout        bool
	KnownF5          bool
	// Template mode ("one victim, one wildcard"): a Byzantine dealer mistreats exactly one honest victim's share, every other
	// fault point is honest except the one whose running number equals Wildcard, where the fault kind is drawn freely.
	Template    bool
	Victim      int
	Wildcard    int
	faultPoint  int
	heldVectors []*delivery
	// Accuse: Byzantine non-dealers raise groundless complaints against honest dealers at generated points of rounds 1 and 2.
	// Accomplice >= 0 (with Template): the Byzantine dealer Dealer/byz[0] and the Byzantine participant Accomplice cooperate:
	// the dealer publishes an answer "for" the accomplice and the accomplice complains, each at a generated point of a
	// generated round, in either order, around whatever happens to the honest victim.
	// Template dimensions around the victim: the dealer publishes an answer for the victim on its own initiative (1 = the
	// correct value, 2 = a wrong one) at a generated point of round EarlyAnswerRound, possibly before the victim has
	// complained, and (VectorLast) broadcasts its verification vector after its other round-1 broadcasts.
	VictimEarlyAnswer                 int
	EarlyAnswerRound                  int
	VectorLast                        bool
	Accuse                            bool
	Accomplice                        int
	AccDealer                         int
	planned                           []*plannedInj
	accAnswerRound, accComplaintRound int
	deferring                         map[int]int // honest sender -> round in which one of its broadcasts was deferred (later ones of that round follow it)
	NoEcho                            bool        // never deliver a broadcast back to its own sender
	NoDefer                           bool        // switch the deferral of honest reaction messages off (plain VSS, C09's no-panic networks keep it on)
	Excluded                          map[string]int
	started                           bool
	startBuf                          []*delivery
}

func (s *Sim) tracef(format string, a ...any) {
	if len(s.Trace) < 400 {
		s.Trace = append(s.Trace, fmt.Sprintf(format, a...))
	}
}

func (s *Sim) class(c string) { s.Classes[c] = true }

// New builds the participants.  byz lists the Byzantine indices.
func New(g *gen.G, proto Protocol, n, t, dealer int, byz []int, swapped bool) *Sim {
	s := &Sim{G: g, Proto: proto, N: n, T: t, Dealer: dealer, later: map[int][]*delivery{}, bseq: make([]int, n),
		Dealers: map[int]*DealerInfo{}, HonestComplaints: map[[2]int]int{}, AllComplaints: map[[2]int]int{}, Answers: map[[2]int][]byte{}, FirstVector: map[int][]byte{}, FirstVectorRound: map[int]int{}, Classes: map[string]bool{},
		Excluded: map[string]int{}, deferring: map[int]int{}, Swapped: swapped, faultsOn: true, Accomplice: -1}
	isByz := map[int]bool{}
	for _, b := range byz {
		isByz[b] = true
	}
	for i := 0; i < n; i++ {
		nd := &Node{Idx: i, Byz: isByz[i], sim: s}
		nd.Inst = s.newInstance(i, nd)
		s.Nodes = append(s.Nodes, nd)
	}
	return s
}

func (s *Sim) newInstance(i int, proc crypto.DKGProcessor) crypto.DKGState {
	var inst crypto.DKGState
	var err error
	switch s.Proto {
	case FeldmanVSS:
		inst, err = crypto.NewFeldmanVSS(s.N, s.T, i, proc, s.Dealer)
	case FeldmanVSSQual:
		inst, err = crypto.NewFeldmanVSSQual(s.N, s.T, i, proc, s.Dealer)
	default:
		inst, err = crypto.NewJointFeldman(s.N, s.T, i, proc)
	}
	if err != nil {
		s.G.Fatalf("constructor %v(n=%d, t=%d, me=%d, dealer=%d) failed: %v", s.Proto, s.N, s.T, i, s.Dealer, err)
	}
	return inst
}

func (s *Sim) isDealer(i int) bool { return s.Proto == JointFeldman || i == s.Dealer }

// recorder captures the dealing of a shadow instance (alternative polynomial).
type recorder struct {
	shares [][]byte
	vector []byte
}

func (r *recorder) PrivateSend(dest int, data []byte) { r.shares[dest] = append([]byte{}, data[1:]...) }
func (r *recorder) Broadcast(data []byte) {
	if len(data) > 0 && data[0] == TagVector && r.vector == nil {
		r.vector = append([]byte{}, data[1:]...)
	}
}
func (r *recorder) Disqualify(int, string)      {}
func (r *recorder) FlagMisbehavior(int, string) {}

// Start starts every participant (in a generated order) with seeds derived from a drawn value.
func (s *Sim) Start() {
	s.Round = 1
	seedBase := s.G.Uint64("seedBase")
	order := s.G.Perm("startOrder", s.N)
	// Byzantine dealers: prepare the alternative polynomial before anything is emitted
	for _, nd := range s.Nodes {
		if nd.Byz && s.isDealer(nd.Idx) {
			rec := &recorder{shares: make([][]byte, s.N)}
			alt := s.newInstance(nd.Idx, rec)
			if err := alt.Start(gen.ExpandSeed(seedBase^0xa5a5^uint64(nd.Idx)<<8, 32)); err != nil {
				s.G.Fatalf("shadow dealer Start failed: %v", err)
			}
			s.Dealers[nd.Idx] = &DealerInfo{ShareFault: map[int]string{}, Honest: make([][]byte, s.N), Alt: rec.shares}
			s.Dealers[nd.Idx].altVector(rec.vector)
		}
	}
	for _, i := range order {
		nd := s.Nodes[i]
		seed := gen.ExpandSeed(seedBase+uint64(i)*0x1000193, 32)
		s.tracef("Start node %d%s", i, map[bool]string{true: " (Byzantine)", false: ""}[nd.Byz])
		if err := nd.Inst.Start(seed); err != nil {
			s.G.Fatalf("node %d: Start failed: %v", i, err)
		}
	}
	// messages emitted inside Start were buffered until everybody runs
	s.started = true
	buf := s.startBuf
	s.startBuf = nil
	for _, d := range buf {
		s.route(d)
	}
}

func (d *DealerInfo) altVector(v []byte) { d.AltVector = v }

// emit is called from the processors.
func (s *Sim) emit(from, to int, data []byte) {
	d := &delivery{from: from, to: to, broadcast: to < 0, data: data}
	if !s.started {
		s.startBuf = append(s.startBuf, d)
		return
	}
	s.route(d)
}

// route applies the fault grammar (Byzantine senders) and enqueues deliveries.
func (s *Sim) route(d *delivery) {
	nd := s.Nodes[d.from]
	if !nd.Byz || !s.faultsOn {
		s.enqueue(d, s.honestDelay(d))
		return
	}
	s.byzantine(d)
}

// honestDelay decides whether a broadcast that an honest participant emits in reaction to a message (a complaint on a
// bad share in round 1, a complaint answer in round 1 or 2) is delivered in the round it was emitted in or in the next
// one.  The library gives every message type its own deadline (shares and vector: first timeout; complaints: second
// timeout; answers: End), and a reaction to a message that arrived late in a round cannot be expected before the
// round's timeout.  A deferred broadcast still reaches every receiver in one and the same round, and later broadcasts
// of the same sender in that round are deferred with it (per-sender order).  Messages emitted inside Start or
// NextTimeout (shares, vectors, complaints about missing shares) are never deferred: they open their round.
func (s *Sim) honestDelay(d *delivery) int {
	if s.NoDefer || !d.broadcast || len(d.data) == 0 || s.Proto == FeldmanVSS || !s.started || s.inTimeout {
		return 0
	}
	if s.deferring[d.from] == s.Round {
		return 1
	}
	ok := false
	switch d.data[0] {
	case TagComplaint:
		ok = s.Round == 1
	case TagAnswer:
		// an answer emitted in round 3 (the reaction to something delivered after the second timeout) may miss End
		// altogether: "next round" then means never.  On a correct implementation nothing that arrives after the
		// second timeout makes an honest dealer answer, so nothing of consequence is dropped.
		ok = s.Round <= 3
	}
	num := 1
	if d.data[0] == TagAnswer {
		num = 2 // answers of honest dealers are rare events: defer two in five
	}
	if !ok || !s.G.Chance("honestReactionNextRound", num, 5) {
		return 0
	}
	s.deferring[d.from] = s.Round
	s.class("honest:" + map[byte]string{TagComplaint: "complaint", TagAnswer: "answer"}[d.data[0]] + "DeliveredNextRound")
	s.tracef("  (honest %d: %s is delivered in the next round)", d.from, Describe(d.data))
	return 1
}

// enqueue puts a message into the pool of round (current + delay).
func (s *Sim) enqueue(d *delivery, delay int) {
	if delay > 0 {
		s.later[s.Round+delay] = append(s.later[s.Round+delay], d)
		return
	}
	if d.broadcast {
		s.bseq[d.from]++
		seq := s.bseq[d.from]
		s.tracef("  [r%d] node %d broadcasts %s", s.Round, d.from, Describe(d.data))
		echo := !s.NoEcho && s.G.Chance("echoToSender", 1, 10)
		if echo {
			s.class("broadcastEchoedToItsSender")
		}
		for r := 0; r < s.N; r++ {
			if r == d.from && !echo {
				continue // a broadcast channel may or may not hand a message back to its own sender (the library ignores it)
			}
			s.pool = append(s.pool, &delivery{from: d.from, to: r, broadcast: true, bseq: seq, data: d.data})
		}
		s.observeBroadcast(d)
		return
	}
	s.tracef("  [r%d] node %d -> %d private %s", s.Round, d.from, d.to, Describe(d.data))
	s.pool = append(s.pool, d)
}

func (s *Sim) observeBroadcast(d *delivery) {
	if len(d.data) == 0 {
		return
	}
	switch d.data[0] {
	case TagComplaint:
		if len(d.data) == 2 {
			k := [2]int{d.from, int(d.data[1])}
			if _, ok := s.AllComplaints[k]; !ok {
				s.AllComplaints[k] = s.Round
			}
			if _, ok := s.HonestComplaints[k]; !ok && !s.Nodes[d.from].Byz {
				s.HonestComplaints[k] = s.Round
			}
		}
	case TagAnswer:
		if len(d.data) == 34 {
			k := [2]int{d.from, int(d.data[1])}
			if _, ok := s.Answers[k]; !ok {
				s.Answers[k] = append([]byte{}, d.data[2:]...)
			}
		}
	case TagVector:
		if _, ok := s.FirstVector[d.from]; !ok {
			s.FirstVector[d.from] = append([]byte{}, d.data[1:]...)
			s.FirstVectorRound[d.from] = s.Round
		}
		if di := s.Dealers[d.from]; di != nil && di.VectorSent == nil {
			di.VectorSent = append([]byte{}, d.data[1:]...)
		}
	}
}

// Describe renders a payload for traces.
func Describe(b []byte) string {
	if len(b) == 0 {
		return "<empty>"
	}
	name := map[byte]string{0: "share", 1: "vector", 2: "complaint", 3: "answer"}[b[0]]
	if name == "" {
		name = fmt.Sprintf("tag%d", b[0])
	}
	switch {
	case b[0] == TagComplaint && len(b) == 2:
		return fmt.Sprintf("complaint(against %d)", b[1])
	case b[0] == TagAnswer && len(b) >= 2:
		return fmt.Sprintf("answer(for %d, %d bytes, %x…)", b[1], len(b)-2, head(b[2:], 4))
	default:
		return fmt.Sprintf("%s(%d bytes, %x…)", name, len(b)-1, head(b[1:], 4))
	}
}

func head(b []byte, n int) []byte {
	if len(b) > n {
		return b[:n]
	}
	return b
}

// DeliverAll drains the current round's pool in a generated order.
func (s *Sim) DeliverAll() {
	guard := 0
	for len(s.pool) > 0 || len(s.planned) > 0 {
		if len(s.pool) == 0 { // nothing left to deliver: what was planned for later in this round happens now
			s.firePlanned(true)
			continue
		}
		guard++
		limit := 20000
		if s.N > 16 {
			limit = 100 * s.N * s.N // every participant may complain and every complaint is answered: O(n²) deliveries per round
		}
		if guard > limit {
			s.G.Fatalf("simulator: round %d does not quiesce (message storm)", s.Round)
		}
		if len(s.pool) > 2000 {
			// large groups: computing the set of enabled deliveries is quadratic in the pool; draw any pending delivery and, if
			// it is a broadcast, deliver the earliest pending broadcast of that sender to that receiver instead (which is enabled)
			k := s.G.Int("deliverLarge", 0, len(s.pool)-1)
			if k != 0 {
				s.reorder = true
			}
			d := s.pool[k]
			if d.broadcast {
				for j, e := range s.pool {
					if e.broadcast && e.from == d.from && e.to == d.to && e.bseq < s.pool[k].bseq {
						k = j
					}
				}
			}
			d = s.pool[k]
			s.pool[k] = s.pool[len(s.pool)-1]
			s.pool = s.pool[:len(s.pool)-1]
			s.deliver(d)
			s.firePlanned(false)
			continue
		}
		// enabled deliveries: for broadcasts, every earlier broadcast of the same sender has reached this receiver
		var enabled []int
		for i, d := range s.pool {
			ok := true
			if d.broadcast {
				for _, e := range s.pool {
					if e != d && e.broadcast && e.from == d.from && e.to == d.to && e.bseq < d.bseq {
						ok = false
						break
					}
				}
			}
			if ok {
				enabled = append(enabled, i)
			}
		}
		k := 0
		if len(enabled) > 1 {
			k = s.G.Int("deliver", 0, len(enabled)-1)
			if k != 0 {
				s.reorder = true
			}
		}
		i := enabled[k]
		d := s.pool[i]
		s.pool = append(s.pool[:i], s.pool[i+1:]...)
		s.deliver(d)
		s.firePlanned(false)
	}
}

// plannedInj is an unsolicited Byzantine message that is emitted after a generated number of further deliveries of the
// current round (so it can fall between any two messages of other senders, and after the sender's own reactions).
type plannedInj struct {
	after int
	fire  func()
}

func (s *Sim) plan(after int, fire func()) {
	if after <= 0 {
		fire()
		return
	}
	s.planned = append(s.planned, &plannedInj{after, fire})
}

func (s *Sim) firePlanned(all bool) {
	var keep []*plannedInj
	cur := s.planned
	s.planned = nil
	for _, p := range cur {
		p.after--
		if all || p.after <= 0 {
			p.fire()
		} else {
			keep = append(keep, p)
		}
	}
	s.planned = append(keep, s.planned...)
}

func (s *Sim) deliver(d *delivery) {
	nd := s.Nodes[d.to]
	if nd.Ended {
		return
	}
	var err error
	if d.broadcast {
		s.tracef("[r%d] deliver to %d: broadcast from %d %s", s.Round, d.to, d.from, Describe(d.data))
		err = nd.Inst.HandleBroadcastMsg(d.from, d.data)
	} else {
		s.tracef("[r%d] deliver to %d: private from %d %s", s.Round, d.to, d.from, Describe(d.data))
		err = nd.Inst.HandlePrivateMsg(d.from, d.data)
	}
	if err != nil {
		s.G.Fatalf("node %d: handler returned %v for a message from %d while running", d.to, err, d.from)
	}
}

// Timeout calls NextTimeout on every participant (generated order); what that
// emits belongs to the next round.
func (s *Sim) Timeout() {
	order := s.G.Perm("timeoutOrder", s.N)
	s.Round++
	s.inTimeout = true
	for _, i := range order {
		s.tracef("NextTimeout node %d (round %d begins)", i, s.Round)
		if err := s.Nodes[i].Inst.NextTimeout(); err != nil {
			s.G.Fatalf("node %d: NextTimeout #%d failed: %v", i, s.Round-1, err)
		}
	}
	s.inTimeout = false
	for _, d := range s.later[s.Round] {
		s.enqueue(d, 0)
	}
	delete(s.later, s.Round)
}

// End calls End on every participant.
func (s *Sim) End() {
	for _, i := range s.G.Perm("endOrder", s.N) {
		nd := s.Nodes[i]
		s.tracef("End node %d", i)
		nd.SK, nd.GPK, nd.PKs, nd.Err = nd.Inst.End()
		nd.Ended = true
		if nd.Err != nil {
			s.tracef("  node %d: End error: %s", i, short(nd.Err.Error()))
		}
	}
}

// Run executes a whole scenario.
func (s *Sim) Run() {
	s.Start()
	s.inject()
	for _, d := range s.heldVectors { // vectors their dealers broadcast after their other first-round messages
		s.enqueue(d, 0)
	}
	s.heldVectors = nil
	s.DeliverAll()
	if s.Proto != FeldmanVSS {
		s.Timeout()
		s.inject()
		s.DeliverAll()
		s.Timeout()
		s.inject()
		s.DeliverAll()
	}
	s.End()
	if s.reorder {
		s.class("nonFIFODelivery")
	}
}

func (s *Sim) Reordered() bool { return s.reorder }

// ---------------------------------------------------------------------------
// fault grammar

var scalarR = bls381.R

func scalar32(x *big.Int) []byte {
	b := make([]byte, 32)
	x.FillBytes(b)
	return b
}

// overIndex draws a participant index that is out of range for this network, biased to the boundary: n itself half of
// the time, otherwise n+1, 254, 255 or any value in [n, 255].
func (s *Sim) overIndex(label string) byte {
	switch s.G.Int(label+"Kind", 0, 5) {
	case 0, 1, 2:
		return byte(s.N)
	case 3:
		return byte(s.N + 1)
	case 4:
		return []byte{254, 255}[s.G.Pick(label+"Top", 2)]
	default:
		return byte(s.N + s.G.Int(label, 0, 255-s.N))
	}
}

// faultDraw draws a fault kind in [0, max] at a fault point.  In template mode every fault point is honest (0) except the wildcard.
func (s *Sim) faultDraw(label string, max int) int {
	if !s.Template {
		return s.G.Int(label, 0, max)
	}
	s.faultPoint++
	if s.faultPoint-1 == s.Wildcard {
		return s.G.Int(label+"Wild", 0, max)
	}
	return 0
}

func (s *Sim) faultChance(label string, num, den int) bool {
	if !s.Template {
		return s.G.Chance(label, num, den)
	}
	s.faultPoint++
	if s.faultPoint-1 == s.Wildcard {
		return true
	}
	return false
}

// byzantine decides what happens to a message emitted by a Byzantine participant's instance.
func (s *Sim) byzantine(d *delivery) {
	g := s.G
	if len(d.data) == 0 {
		s.enqueue(d, 0)
		return
	}
	di := s.Dealers[d.from]
	switch {
	case !d.broadcast && d.data[0] == TagShare && di != nil:
		di.Honest[d.to] = append([]byte{}, d.data[1:]...)
		var kind int
		if s.Template && d.to == s.Victim {
			kind = []int{3, 3, 5, 6, 7, 8, 9, 10, 11}[g.Pick("victimShareFault", 9)] // withheld (twice as likely), malformed or inconsistent
		} else {
			kind = s.faultDraw("shareFault", 11)
		}
		name := ""
		out := d.data
		delay := 0
		switch kind {
		case 0, 1, 2:
		case 3:
			name = "omitted"
			di.ShareFault[d.to] = name
			s.class("share:" + name)
			s.tracef("  (Byzantine %d withholds the share of %d)", d.from, d.to)
			return
		case 4:
			name, delay = "late", 1
		case 5:
			name, out = "empty", []byte{}
		case 6:
			name, out = "badTag", append([]byte{byte(g.Int("badTag", 1, 255))}, d.data[1:]...)
		case 7:
			name = "wrongSize"
			if g.Bool("shareLong") {
				out = append(append([]byte{}, d.data...), 0)
			} else {
				out = d.data[:len(d.data)-1-g.Int("shareCut", 0, 31)]
			}
		case 8:
			name, out = "zero", append([]byte{TagShare}, make([]byte, 32)...)
		case 9:
			name = "geR"
			v := scalar32(scalarR)
			if g.Bool("allOnes") {
				v = bytes.Repeat([]byte{0xff}, 32)
			}
			out = append([]byte{TagShare}, v...)
		case 10:
			name, out = "alt", append([]byte{TagShare}, di.Alt[d.to]...)
		default:
			name = "plusOne"
			x := new(big.Int).SetBytes(d.data[1:])
			x.Add(x, big.NewInt(1)).Mod(x, scalarR)
			if x.Sign() == 0 {
				x.SetInt64(1)
			}
			out = append([]byte{TagShare}, scalar32(x)...)
		}
		if name != "" {
			di.ShareFault[d.to] = name
			s.class("share:" + name)
		}
		s.enqueue(&delivery{from: d.from, to: d.to, data: out}, delay)
		if name != "omitted" && s.faultChance("shareDup", 1, 10) {
			s.enqueue(&delivery{from: d.from, to: d.to, data: append([]byte{}, d.data...)}, 0)
			s.class("share:duplicated")
		}
	case d.broadcast && d.data[0] == TagVector && di != nil:
		s.vectorFault(d, di)
	case d.broadcast && d.data[0] == TagComplaint:
		switch s.faultDraw("complaintFault", 5) {
		case 0, 1, 2:
			s.enqueue(d, 0)
		case 3:
			s.class("complaint:omitted")
		case 4:
			s.class("complaint:late")
			s.enqueue(d, 1)
		default:
			s.class("complaint:duplicated")
			s.enqueue(d, 0)
			s.enqueue(&delivery{from: d.from, to: -1, broadcast: true, data: append([]byte{}, d.data...)}, 0)
		}
	case d.broadcast && d.data[0] == TagAnswer:
		// a dealer may answer correctly in public and then privately send the complainer a different, well-formed share
		if di != nil && len(d.data) == 34 && int(d.data[1]) < s.N && s.faultChance("shareAfterAnswer", 2, 5) {
			c := int(d.data[1])
			x := new(big.Int).SetBytes(d.data[2:])
			x.Add(x, big.NewInt(1)).Mod(x, scalarR)
			if x.Sign() == 0 {
				x.SetInt64(1)
			}
			late := scalar32(x)
			if di.Alt[c] != nil && g.Bool("shareAfterAnswerAlt") {
				late = di.Alt[c]
			}
			s.class("answer:followedByPrivateInconsistentShare")
			defer s.enqueue(&delivery{from: d.from, to: c, data: append([]byte{TagShare}, late...)}, 0)
		}
		answerKind := -1
		if s.Template && len(d.data) >= 2 && int(d.data[1]) == s.Victim {
			// template mode: how the dealer treats the victim's complaint is an explicit dimension of the scenario
			answerKind = []int{0, 0, 3, 3, 4, 5, 6, 7, 8}[g.Pick("victimAnswerFault", 9)]
			if s.Accuse && s.Round <= 2 {
				// ... and, in the accuse template, the same Byzantine dealer accuses an honest dealer shortly after its own answer
				// (honest receivers may by then have disqualified the accuser, or not yet, depending on the delivery order)
				b := d.from
				var honestDealers []int
				for _, o := range s.Nodes {
					if !o.Byz && s.isDealer(o.Idx) {
						honestDealers = append(honestDealers, o.Idx)
					}
				}
				if len(honestDealers) > 0 {
					acc := honestDealers[g.Pick("accusedAfterAnswer", len(honestDealers))]
					s.class("accuse:afterOwnAnswer")
					s.plan(g.Int("accuseAfterAnswer", 1, 8), func() {
						s.enqueue(&delivery{from: b, to: -1, broadcast: true, data: []byte{TagComplaint, byte(acc)}}, 0)
					})
				}
			}
		} else {
			answerKind = s.faultDraw("answerFault", 8)
		}
		switch answerKind {
		case 0, 1, 2:
			s.enqueue(d, 0)
		case 3:
			s.class("answer:omitted")
			s.tracef("  (Byzantine %d does not answer %d)", d.from, d.data[1])
		case 4:
			s.class("answer:late")
			s.enqueue(d, 1)
		case 5:
			s.class("answer:wrongValue")
			x := new(big.Int).SetBytes(d.data[2:])
			x.Add(x, big.NewInt(1)).Mod(x, scalarR)
			if x.Sign() == 0 {
				x.SetInt64(1)
			}
			s.enqueue(&delivery{from: d.from, to: -1, broadcast: true, data: append([]byte{TagAnswer, d.data[1]}, scalar32(x)...)}, 0)
		case 6:
			s.class("answer:wrongSize")
			s.enqueue(&delivery{from: d.from, to: -1, broadcast: true, data: d.data[:len(d.data)-1-g.Int("answerCut", 0, 31)]}, 0)
		case 7:
			s.class("answer:outOfRangeScalarOrIndex")
			out := append([]byte{}, d.data...)
			if g.Bool("answerBadIndex") {
				out[1] = s.overIndex("idxOver")
			} else {
				copy(out[2:], scalar32(scalarR))
			}
			s.enqueue(&delivery{from: d.from, to: -1, broadcast: true, data: out}, 0)
		default:
			s.class("answer:duplicated")
			s.enqueue(d, 0)
			s.enqueue(&delivery{from: d.from, to: -1, broadcast: true, data: append([]byte{}, d.data...)}, 0)
		}
	default:
		s.enqueue(d, 0)
	}
}

func (s *Sim) vectorFault(d *delivery, di *DealerInfo) {
	g := s.G
	kind := s.faultDraw("vectorFault", 15)
	if s.Template && s.VectorLast && kind <= 3 {
		kind = 14
	}
	out := append([]byte{}, d.data...)
	name := ""
	delay := 0
	elem := func() int { return 1 + 96*g.Int("vectorElem", 0, s.T) }
	switch kind {
	case 0, 1, 2, 3:
	case 4:
		di.VectorFault = "omitted"
		s.class("vector:omitted")
		s.tracef("  (Byzantine %d withholds the vector)", d.from)
		return
	case 5:
		name, delay = "late", 1
	case 6:
		name = "wrongSize"
		switch g.Int("vectorSize", 0, 3) {
		case 0:
			out = out[:len(out)-1]
		case 1:
			out = append(out, 0)
		case 2:
			out = out[:len(out)-96]
		default:
			out = append(out, out[1:97]...)
		}
	case 7:
		name = "badEncoding"
		out[elem()] &= 0x7F // compression flag cleared
	case 8:
		name = "offCurve"
		// search an x that is not on the curve (deterministic walk from the element's bytes)
		o := elem()
		for k := 0; k < 64; k++ {
			out[o+95] = byte(int(out[o+95]) + 1)
			if _, err := bls381.G2Decompress(out[o:o+96], s.Swapped); err != nil {
				break
			}
		}
	case 9:
		name = "notInG2"
		o := elem()
		copy(out[o:o+96], bls381.G2Compress(bls381.G2CurvePoint([]byte{byte(g.Int("ptSeed", 0, 255))}), s.Swapped))
	case 10:
		name = "smallOrder"
		o := elem()
		pt, err := bls381.G2Decompress(out[o:o+96], s.Swapped)
		if err == nil {
			t13, _ := bls381.G2SmallOrderPoint([]int64{13, 23}[g.Pick("ord", 2)], []byte{byte(g.Int("ptSeed", 0, 255))})
			copy(out[o:o+96], bls381.G2Compress(pt.Add(t13), s.Swapped))
		}
	case 15:
		// two entries moved outside G2 by opposite amounts: every entry is a canonical point of E2, the sum of the
		// entries is unchanged, and (T being added to entry i and subtracted from entry j) so is the value the vector
		// takes at abscissa 1; neither entry is in G2, so the vector is invalid
		name = "notInG2"
		if s.T >= 1 {
			i := g.Int("cancelElemA", 0, s.T)
			j := g.Int("cancelElemB", 0, s.T-1)
			if j >= i {
				j++
			}
			var tp bls381.G2
			if g.Bool("cancelSmallOrder") {
				tp, _ = bls381.G2SmallOrderPoint([]int64{13, 23}[g.Pick("ord", 2)], []byte{byte(g.Int("ptSeed", 0, 255))})
			} else {
				tp = bls381.G2TorsionPoint([]byte{byte(g.Int("ptSeed", 0, 255))})
			}
			pi, e1 := bls381.G2Decompress(out[1+96*i:1+96*i+96], s.Swapped)
			pj, e2 := bls381.G2Decompress(out[1+96*j:1+96*j+96], s.Swapped)
			if e1 == nil && e2 == nil && !tp.Inf {
				copy(out[1+96*i:], bls381.G2Compress(pi.Add(tp), s.Swapped))
				copy(out[1+96*j:], bls381.G2Compress(pj.Add(tp.Neg()), s.Swapped))
				s.class("vector:twoEntriesOutsideG2Cancelling")
			}
		}
	case 11:
		name = "alt"
		out = append([]byte{TagVector}, di.AltVector...)
	case 14:
		// the dealer broadcasts other messages first (its unsolicited answers, complaints) and the vector last in the round
		di.VectorFault = ""
		s.class("vector:afterOtherBroadcasts")
		s.heldVectors = append(s.heldVectors, &delivery{from: d.from, to: -1, broadcast: true, data: out})
		return
	case 12:
		name = "duplicated"
		s.enqueue(&delivery{from: d.from, to: -1, broadcast: true, data: append([]byte{}, d.data...)}, 0)
	default:
		name = "identityA0"
		inf := make([]byte, 96)
		inf[0] = 0xC0
		copy(out[1:97], inf)
	}
	if name != "" && name != "duplicated" {
		di.VectorFault = name
	}
	if name != "" {
		s.class("vector:" + name)
	}
	s.enqueue(&delivery{from: d.from, to: -1, broadcast: true, data: out}, delay)
}

// inject lets Byzantine participants broadcast / send unsolicited messages at the start of a round.
func (s *Sim) inject() {
	g := s.G
	s.injectTemplates()
	for _, nd := range s.Nodes {
		if !nd.Byz || !s.faultsOn {
			continue
		}
		cnt := 0
		if s.Template {
			if s.faultChance("inject", 1, 1) {
				cnt = 1
			}
		} else {
			cnt = g.Int("injectCount", 0, 2)
		}
		for k := 0; k < cnt; k++ {
			b := nd.Idx
			after := 0
			if g.Chance("injectMidRound", 1, 2) {
				after = g.Int("injectAfter", 1, 12)
				s.class("inject:midRound")
			}
			s.plan(after, func() { s.injectOne(b) })
		}
	}
}

// injectTemplates plans the messages of the accuse / accomplice templates for the round that begins.
func (s *Sim) injectTemplates() {
	g := s.G
	if !s.faultsOn {
		return
	}
	if s.Accuse && s.Round <= 2 {
		for _, nd := range s.Nodes {
			if !nd.Byz || !g.Chance("accuseThisRound", 1, 2) {
				continue
			}
			var honestDealers []int
			for _, o := range s.Nodes {
				if !o.Byz && s.isDealer(o.Idx) {
					honestDealers = append(honestDealers, o.Idx)
				}
			}
			if len(honestDealers) == 0 {
				continue
			}
			b, d := nd.Idx, honestDealers[g.Pick("accused", len(honestDealers))]
			s.class("accuse:groundlessComplaintAgainstHonestDealer")
			s.plan(g.Int("accuseAfter", 0, 12), func() {
				s.enqueue(&delivery{from: b, to: -1, broadcast: true, data: []byte{TagComplaint, byte(d)}}, 0)
			})
		}
	}
	if s.Template && s.VictimEarlyAnswer > 0 && s.Round == s.EarlyAnswerRound {
		for _, nd := range s.Nodes {
			di := s.Dealers[nd.Idx]
			if !nd.Byz || di == nil {
				continue
			}
			b, v, wrong := nd.Idx, s.Victim, s.VictimEarlyAnswer == 2
			after := g.Int("earlyAnswerAfter", 0, 10)
			if s.VectorLast && s.Round == 1 {
				after = 0 // the held-back vector is broadcast right after this round's opening injections: the answer precedes it
			}
			s.plan(after, func() {
				if di.Honest[v] == nil {
					return
				}
				val := di.Honest[v]
				if di.VectorFault == "alt" && di.Alt[v] != nil {
					val = di.Alt[v]
				}
				kind := "template:dealerAnswersForVictimUnasked"
				if wrong {
					x := new(big.Int).SetBytes(val)
					x.Add(x, big.NewInt(1)).Mod(x, scalarR)
					if x.Sign() == 0 {
						x.SetInt64(1)
					}
					val = scalar32(x)
					kind += "WrongValue"
				}
				if _, complained := s.HonestComplaints[[2]int{v, b}]; !complained {
					kind += "BeforeComplaint"
				}
				s.class(kind)
				s.enqueue(&delivery{from: b, to: -1, broadcast: true, data: append([]byte{TagAnswer, byte(v)}, val...)}, 0)
			})
		}
	}
	if s.Accomplice >= 0 {
		dl, x := s.AccDealer, s.Accomplice
		if s.accAnswerRound == 0 {
			s.accAnswerRound, s.accComplaintRound = g.Int("accAnswerRound", 1, 3), g.Int("accComplaintRound", 1, 2)
		}
		if s.Round == s.accAnswerRound {
			s.plan(g.Int("accAnswerAfter", 0, 12), func() {
				di := s.Dealers[dl]
				val := scalar32(big.NewInt(int64(1 + g.Int("accAnswerVal", 0, 1000))))
				kind := "accomplice:dealerAnswersForAccompliceWrongValue"
				if di != nil && di.Honest[x] != nil && g.Chance("accAnswerCorrect", 2, 3) {
					val, kind = di.Honest[x], "accomplice:dealerAnswersForAccompliceCorrectValue"
					if di.VectorFault == "alt" && di.Alt[x] != nil {
						val = di.Alt[x]
					}
				}
				s.class(kind)
				s.enqueue(&delivery{from: dl, to: -1, broadcast: true, data: append([]byte{TagAnswer, byte(x)}, val...)}, 0)
			})
		}
		if s.Round == s.accComplaintRound {
			s.plan(g.Int("accComplaintAfter", 0, 12), func() {
				s.class("accomplice:accompliceComplains")
				s.enqueue(&delivery{from: x, to: -1, broadcast: true, data: []byte{TagComplaint, byte(dl)}}, 0)
			})
		}
	}
}

// injectOne lets Byzantine participant b emit one unsolicited message of a generated kind.
func (s *Sim) injectOne(b int) {
	g := s.G
	{
		{
			switch g.Int("injectKind", 0, 9) {
			case 0: // complaint against any dealer
				d := s.Dealer
				if s.Proto == JointFeldman {
					d = g.Pick("complainee", s.N)
				}
				s.class("inject:complaint")
				s.enqueue(&delivery{from: b, to: -1, broadcast: true, data: []byte{TagComplaint, byte(d)}}, 0)
			case 1: // malformed complaint
				s.class("inject:malformedComplaint")
				if g.Bool("complaintBadIndex") {
					s.enqueue(&delivery{from: b, to: -1, broadcast: true, data: []byte{TagComplaint, s.overIndex("idxOver")}}, 0)
				} else {
					s.enqueue(&delivery{from: b, to: -1, broadcast: true, data: append([]byte{TagComplaint}, make([]byte, g.Int("complaintLen", 2, 4))...)}, 0)
				}
			case 2, 3: // unsolicited answer (as dealer: with the right or a wrong value)
				c := g.Pick("answerFor", s.N)
				if c == b {
					c = (c + 1) % s.N
				}
				if s.KnownF5 && !s.Nodes[c].Byz {
					if _, complained := s.HonestComplaints[[2]int{c, b}]; !complained {
						// known finding F5: an answer that reaches an honest complainer before it has
						// built its own complaint is overwritten by that complaint.  Excluded by construction.
						s.Excluded["F5:answerBeforeOwnComplaint"]++
						return
					}
				}
				val := scalar32(big.NewInt(int64(1 + g.Int("answerVal", 0, 1000))))
				kind := "inject:answerWrongValue"
				if di := s.Dealers[b]; di != nil && di.Honest[c] != nil && g.Bool("answerCorrect") {
					val, kind = di.Honest[c], "inject:answerCorrectValue"
					if di.VectorFault == "alt" && di.Alt[c] != nil {
						val = di.Alt[c]
					}
				} else if g.Chance("answerMalformed", 1, 4) {
					// an unsolicited answer that is malformed: scalar 0 / r / 2^256-1, or one byte short / long
					kind = "inject:answerMalformed"
					switch g.Int("answerMalformedKind", 0, 5) {
					case 5:
						c = int(s.overIndex("answerForOver")) // names a complainer that does not exist (value stays well-formed)
					case 0:
						val = make([]byte, 32)
					case 1:
						val = scalar32(scalarR)
					case 2:
						val = bytes.Repeat([]byte{0xff}, 32)
					case 3:
						val = val[:31]
					default:
						val = append(val, 0)
					}
				}
				if _, complained := s.HonestComplaints[[2]int{c, b}]; !complained && c < s.N && !s.Nodes[c].Byz {
					kind += "BeforeComplaint"
				}
				s.class(kind)
				s.enqueue(&delivery{from: b, to: -1, broadcast: true, data: append([]byte{TagAnswer, byte(c)}, val...)}, 0)
			case 4:
				s.class("inject:emptyBroadcast")
				s.enqueue(&delivery{from: b, to: -1, broadcast: true, data: []byte{}}, 0)
			case 5:
				s.class("inject:unknownTag")
				s.enqueue(&delivery{from: b, to: -1, broadcast: true, data: append([]byte{byte(g.Int("tag", 4, 255))}, g.Bytes("junk", 0, 40)...)}, 0)
			case 6: // vector again (another round)
				if di := s.Dealers[b]; di != nil && di.VectorSent != nil {
					s.class("inject:vectorAgain")
					s.enqueue(&delivery{from: b, to: -1, broadcast: true, data: append([]byte{TagVector}, di.VectorSent...)}, 0)
				}
			case 7: // share again / junk private message
				to := g.Pick("privTo", s.N)
				if to != b {
					s.class("inject:privateJunk")
					var data []byte
					di := s.Dealers[b]
					switch kind := g.Int("privKind", 0, 3); {
					case di != nil && di.Honest[to] != nil && kind == 0: // the honest share again (late or duplicated)
						data = append([]byte{TagShare}, di.Honest[to]...)
					case di != nil && di.Alt[to] != nil && kind == 1: // a well-formed share of another polynomial, possibly after the shares timeout
						data = append([]byte{TagShare}, di.Alt[to]...)
						s.class("inject:lateInconsistentShare")
					case di != nil && di.Honest[to] != nil && kind == 2: // the honest share plus one
						x := new(big.Int).SetBytes(di.Honest[to])
						x.Add(x, big.NewInt(1)).Mod(x, scalarR)
						if x.Sign() == 0 {
							x.SetInt64(1)
						}
						data = append([]byte{TagShare}, scalar32(x)...)
						s.class("inject:lateInconsistentShare")
					default:
						data = g.Bytes("privJunk", 0, 40)
					}
					s.enqueue(&delivery{from: b, to: to, data: data}, 0)
				}
			case 8: // a broadcast-type payload on the private channel and vice versa
				to := g.Pick("privTo", s.N)
				if to != b {
					s.class("inject:wrongChannel")
					s.enqueue(&delivery{from: b, to: to, data: []byte{TagComplaint, byte(s.Dealer)}}, 0)
					s.enqueue(&delivery{from: b, to: -1, broadcast: true, data: append([]byte{TagShare}, make([]byte, 32)...)}, 0)
				}
			default: // complaint against itself / from the dealer
				s.class("inject:selfComplaint")
				s.enqueue(&delivery{from: b, to: -1, broadcast: true, data: []byte{TagComplaint, byte(b)}}, 0)
			}
		}
	}
}
