// Package proto is the line protocol between the C20 test and the
// per-configuration workers (cfgworker).  Requests are encoded from struct
// types (fixed field order), so the request line is a deterministic function of
// the generated inputs.
package proto

// PRGCall is one call on a PRG.
type PRGCall struct {
	Kind string `json:"kind"` // read | uintn | perm | subperm | samples | shuffle
	N    uint64 `json:"n"`
	M    int    `json:"m"`
}

// Corrupt flips one bit of the k-th emitted DKG message before delivery.
type Corrupt struct {
	Msg int `json:"msg"`
	Bit int `json:"bit"`
}

// Req is the request line.  All byte strings are hex.
type Req struct {
	Op         string    `json:"op"`
	Algo       string    `json:"algo,omitempty"`
	Hasher     string    `json:"hasher,omitempty"`
	Msg        string    `json:"msg,omitempty"`
	Msg2       string    `json:"msg2,omitempty"`
	Key        string    `json:"key,omitempty"`
	Cust       string    `json:"cust,omitempty"`
	Seed       string    `json:"seed,omitempty"`
	Data       string    `json:"data,omitempty"`
	Pk         string    `json:"pk,omitempty"`
	Sig        string    `json:"sig,omitempty"`
	Sk         string    `json:"sk,omitempty"`
	Sk2        string    `json:"sk2,omitempty"`
	Tag        string    `json:"tag,omitempty"` // hex of the tag bytes
	Split      int       `json:"split,omitempty"`
	Size       int       `json:"size,omitempty"`
	N          int       `json:"n,omitempty"`
	T          int       `json:"t,omitempty"`
	Dealer     int       `json:"dealer,omitempty"`
	SeedLen    int       `json:"seedlen,omitempty"`
	Compressed bool      `json:"compressed,omitempty"`
	Calls      []PRGCall `json:"calls,omitempty"`
	Sks        []string  `json:"sks,omitempty"`
	Pks        []string  `json:"pks,omitempty"`
	Sigs       []string  `json:"sigs,omitempty"`
	Msgs       []string  `json:"msgs,omitempty"`
	Tags       []string  `json:"tags,omitempty"`
	Signers    []int     `json:"signers,omitempty"`
	FlipShare  int       `json:"flipshare,omitempty"` // 1-based position in Signers, 0 = none
	FlipBit    int       `json:"flipbit,omitempty"`
	Corrupt    []Corrupt `json:"corrupt,omitempty"`
}

// Resp is the answer line.  Out is a map (encoding/json sorts the keys).
type Resp struct {
	Out map[string]any `json:"out"`
	Err string         `json:"err"`
}
