//go:build !cgo

package main

// Without cgo the BLS12-381 layer of the library is not available (its
// functions panic, see no_cgo.go): every BLS operation answers "unsupported".

const haveBLS = false

func blsErrClass(err error) string { return "" }

func blsDispatch(r *Req) (map[string]any, error) {
	switch r.Op {
	case "bls_sign", "bls_verify", "bls_pop", "aggregate_sigs", "aggregate_sks", "aggregate_pks", "remove_pks",
		"verify_one_message", "verify_many_messages", "batch_verify", "spock", "threshold", "dkg":
		return nil, errUnsupported
	}
	return nil, opError("bad_request_op")
}
