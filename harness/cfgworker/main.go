// Command cfgworker is the per-build-configuration worker of property C20.
//
// It reads one JSON request per line from stdin and answers one JSON line on
// stdout.  Every operation is a deterministic function of the request, so the
// answers of workers built in different configurations (ADX / portable BLST,
// assembly / pure-Go Keccak, cgo / no cgo) must be byte-identical.
//
// The program builds in four configurations:
//
//	go build                                              (default)
//	CGO_CFLAGS="-O2 -D__BLST_PORTABLE__" go build         (portable BLST)
//	go build -tags purego                                 (pure-Go Keccak, xor, std-lib fallbacks)
//	CGO_ENABLED=0 go build -tags no_cgo                   (no BLS12-381)
//
// BLS-dependent operations live in bls_cgo.go; bls_nocgo.go answers
// "unsupported" for them.
package main

import (
	"bufio"
	"crypto/sha256"
	"encoding/hex"
	"encoding/json"
	"fmt"
	"io"
	"os"

	"github.com/onflow/crypto"
	"github.com/onflow/crypto/hash"
	"github.com/onflow/crypto/random"

	"verifharness/cfgworker/proto"
)

type (
	Req     = proto.Req
	Resp    = proto.Resp
	PRGCall = proto.PRGCall
	Corrupt = proto.Corrupt
)

type opError string

func (e opError) Error() string { return string(e) }

const errUnsupported = opError("unsupported")

func unhex(s string) []byte {
	b, err := hex.DecodeString(s)
	if err != nil {
		panic(opError("bad_request_hex"))
	}
	return b
}

func hx(b []byte) string { return hex.EncodeToString(b) }

// errClass maps an error of the library to a configuration-independent class.
func errClass(err error) string {
	if err == nil {
		return ""
	}
	if oe, ok := err.(opError); ok {
		return string(oe)
	}
	switch {
	case crypto.IsInvalidInputsError(err):
		return "invalid_inputs"
	case crypto.IsNilHasherError(err):
		return "nil_hasher"
	case crypto.IsInvalidHasherSizeError(err):
		return "invalid_hasher_size"
	case crypto.IsDuplicatedSignerError(err):
		return "duplicated_signer"
	case crypto.IsNotEnoughSharesError(err):
		return "not_enough_shares"
	case crypto.IsDKGFailureError(err):
		return "dkg_failure"
	case crypto.IsDKGInvalidStateTransitionError(err):
		return "dkg_invalid_transition"
	}
	if c := blsErrClass(err); c != "" {
		return c
	}
	return "error"
}

func newHasher(name string) hash.Hasher {
	switch name {
	case "sha2_256":
		return hash.NewSHA2_256()
	case "sha2_384":
		return hash.NewSHA2_384()
	case "sha3_256":
		return hash.NewSHA3_256()
	case "sha3_384":
		return hash.NewSHA3_384()
	case "keccak_256":
		return hash.NewKeccak_256()
	case "nil":
		return nil
	}
	panic(opError("bad_request_hasher"))
}

func sigAlgo(name string) crypto.SigningAlgorithm {
	switch name {
	case "bls":
		if !haveBLS {
			panic(errUnsupported)
		}
		return crypto.BLSBLS12381
	case "p256":
		return crypto.ECDSAP256
	case "secp256k1":
		return crypto.ECDSASecp256k1
	case "unknown":
		return crypto.UnknownSigningAlgorithm
	}
	panic(opError("bad_request_algo"))
}

func opHash(r *Req) (map[string]any, error) {
	m := unhex(r.Msg)
	s := r.Split
	if s < 0 || s > len(m) {
		return nil, opError("bad_request_split")
	}
	h := newHasher(r.Algo)
	_, _ = h.Write(m[:s])
	_, _ = h.Write(m[s:])
	sum := h.SumHash()
	// The object stays in use and everything it returned is held, uncopied, until the end of the operation (a build in
	// which a digest shares memory with the hasher differs from one in which it is a copy): ComputeHash of the message and
	// of a longer one on the used object, a streamed digest of the suffix after a Reset, ComputeHash on a fresh object.
	c1 := h.ComputeHash(m)
	c3 := h.ComputeHash(append(append([]byte{}, m...), 0x01))
	h.Reset()
	_, _ = h.Write(m[s:])
	sumSuffix := h.SumHash()
	_, _ = h.Write(m[:s])
	sumMore := h.SumHash()
	c2 := newHasher(r.Algo).ComputeHash(m)
	out := map[string]any{"sum": hx(sum), "compute_dirty": hx(c1), "compute_longer": hx(c3), "sum_suffix": hx(sumSuffix), "sum_continued": hx(sumMore), "compute": hx(c2), "size": h.Size()}
	switch r.Algo {
	case "sha3_256":
		var d [hash.HashLenSHA3_256]byte
		hash.ComputeSHA3_256(&d, m)
		out["oneshot"] = hx(d[:])
	case "sha2_256":
		var d [hash.HashLenSHA2_256]byte
		hash.ComputeSHA2_256(&d, m)
		out["oneshot"] = hx(d[:])
	}
	return out, nil
}

func opKMAC(r *Req) (map[string]any, error) {
	m := unhex(r.Msg)
	s := r.Split
	if s < 0 || s > len(m) {
		return nil, opError("bad_request_split")
	}
	k, err := hash.NewKMAC_128(unhex(r.Key), unhex(r.Cust), r.Size)
	if err != nil {
		return nil, err
	}
	c := k.ComputeHash(m)
	k.Reset()
	_, _ = k.Write(m[:s])
	_, _ = k.Write(m[s:])
	sum := k.SumHash()
	return map[string]any{"compute": hx(c), "sum": hx(sum), "size": k.Size()}, nil
}

func opPRG(r *Req) (map[string]any, error) {
	p, err := random.NewChacha20PRG(unhex(r.Seed), unhex(r.Cust))
	if err != nil {
		return nil, err
	}
	outs := make([]string, 0, len(r.Calls))
	for _, c := range r.Calls {
		switch c.Kind {
		case "read":
			if c.N > 1<<20 {
				return nil, opError("bad_request_size")
			}
			b := make([]byte, c.N)
			p.Read(b)
			outs = append(outs, hx(b))
		case "uintn":
			outs = append(outs, fmt.Sprint(p.UintN(c.N)))
		case "perm":
			v, err := p.Permutation(int(int64(c.N)))
			outs = append(outs, fmt.Sprint(v, errClass(err)))
		case "subperm":
			v, err := p.SubPermutation(int(int64(c.N)), c.M)
			outs = append(outs, fmt.Sprint(v, errClass(err)))
		case "samples", "shuffle":
			n := int(int64(c.N))
			var a []int
			if n >= 0 && n <= 1<<16 {
				a = make([]int, n)
				for i := range a {
					a[i] = i
				}
			}
			swap := func(i, j int) { a[i], a[j] = a[j], a[i] }
			if c.Kind == "samples" {
				err = p.Samples(n, c.M, swap)
			} else {
				err = p.Shuffle(n, swap)
			}
			outs = append(outs, fmt.Sprint(a, errClass(err)))
		default:
			return nil, opError("bad_request_call")
		}
	}
	st := p.Store()
	out := map[string]any{"outs": outs, "store": hx(st)}
	// a restored copy continues identically
	if q, err := random.RestoreChacha20PRG(st); err == nil {
		b := make([]byte, 70)
		q.Read(b)
		out["after_restore"] = hx(b)
	} else {
		out["after_restore"] = "err:" + errClass(err)
	}
	return out, nil
}

func keyOut(sk crypto.PrivateKey) map[string]any {
	pk := sk.PublicKey()
	return map[string]any{
		"sk":            hx(sk.Encode()),
		"pk":            hx(pk.Encode()),
		"pk_compressed": hx(pk.EncodeCompressed()),
		"sk_size":       sk.Size(),
		"pk_size":       pk.Size(),
	}
}

func opKeygen(r *Req) (map[string]any, error) {
	sk, err := crypto.GeneratePrivateKey(sigAlgo(r.Algo), unhex(r.Seed))
	if err != nil {
		return nil, err
	}
	return keyOut(sk), nil
}

func opDecodePrivate(r *Req) (map[string]any, error) {
	sk, err := crypto.DecodePrivateKey(sigAlgo(r.Algo), unhex(r.Data))
	if err != nil {
		return nil, err
	}
	return keyOut(sk), nil
}

func opDecodePublic(r *Req) (map[string]any, error) {
	var pk crypto.PublicKey
	var err error
	if r.Compressed {
		pk, err = crypto.DecodePublicKeyCompressed(sigAlgo(r.Algo), unhex(r.Data))
	} else {
		pk, err = crypto.DecodePublicKey(sigAlgo(r.Algo), unhex(r.Data))
	}
	if err != nil {
		return nil, err
	}
	return map[string]any{"pk": hx(pk.Encode()), "pk_compressed": hx(pk.EncodeCompressed()), "pk_size": pk.Size()}, nil
}

func opECDSAVerify(r *Req) (map[string]any, error) {
	algo := sigAlgo(r.Algo)
	if algo == crypto.BLSBLS12381 {
		return nil, opError("bad_request_algo")
	}
	pk, err := crypto.DecodePublicKey(algo, unhex(r.Pk))
	if err != nil {
		return nil, opError("decode_pk:" + errClass(err))
	}
	sig := unhex(r.Sig)
	ok, err := pk.Verify(sig, unhex(r.Msg), newHasher(r.Hasher))
	fmtOK, ferr := crypto.SignatureFormatCheck(algo, sig)
	return map[string]any{"valid": ok, "verify_err": errClass(err), "format_ok": fmtOK, "format_err": errClass(ferr)}, nil
}

// seedFor derives the seed of DKG participant i from the request seed: SHA-256
// of seed‖i‖counter from the standard library (identical in every configuration).
func seedFor(seed []byte, i int, n int) []byte {
	out := make([]byte, 0, n+32)
	for ctr := 0; len(out) < n; ctr++ {
		h := sha256.New()
		h.Write(seed)
		h.Write([]byte{byte(i), byte(ctr)})
		out = h.Sum(out)
	}
	return out[:n]
}

func dispatch(r *Req) (out map[string]any, err error) {
	switch r.Op {
	case "ping":
		return map[string]any{"bls": haveBLS}, nil
	case "hash":
		return opHash(r)
	case "kmac":
		return opKMAC(r)
	case "prg":
		return opPRG(r)
	case "keygen":
		return opKeygen(r)
	case "decode_private":
		return opDecodePrivate(r)
	case "decode_public":
		return opDecodePublic(r)
	case "ecdsa_verify":
		return opECDSAVerify(r)
	}
	return blsDispatch(r)
}

func handle(line []byte) (resp Resp) {
	defer func() {
		if p := recover(); p != nil {
			if oe, ok := p.(opError); ok {
				resp = Resp{Err: string(oe)}
				return
			}
			// a Go panic inside the library: its text is a deterministic function of
			// the Go code path, keep a short class only
			resp = Resp{Err: "panic"}
			if os.Getenv("CFGWORKER_DEBUG") != "" {
				fmt.Fprintf(os.Stderr, "panic: %v\n", p)
			}
		}
	}()
	var r Req
	if err := json.Unmarshal(line, &r); err != nil {
		return Resp{Err: "bad_request_json"}
	}
	out, err := dispatch(&r)
	if err != nil {
		return Resp{Err: errClass(err)}
	}
	return Resp{Out: out}
}

func main() {
	in := bufio.NewReaderSize(os.Stdin, 1<<16)
	w := bufio.NewWriter(os.Stdout)
	for {
		line, err := in.ReadBytes('\n')
		if len(line) > 1 {
			resp := handle(line)
			b, merr := json.Marshal(resp)
			if merr != nil {
				b = []byte(`{"out":null,"err":"marshal"}`)
			}
			w.Write(b)
			w.WriteByte('\n')
			w.Flush()
		}
		if err != nil {
			if err != io.EOF {
				os.Exit(1)
			}
			return
		}
	}
}
