//go:build cgo

package main

import (
	"fmt"

	"github.com/onflow/crypto"
	"github.com/onflow/crypto/hash"
)

const haveBLS = true

func blsErrClass(err error) string {
	switch {
	case crypto.IsBLSAggregateEmptyListError(err):
		return "empty_list"
	case crypto.IsNotBLSKeyError(err):
		return "not_bls_key"
	case crypto.IsInvalidSignatureError(err):
		return "invalid_signature"
	}
	return ""
}

// blsHasher: "" = the expand-message KMAC128 instance for the tag; otherwise a named hasher (wrong size / nil).
func blsHasher(name, tagHex string) hash.Hasher {
	if name == "" {
		return crypto.NewExpandMsgXOFKMAC128(string(unhex(tagHex)))
	}
	return newHasher(name)
}

func decSK(s string) crypto.PrivateKey {
	sk, err := crypto.DecodePrivateKey(crypto.BLSBLS12381, unhex(s))
	if err != nil {
		panic(opError("decode_sk:" + errClass(err)))
	}
	return sk
}

func decPK(s string) crypto.PublicKey {
	pk, err := crypto.DecodePublicKey(crypto.BLSBLS12381, unhex(s))
	if err != nil {
		panic(opError("decode_pk:" + errClass(err)))
	}
	return pk
}

func decSKs(l []string) []crypto.PrivateKey {
	out := make([]crypto.PrivateKey, len(l))
	for i, s := range l {
		out[i] = decSK(s)
	}
	return out
}

func decPKs(l []string) []crypto.PublicKey {
	out := make([]crypto.PublicKey, len(l))
	for i, s := range l {
		out[i] = decPK(s)
	}
	return out
}

func decSigs(l []string) []crypto.Signature {
	out := make([]crypto.Signature, len(l))
	for i, s := range l {
		out[i] = unhex(s)
	}
	return out
}

func hexList[T interface{ Encode() []byte }](l []T) []string {
	out := make([]string, len(l))
	for i, k := range l {
		out[i] = hx(k.Encode())
	}
	return out
}

func blsDispatch(r *Req) (map[string]any, error) {
	switch r.Op {
	case "bls_sign":
		sk := decSK(r.Sk)
		s, err := sk.Sign(unhex(r.Msg), blsHasher(r.Hasher, r.Tag))
		if err != nil {
			return nil, err
		}
		return map[string]any{"sig": hx(s), "identity": crypto.IsBLSSignatureIdentity(s)}, nil

	case "bls_verify":
		pk := decPK(r.Pk)
		sig := unhex(r.Sig)
		ok, err := pk.Verify(sig, unhex(r.Msg), blsHasher(r.Hasher, r.Tag))
		return map[string]any{"valid": ok, "verify_err": errClass(err), "identity": crypto.IsBLSSignatureIdentity(sig)}, nil

	case "bls_pop":
		sk := decSK(r.Sk)
		pop, err := crypto.BLSGeneratePOP(sk)
		if err != nil {
			return nil, err
		}
		pk := sk.PublicKey()
		if r.Pk != "" {
			pk = decPK(r.Pk)
		}
		check := []byte(pop)
		if r.Sig != "" {
			check = unhex(r.Sig)
		}
		ok, err := crypto.BLSVerifyPOP(pk, check)
		return map[string]any{"pop": hx(pop), "valid": ok, "verify_err": errClass(err)}, nil

	case "aggregate_sigs":
		s, err := crypto.AggregateBLSSignatures(decSigs(r.Sigs))
		if err != nil {
			return nil, err
		}
		return map[string]any{"sig": hx(s)}, nil

	case "aggregate_sks":
		sk, err := crypto.AggregateBLSPrivateKeys(decSKs(r.Sks))
		if err != nil {
			return nil, err
		}
		return keyOut(sk), nil

	case "aggregate_pks":
		pk, err := crypto.AggregateBLSPublicKeys(decPKs(r.Pks))
		if err != nil {
			return nil, err
		}
		return map[string]any{"pk": hx(pk.Encode())}, nil

	case "remove_pks":
		pk, err := crypto.RemoveBLSPublicKeys(decPK(r.Pk), decPKs(r.Pks))
		if err != nil {
			return nil, err
		}
		return map[string]any{"pk": hx(pk.Encode())}, nil

	case "verify_one_message":
		ok, err := crypto.VerifyBLSSignatureOneMessage(decPKs(r.Pks), unhex(r.Sig), unhex(r.Msg), blsHasher(r.Hasher, r.Tag))
		return map[string]any{"valid": ok, "verify_err": errClass(err)}, nil

	case "verify_many_messages":
		msgs := make([][]byte, len(r.Msgs))
		for i, m := range r.Msgs {
			msgs[i] = unhex(m)
		}
		hs := make([]hash.Hasher, len(r.Tags))
		for i, t := range r.Tags {
			hs[i] = blsHasher(r.Hasher, t)
		}
		ok, err := crypto.VerifyBLSSignatureManyMessages(decPKs(r.Pks), unhex(r.Sig), msgs, hs)
		return map[string]any{"valid": ok, "verify_err": errClass(err)}, nil

	case "batch_verify":
		oks, err := crypto.BatchVerifyBLSSignaturesOneMessage(decPKs(r.Pks), decSigs(r.Sigs), unhex(r.Msg), blsHasher(r.Hasher, r.Tag))
		if oks == nil {
			oks = []bool{}
		}
		return map[string]any{"valid": oks, "verify_err": errClass(err)}, nil

	case "spock":
		sk1, sk2 := decSK(r.Sk), decSK(r.Sk2)
		d1 := unhex(r.Msg)
		d2 := d1
		if r.Msg2 != "" {
			d2 = unhex(r.Msg2)
		}
		p1, err := crypto.SPOCKProve(sk1, d1, blsHasher(r.Hasher, r.Tag))
		if err != nil {
			return nil, err
		}
		p2, err := crypto.SPOCKProve(sk2, d2, blsHasher(r.Hasher, r.Tag))
		if err != nil {
			return nil, err
		}
		ok, err := crypto.SPOCKVerify(sk1.PublicKey(), p1, sk2.PublicKey(), p2)
		ok2, err2 := crypto.SPOCKVerifyAgainstData(sk1.PublicKey(), p1, d2, blsHasher(r.Hasher, r.Tag))
		return map[string]any{"proof1": hx(p1), "proof2": hx(p2), "valid": ok, "verify_err": errClass(err),
			"valid_data": ok2, "verify_data_err": errClass(err2)}, nil

	case "threshold":
		return opThreshold(r)

	case "dkg":
		return opDKG(r)
	}
	return nil, opError("bad_request_op")
}

func opThreshold(r *Req) (map[string]any, error) {
	n, t := r.N, r.T
	msg := unhex(r.Msg)
	tag := string(unhex(r.Tag))
	sks, pks, gpk, err := crypto.BLSThresholdKeyGen(n, t, unhex(r.Seed))
	if err != nil {
		return nil, err
	}
	out := map[string]any{"sk_shares": hexList(sks), "pk_shares": hexList(pks), "group_pk": hx(gpk.Encode())}
	shares := make([]crypto.Signature, len(r.Signers))
	for i, idx := range r.Signers {
		j := ((idx % n) + n) % n
		s, err := sks[j].Sign(msg, crypto.NewExpandMsgXOFKMAC128(tag))
		if err != nil {
			return nil, opError("share_sign:" + errClass(err))
		}
		shares[i] = s
	}
	if r.FlipShare > 0 && r.FlipShare <= len(shares) && len(shares[r.FlipShare-1]) > 0 {
		s := shares[r.FlipShare-1]
		b := ((r.FlipBit % (8 * len(s))) + 8*len(s)) % (8 * len(s))
		s[b/8] ^= 0x80 >> uint(b%8)
	}
	shareHex := make([]string, len(shares))
	for i, s := range shares {
		shareHex[i] = hx(s)
	}
	out["shares"] = shareHex

	// stateless reconstruction
	rec, err := crypto.BLSReconstructThresholdSignature(n, t, shares, r.Signers)
	out["reconstructed"] = hx(rec)
	out["reconstruct_err"] = errClass(err)
	if err == nil {
		ok, verr := gpk.Verify(rec, msg, crypto.NewExpandMsgXOFKMAC128(tag))
		out["reconstructed_valid"] = ok
		out["reconstructed_verify_err"] = errClass(verr)
	}
	en, eerr := crypto.EnoughShares(t, len(shares))
	out["enough"] = fmt.Sprint(en, errClass(eerr))

	// stateful API: the participant of the first signer signs, an inspector collects
	insp, err := crypto.NewBLSThresholdSignatureInspector(gpk, pks, t, msg, tag)
	if err != nil {
		out["inspector_err"] = errClass(err)
		return out, nil
	}
	steps := make([]string, 0, len(shares))
	for i, idx := range r.Signers {
		v, enough, aerr := insp.VerifyAndAdd(idx, shares[i])
		steps = append(steps, fmt.Sprint(v, enough, errClass(aerr)))
	}
	out["verify_and_add"] = steps
	ts, err := insp.ThresholdSignature()
	out["threshold_sig"] = hx(ts)
	out["threshold_sig_err"] = errClass(err)
	if err == nil {
		ok, verr := insp.VerifyThresholdSignature(ts)
		out["threshold_sig_valid"] = fmt.Sprint(ok, errClass(verr))
	}
	if len(r.Signers) > 0 {
		j := ((r.Signers[0] % n) + n) % n
		p, err := crypto.NewBLSThresholdSignatureParticipant(gpk, pks, t, j, sks[j], msg, tag)
		if err != nil {
			out["participant_err"] = errClass(err)
		} else {
			s, serr := p.SignShare()
			out["participant_share"] = hx(s)
			out["participant_share_err"] = errClass(serr)
		}
	}
	return out, nil
}

// ---------------------------------------------------------------------------
// DKG: an honest n-party run in one process on a FIFO schedule.

type dkgMsg struct {
	from, to int // to = -1: broadcast
	data     []byte
}

type dkgRun struct {
	queue []dkgMsg
	log   []string
	sent  int
}

type dkgProc struct {
	id  int
	run *dkgRun
}

func (p *dkgProc) PrivateSend(dest int, data []byte) {
	p.run.queue = append(p.run.queue, dkgMsg{p.id, dest, append([]byte{}, data...)})
}
func (p *dkgProc) Broadcast(data []byte) {
	p.run.queue = append(p.run.queue, dkgMsg{p.id, -1, append([]byte{}, data...)})
}
func (p *dkgProc) Disqualify(index int, _ string) {
	// the log text may name an element picked by map iteration: only the indices are recorded
	p.run.log = append(p.run.log, fmt.Sprintf("disqualify by=%d who=%d", p.id, index))
}
func (p *dkgProc) FlagMisbehavior(index int, _ string) {
	p.run.log = append(p.run.log, fmt.Sprintf("flag by=%d who=%d", p.id, index))
}

func opDKG(r *Req) (map[string]any, error) {
	n, t := r.N, r.T
	if n < 0 || n > 32 {
		return nil, opError("bad_request_size")
	}
	seed := unhex(r.Seed)
	seedLen := r.SeedLen
	if seedLen == 0 {
		seedLen = 32
	}
	run := &dkgRun{}
	nodes := make([]crypto.DKGState, n)
	for i := 0; i < n; i++ {
		proc := &dkgProc{id: i, run: run}
		var st crypto.DKGState
		var err error
		switch r.Algo {
		case "feldman_vss":
			st, err = crypto.NewFeldmanVSS(n, t, i, proc, r.Dealer)
		case "feldman_vss_qual":
			st, err = crypto.NewFeldmanVSSQual(n, t, i, proc, r.Dealer)
		case "joint_feldman":
			st, err = crypto.NewJointFeldman(n, t, i, proc)
		default:
			return nil, opError("bad_request_protocol")
		}
		if err != nil {
			return nil, opError("new:" + errClass(err))
		}
		nodes[i] = st
	}
	corrupt := map[int]int{}
	for _, c := range r.Corrupt {
		corrupt[c.Msg] = c.Bit
	}
	drain := func() {
		for len(run.queue) > 0 {
			m := run.queue[0]
			run.queue = run.queue[1:]
			k := run.sent
			run.sent++
			if k > 4096 {
				panic(opError("dkg_runaway"))
			}
			dest := "bcast"
			if m.to >= 0 {
				dest = fmt.Sprint(m.to)
			}
			run.log = append(run.log, fmt.Sprintf("msg #%d from=%d to=%s %s", k, m.from, dest, hx(m.data)))
			if bit, ok := corrupt[k]; ok && len(m.data) > 0 {
				b := ((bit % (8 * len(m.data))) + 8*len(m.data)) % (8 * len(m.data))
				m.data[b/8] ^= 0x80 >> uint(b%8)
				run.log = append(run.log, fmt.Sprintf("corrupted #%d bit=%d", k, b))
			}
			if m.to >= 0 {
				if m.to < n {
					if err := nodes[m.to].HandlePrivateMsg(m.from, append([]byte{}, m.data...)); err != nil {
						run.log = append(run.log, fmt.Sprintf("handle-private-err at=%d %s", m.to, errClass(err)))
					}
				}
				continue
			}
			for j := 0; j < n; j++ {
				if j == m.from {
					continue
				}
				if err := nodes[j].HandleBroadcastMsg(m.from, append([]byte{}, m.data...)); err != nil {
					run.log = append(run.log, fmt.Sprintf("handle-bcast-err at=%d %s", j, errClass(err)))
				}
			}
		}
	}
	for i := 0; i < n; i++ {
		if err := nodes[i].Start(seedFor(seed, i, seedLen)); err != nil {
			run.log = append(run.log, fmt.Sprintf("start-err at=%d %s", i, errClass(err)))
		}
	}
	drain()
	if r.Algo != "feldman_vss" {
		for round := 0; round < 2; round++ {
			for i := 0; i < n; i++ {
				if err := nodes[i].NextTimeout(); err != nil {
					run.log = append(run.log, fmt.Sprintf("timeout-err round=%d at=%d %s", round, i, errClass(err)))
				}
			}
			drain()
		}
	}
	ends := make([]string, n)
	for i := 0; i < n; i++ {
		sk, gpk, pks, err := nodes[i].End()
		if err != nil {
			ends[i] = "err:" + errClass(err)
			continue
		}
		ends[i] = fmt.Sprintf("sk=%s group=%s shares=%v", hx(sk.Encode()), hx(gpk.Encode()), hexList(pks))
	}
	drain()
	return map[string]any{"log": run.log, "end": ends, "messages": run.sent}, nil
}
