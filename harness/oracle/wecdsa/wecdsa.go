// Package wecdsa is a from-the-specification reference implementation (test
// oracle) of ECDSA over generic short-Weierstrass curves y^2 = x^3 + A x + B
// over a prime field F_P with a prime-order base point (cofactor 1).
//
// It follows FIPS 186-4 section 6.4 / SEC1 v2 sections 4.1.3-4.1.4 for ECDSA and
// SEC1 section 2.3.3-2.3.4 / X9.62 for compressed point encodings. It uses
// math/big only, is NOT constant time and must never be used with real secrets.
package wecdsa

import (
	"errors"
	"fmt"
	"math/big"
)

// Curve holds the domain parameters of y^2 = x^3 + A x + B over F_P with a base
// point (Gx, Gy) of prime order N (cofactor 1).
type Curve struct {
	Name               string
	P, A, B, Gx, Gy, N *big.Int
}

// Point is an affine point; Inf marks the point at infinity (X, Y are then ignored).
type Point struct {
	X, Y *big.Int
	Inf  bool
}

func hex(s string) *big.Int {
	v, ok := new(big.Int).SetString(s, 16)
	if !ok {
		panic(fmt.Sprintf("wecdsa: bad hex constant %q", s))
	}
	return v
}

// P256 returns the NIST P-256 (secp256r1) domain parameters (FIPS 186-4 D.1.2.3).
func P256() *Curve {
	p := hex("FFFFFFFF00000001000000000000000000000000FFFFFFFFFFFFFFFFFFFFFFFF")
	return &Curve{
		Name: "P-256",
		P:    p,
		A:    new(big.Int).Sub(p, big.NewInt(3)),
		B:    hex("5AC635D8AA3A93E7B3EBBD55769886BC651D06B0CC53B0F63BCE3C3E27D2604B"),
		Gx:   hex("6B17D1F2E12C4247F8BCE6E563A440F277037D812DEB33A0F4A13945D898C296"),
		Gy:   hex("4FE342E2FE1A7F9B8EE7EB4A7C0F9E162BCE33576B315ECECBB6406837BF51F5"),
		N:    hex("FFFFFFFF00000000FFFFFFFFFFFFFFFFBCE6FAADA7179E84F3B9CAC2FC632551"),
	}
}

// Secp256k1 returns the secp256k1 domain parameters (SEC2 v2 section 2.4.1).
func Secp256k1() *Curve {
	return &Curve{
		Name: "secp256k1",
		P:    hex("FFFFFFFFFFFFFFFFFFFFFFFFFFFFFFFFFFFFFFFFFFFFFFFFFFFFFFFEFFFFFC2F"),
		A:    big.NewInt(0),
		B:    big.NewInt(7),
		Gx:   hex("79BE667EF9DCBBAC55A06295CE870B07029BFCDB2DCE28D959F2815B16F81798"),
		Gy:   hex("483ADA7726A3C4655DA4FBFC0E1108A8FD17B448A68554199C47D08FFB10D4B8"),
		N:    hex("FFFFFFFFFFFFFFFFFFFFFFFFFFFFFFFEBAAEDCE6AF48A03BBFD25E8CD0364141"),
	}
}

// Check performs basic sanity checks on the domain parameters: non-singular
// curve, base point on the curve, N*G = infinity.
func (c *Curve) Check() error {
	// discriminant: 4A^3 + 27B^2 != 0 mod P
	d := c.mul(c.mul(c.A, c.A), c.A)
	d.Mul(d, big.NewInt(4))
	d.Add(d, new(big.Int).Mul(big.NewInt(27), c.mul(c.B, c.B)))
	if d.Mod(d, c.P).Sign() == 0 {
		return errors.New("wecdsa: singular curve")
	}
	if !c.IsOnCurve(c.Gx, c.Gy) {
		return errors.New("wecdsa: base point not on curve")
	}
	if !c.ScalarBaseMult(c.N).Inf {
		return errors.New("wecdsa: N*G is not infinity")
	}
	return nil
}

// ---- field helpers (all results reduced into [0, P)) ----

func (c *Curve) mul(a, b *big.Int) *big.Int { v := new(big.Int).Mul(a, b); return v.Mod(v, c.P) }
func (c *Curve) add(a, b *big.Int) *big.Int { v := new(big.Int).Add(a, b); return v.Mod(v, c.P) }
func (c *Curve) sub(a, b *big.Int) *big.Int { v := new(big.Int).Sub(a, b); return v.Mod(v, c.P) }
func (c *Curve) muli(a *big.Int, k int64) *big.Int {
	v := new(big.Int).Mul(a, big.NewInt(k))
	return v.Mod(v, c.P)
}

// rhs returns x^3 + A x + B mod P.
func (c *Curve) rhs(x *big.Int) *big.Int {
	t := c.mul(c.mul(x, x), x)
	t = c.add(t, c.mul(c.A, x))
	return c.add(t, c.B)
}

// IsOnCurve reports whether (x, y) is a canonical affine point of the curve:
// 0 <= x, y < P and y^2 = x^3 + A x + B mod P.
func (c *Curve) IsOnCurve(x, y *big.Int) bool {
	if x == nil || y == nil || x.Sign() < 0 || y.Sign() < 0 || x.Cmp(c.P) >= 0 || y.Cmp(c.P) >= 0 {
		return false
	}
	return c.mul(y, y).Cmp(c.rhs(x)) == 0
}

// Infinity returns the point at infinity.
func Infinity() Point { return Point{Inf: true} }

// G returns the base point.
func (c *Curve) G() Point { return Point{X: new(big.Int).Set(c.Gx), Y: new(big.Int).Set(c.Gy)} }

// Neg returns -p.
func (c *Curve) Neg(p Point) Point {
	if p.Inf {
		return Infinity()
	}
	return Point{X: new(big.Int).Set(p.X), Y: c.sub(new(big.Int), p.Y)}
}

// Equal reports whether p and q are the same point.
func (p Point) Equal(q Point) bool {
	if p.Inf || q.Inf {
		return p.Inf && q.Inf
	}
	return p.X.Cmp(q.X) == 0 && p.Y.Cmp(q.Y) == 0
}

// ---- Jacobian arithmetic: (X, Y, Z) represents (X/Z^2, Y/Z^3); Z = 0 is infinity ----

type jac struct{ x, y, z *big.Int }

func (c *Curve) toJac(p Point) jac {
	if p.Inf {
		return jac{big.NewInt(1), big.NewInt(1), new(big.Int)}
	}
	return jac{new(big.Int).Mod(p.X, c.P), new(big.Int).Mod(p.Y, c.P), big.NewInt(1)}
}

func (c *Curve) toAffine(j jac) Point {
	if j.z.Sign() == 0 {
		return Infinity()
	}
	zi := new(big.Int).ModInverse(j.z, c.P)
	zi2 := c.mul(zi, zi)
	return Point{X: c.mul(j.x, zi2), Y: c.mul(j.y, c.mul(zi2, zi))}
}

// double: general-A doubling (2007 Bernstein-Lange "dbl-2007-bl" without the squaring tricks).
func (c *Curve) double(p jac) jac {
	if p.z.Sign() == 0 || p.y.Sign() == 0 { // infinity or a point of order 2
		return c.toJac(Infinity())
	}
	yy := c.mul(p.y, p.y)
	zz := c.mul(p.z, p.z)
	s := c.muli(c.mul(p.x, yy), 4)                                    // S = 4 X Y^2
	m := c.add(c.muli(c.mul(p.x, p.x), 3), c.mul(c.A, c.mul(zz, zz))) // M = 3 X^2 + A Z^4
	x3 := c.sub(c.mul(m, m), c.muli(s, 2))
	y3 := c.sub(c.mul(m, c.sub(s, x3)), c.muli(c.mul(yy, yy), 8))
	z3 := c.muli(c.mul(p.y, p.z), 2)
	return jac{x3, y3, z3}
}

// addJac: complete addition (falls back to doubling / infinity in the exceptional cases).
func (c *Curve) addJac(p, q jac) jac {
	if p.z.Sign() == 0 {
		return q
	}
	if q.z.Sign() == 0 {
		return p
	}
	z1z1, z2z2 := c.mul(p.z, p.z), c.mul(q.z, q.z)
	u1, u2 := c.mul(p.x, z2z2), c.mul(q.x, z1z1)
	s1, s2 := c.mul(p.y, c.mul(q.z, z2z2)), c.mul(q.y, c.mul(p.z, z1z1))
	h, r := c.sub(u2, u1), c.sub(s2, s1)
	if h.Sign() == 0 {
		if r.Sign() == 0 {
			return c.double(p) // same point
		}
		return c.toJac(Infinity()) // p = -q
	}
	hh := c.mul(h, h)
	hhh := c.mul(h, hh)
	v := c.mul(u1, hh)
	x3 := c.sub(c.sub(c.mul(r, r), hhh), c.muli(v, 2))
	y3 := c.sub(c.mul(r, c.sub(v, x3)), c.mul(s1, hhh))
	z3 := c.mul(c.mul(p.z, q.z), h)
	return jac{x3, y3, z3}
}

// Add returns p + q, handling doubling, inverses and the point at infinity.
func (c *Curve) Add(p, q Point) Point { return c.toAffine(c.addJac(c.toJac(p), c.toJac(q))) }

// ScalarMult returns k*p for any integer k (negative k negates p; k is not
// reduced, so ScalarMult(G, N) exercises the full group order).
func (c *Curve) ScalarMult(p Point, k *big.Int) Point {
	if k.Sign() < 0 {
		p, k = c.Neg(p), new(big.Int).Neg(k)
	}
	base, acc := c.toJac(p), c.toJac(Infinity())
	for i := k.BitLen() - 1; i >= 0; i-- { // left-to-right double-and-add
		acc = c.double(acc)
		if k.Bit(i) == 1 {
			acc = c.addJac(acc, base)
		}
	}
	return c.toAffine(acc)
}

// ScalarBaseMult returns k*G.
func (c *Curve) ScalarBaseMult(k *big.Int) Point { return c.ScalarMult(c.G(), k) }

// ---- ECDSA ----

// digestToInt converts the digest to the integer e: e = OS2IP(digest), keeping
// only the leftmost bitlen(N) bits when the digest is longer (FIPS 186-4 6.4, SEC1 4.1.3 step 5).
func (c *Curve) digestToInt(digest []byte) *big.Int {
	e := new(big.Int).SetBytes(digest)
	if excess := 8*len(digest) - c.N.BitLen(); excess > 0 {
		e.Rsh(e, uint(excess))
	}
	return e
}

func (c *Curve) inScalarRange(v *big.Int) bool { // 1 <= v <= N-1
	return v != nil && v.Sign() > 0 && v.Cmp(c.N) < 0
}

// Verify implements ECDSA verification (SEC1 4.1.4). It returns false unless
// 1 <= r, s <= N-1, the public key is a canonical finite point on the curve,
// R = u1*G + u2*Q is finite and R.x mod N == r.
func (c *Curve) Verify(pubX, pubY *big.Int, digest []byte, r, s *big.Int) bool {
	if !c.inScalarRange(r) || !c.inScalarRange(s) || !c.IsOnCurve(pubX, pubY) {
		return false
	}
	e := c.digestToInt(digest)
	w := new(big.Int).ModInverse(s, c.N)
	u1 := new(big.Int).Mul(e, w)
	u1.Mod(u1, c.N)
	u2 := new(big.Int).Mul(r, w)
	u2.Mod(u2, c.N)
	R := c.Add(c.ScalarBaseMult(u1), c.ScalarMult(Point{X: pubX, Y: pubY}, u2))
	if R.Inf {
		return false
	}
	return new(big.Int).Mod(R.X, c.N).Cmp(r) == 0
}

// SignWithNonce implements ECDSA signing (SEC1 4.1.3) with the caller-supplied
// per-message secret k. ok is false if d or k is outside [1, N-1] or r == 0 or s == 0.
func (c *Curve) SignWithNonce(d *big.Int, digest []byte, k *big.Int) (r, s *big.Int, ok bool) {
	if !c.inScalarRange(d) || !c.inScalarRange(k) {
		return nil, nil, false
	}
	R := c.ScalarBaseMult(k)
	if R.Inf {
		return nil, nil, false
	}
	r = new(big.Int).Mod(R.X, c.N)
	s = new(big.Int).Mul(r, d)
	s.Add(s, c.digestToInt(digest))
	s.Mul(s, new(big.Int).ModInverse(k, c.N))
	s.Mod(s, c.N)
	if r.Sign() == 0 || s.Sign() == 0 {
		return nil, nil, false
	}
	return r, s, true
}

// ---- square roots and point encodings ----

// ModSqrt returns a square root of a modulo P (one of the two; the caller picks
// the parity) and true, or (nil, false) if a is a quadratic non-residue.
// Tonelli-Shanks; for P = 3 mod 4 it degenerates to a^((P+1)/4).
func (c *Curve) ModSqrt(a *big.Int) (*big.Int, bool) {
	p, one := c.P, big.NewInt(1)
	a = new(big.Int).Mod(a, p)
	if a.Sign() == 0 {
		return new(big.Int), true
	}
	pm1 := new(big.Int).Sub(p, one)
	half := new(big.Int).Rsh(pm1, 1)
	if new(big.Int).Exp(a, half, p).Cmp(one) != 0 { // Euler criterion
		return nil, false
	}
	// P-1 = q * 2^e with q odd
	q, e := new(big.Int).Set(pm1), 0
	for q.Bit(0) == 0 {
		q.Rsh(q, 1)
		e++
	}
	z := big.NewInt(2) // smallest quadratic non-residue
	for new(big.Int).Exp(z, half, p).Cmp(pm1) != 0 {
		z.Add(z, one)
	}
	m := e
	g := new(big.Int).Exp(z, q, p)
	t := new(big.Int).Exp(a, q, p)
	x := new(big.Int).Exp(a, new(big.Int).Rsh(new(big.Int).Add(q, one), 1), p)
	for t.Cmp(one) != 0 {
		i, t2 := 0, new(big.Int).Set(t) // least i with t^(2^i) = 1
		for t2.Cmp(one) != 0 {
			t2 = c.mul(t2, t2)
			i++
		}
		b := new(big.Int).Set(g)
		for j := 0; j < m-i-1; j++ {
			b = c.mul(b, b)
		}
		x = c.mul(x, b)
		g = c.mul(b, b)
		t = c.mul(t, g)
		m = i
	}
	if c.mul(x, x).Cmp(a) != 0 {
		return nil, false
	}
	return x, true
}

// byteLen is the fixed width of an encoded field element.
func (c *Curve) byteLen() int { return (c.P.BitLen() + 7) / 8 }

// CompressPoint returns the SEC1 compressed encoding 0x02|0x03 || X of a finite
// point, or nil if (x, y) is not a canonical point of the curve.
func (c *Curve) CompressPoint(x, y *big.Int) []byte {
	if !c.IsOnCurve(x, y) {
		return nil
	}
	out := make([]byte, 1+c.byteLen())
	out[0] = 2 + byte(y.Bit(0))
	x.FillBytes(out[1:])
	return out
}

// DecompressPoint strictly decodes a SEC1 compressed point: exact length,
// prefix 0x02 or 0x03, x < P, x^3 + A x + B a quadratic residue; the returned y
// has the parity announced by the prefix.
func (c *Curve) DecompressPoint(b []byte) (x, y *big.Int, ok bool) {
	if len(b) != 1+c.byteLen() || (b[0] != 2 && b[0] != 3) {
		return nil, nil, false
	}
	x = new(big.Int).SetBytes(b[1:])
	if x.Cmp(c.P) >= 0 {
		return nil, nil, false
	}
	y, ok = c.ModSqrt(c.rhs(x))
	if !ok {
		return nil, nil, false
	}
	if y.Bit(0) != uint(b[0]&1) {
		y = c.sub(new(big.Int), y) // y = 0 has only even parity: re-check below
		if y.Bit(0) != uint(b[0]&1) {
			return nil, nil, false
		}
	}
	return x, y, true
}
