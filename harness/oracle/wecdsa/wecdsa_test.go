package wecdsa

import (
	"crypto/ecdsa"
	"crypto/elliptic"
	crand "crypto/rand"
	"crypto/sha256"
	"math/big"
	"math/rand"
	"testing"
	"time"

	"github.com/btcsuite/btcd/btcec/v2"
	becdsa "github.com/btcsuite/btcd/btcec/v2/ecdsa"
)

// ref is an independent third-party implementation used as a cross-check.
type ref struct {
	params     *elliptic.CurveParams
	baseMult   func(k *big.Int) (x, y *big.Int)
	scalarMult func(x, y, k *big.Int) (*big.Int, *big.Int)
	add        func(x1, y1, x2, y2 *big.Int) (*big.Int, *big.Int)
	verify     func(x, y *big.Int, digest []byte, r, s *big.Int) bool // only called with 1 <= r,s < N for btcec
	fullRange  bool                                                   // verify may be called with any r, s
	longDigest bool                                                   // verify truncates digests longer than N
	sign       func(d *big.Int, digest []byte) (r, s *big.Int)
	decompress func(b []byte) (x, y *big.Int, ok bool)
}

func p256Ref() ref {
	ec := elliptic.P256()
	pub := func(x, y *big.Int) *ecdsa.PublicKey { return &ecdsa.PublicKey{Curve: ec, X: x, Y: y} }
	return ref{
		params:     ec.Params(),
		baseMult:   func(k *big.Int) (*big.Int, *big.Int) { return ec.ScalarBaseMult(k.Bytes()) },
		scalarMult: func(x, y, k *big.Int) (*big.Int, *big.Int) { return ec.ScalarMult(x, y, k.Bytes()) },
		add:        ec.Add,
		verify: func(x, y *big.Int, digest []byte, r, s *big.Int) bool {
			return ecdsa.Verify(pub(x, y), digest, r, s)
		},
		fullRange: true, longDigest: true,
		sign: func(d *big.Int, digest []byte) (*big.Int, *big.Int) {
			x, y := ec.ScalarBaseMult(d.Bytes())
			r, s, err := ecdsa.Sign(crand.Reader, &ecdsa.PrivateKey{PublicKey: *pub(x, y), D: d}, digest)
			if err != nil {
				panic(err)
			}
			return r, s
		},
		decompress: func(b []byte) (*big.Int, *big.Int, bool) {
			x, y := elliptic.UnmarshalCompressed(ec, b)
			return x, y, x != nil
		},
	}
}

func k1Ref() ref {
	ec := btcec.S256()
	return ref{
		params:     ec.Params(),
		baseMult:   func(k *big.Int) (*big.Int, *big.Int) { return ec.ScalarBaseMult(k.Bytes()) },
		scalarMult: func(x, y, k *big.Int) (*big.Int, *big.Int) { return ec.ScalarMult(x, y, k.Bytes()) },
		add:        ec.Add,
		verify: func(x, y *big.Int, digest []byte, r, s *big.Int) bool {
			var fx, fy btcec.FieldVal
			var mr, ms btcec.ModNScalar
			if fx.SetByteSlice(x.Bytes()) || fy.SetByteSlice(y.Bytes()) || mr.SetByteSlice(r.Bytes()) || ms.SetByteSlice(s.Bytes()) {
				panic("k1Ref.verify: out-of-range input")
			}
			return becdsa.NewSignature(&mr, &ms).Verify(digest, btcec.NewPublicKey(&fx, &fy))
		},
		sign: func(d *big.Int, digest []byte) (*big.Int, *big.Int) {
			priv, _ := btcec.PrivKeyFromBytes(d.FillBytes(make([]byte, 32)))
			der := becdsa.Sign(priv, digest).Serialize() // 30 L 02 rl r 02 sl s
			rl := int(der[3])
			sl := int(der[5+rl])
			return new(big.Int).SetBytes(der[4 : 4+rl]), new(big.Int).SetBytes(der[6+rl : 6+rl+sl])
		},
		decompress: func(b []byte) (*big.Int, *big.Int, bool) {
			if len(b) != 33 { // ParsePubKey also accepts 65-byte uncompressed/hybrid forms
				return nil, nil, false
			}
			pk, err := btcec.ParsePubKey(b)
			if err != nil {
				return nil, nil, false
			}
			return pk.X(), pk.Y(), true
		},
	}
}

var suites = []struct {
	c *Curve
	r ref
}{{P256(), p256Ref()}, {Secp256k1(), k1Ref()}}

func eqXY(p Point, x, y *big.Int) bool { // references encode infinity as (0, 0)
	if p.Inf {
		return x.Sign() == 0 && y.Sign() == 0
	}
	return p.X.Cmp(x) == 0 && p.Y.Cmp(y) == 0
}

func randScalar(rng *rand.Rand, n *big.Int) *big.Int { // uniform in [1, n-1]
	v := new(big.Int).Rand(rng, new(big.Int).Sub(n, big.NewInt(1)))
	return v.Add(v, big.NewInt(1))
}

func randBytes(rng *rand.Rand, n int) []byte {
	b := make([]byte, n)
	rng.Read(b)
	return b
}

func TestParamsMatchReferences(t *testing.T) {
	for _, s := range suites {
		c, p := s.c, s.r.params
		a := new(big.Int).Sub(p.P, big.NewInt(3)) // elliptic.CurveParams assumes A = -3 ...
		if c.Name == "secp256k1" {
			a = big.NewInt(0) // ... and btcec's adaptor reuses the struct for A = 0
		}
		for _, pair := range [][2]*big.Int{{c.P, p.P}, {c.A, a}, {c.B, p.B}, {c.Gx, p.Gx}, {c.Gy, p.Gy}, {c.N, p.N}} {
			if pair[0].Cmp(pair[1]) != 0 {
				t.Errorf("%s: parameter mismatch %x != %x", c.Name, pair[0], pair[1])
			}
		}
		if err := c.Check(); err != nil {
			t.Errorf("%s: %v", c.Name, err)
		}
		if !c.P.ProbablyPrime(32) || !c.N.ProbablyPrime(32) {
			t.Errorf("%s: P or N not prime", c.Name)
		}
	}
}

func TestRFC6979P256Sample(t *testing.T) {
	c := P256()
	d := hex("C9AFA9D845BA75166B5C215767B1D6934E50C3DB36E89B127B8A622B120F6721")
	ux := hex("60FED4BA255A9D31C961EB74C6356D68C049B8923B61FA6CE669622E60F29FB6")
	uy := hex("7903FE1008B8BC99A41AE9E95628BC64F2F1B20C2D7E9F5177A3C294D4462299")
	k := hex("A6E3C57DD01ABE90086538398355DD4C3B17AA873382B0F24D6129493D8AAD60")
	wr := hex("EFD48B2AACB6A8FD1140DD9CD45E81D69D2C877B56AAF991C34D0EA84EAF3716")
	ws := hex("F7CB1C942D657C41D436C7A1B6E29F65F3E900DBB9AFF4064DC4AB2F843ACDA8")
	if !eqXY(c.ScalarBaseMult(d), ux, uy) {
		t.Fatal("d*G != U")
	}
	h := sha256.Sum256([]byte("sample"))
	r, s, ok := c.SignWithNonce(d, h[:], k)
	if !ok || r.Cmp(wr) != 0 || s.Cmp(ws) != 0 {
		t.Fatalf("SignWithNonce: ok=%v r=%X s=%X", ok, r, s)
	}
	if !c.Verify(ux, uy, h[:], wr, ws) {
		t.Fatal("Verify rejected the RFC 6979 vector")
	}
	h[0] ^= 1
	if c.Verify(ux, uy, h[:], wr, ws) {
		t.Fatal("Verify accepted a modified digest")
	}
}

func TestSmallMultiples(t *testing.T) {
	twoG := map[string][2]*big.Int{
		"P-256": {hex("7CF27B188D034F7E8A52380304B51AC3C08969E277F21B35A60B48FC47669978"),
			hex("07775510DB8ED040293D9AC69F7430DBBA7DADE63CE982299E04B79D227873D1")},
		"secp256k1": {hex("C6047F9441ED7D6D3045406E95C07CD85C778E4B8CEF3CA7ABAC09B95C709EE5"),
			hex("1AE168FEA63DC339A3C58419466CEAEEF7F632653266D0E1236431A950CFE52A")},
	}
	for _, s := range suites {
		c, g := s.c, s.c.G()
		nm1 := new(big.Int).Sub(c.N, big.NewInt(1))
		if !c.ScalarBaseMult(big.NewInt(0)).Inf || !c.ScalarBaseMult(c.N).Inf {
			t.Errorf("%s: 0*G or N*G not infinity", c.Name)
		}
		if !c.ScalarBaseMult(big.NewInt(1)).Equal(g) || !c.ScalarBaseMult(new(big.Int).Add(c.N, big.NewInt(1))).Equal(g) {
			t.Errorf("%s: 1*G or (N+1)*G != G", c.Name)
		}
		two := c.ScalarBaseMult(big.NewInt(2))
		if !eqXY(two, twoG[c.Name][0], twoG[c.Name][1]) || !two.Equal(c.Add(g, g)) || !c.IsOnCurve(two.X, two.Y) {
			t.Errorf("%s: bad 2*G", c.Name)
		}
		if m := c.ScalarBaseMult(nm1); !m.Equal(c.Neg(g)) || !m.Equal(c.ScalarBaseMult(big.NewInt(-1))) {
			t.Errorf("%s: (N-1)*G != -G", c.Name)
		}
		if !c.Add(g, c.Neg(g)).Inf || !c.Add(g, Infinity()).Equal(g) || !c.Add(Infinity(), g).Equal(g) || !c.Add(Infinity(), Infinity()).Inf {
			t.Errorf("%s: identity/inverse laws", c.Name)
		}
		for _, k := range []*big.Int{big.NewInt(1), big.NewInt(2), nm1} {
			if x, y := s.r.baseMult(k); !eqXY(c.ScalarBaseMult(k), x, y) {
				t.Errorf("%s: %v*G differs from reference", c.Name, k)
			}
		}
		if c.IsOnCurve(c.Gx, new(big.Int).Add(c.Gy, c.P)) || c.IsOnCurve(c.Gx, new(big.Int).Sub(c.Gy, c.P)) || c.IsOnCurve(c.Gx, c.Gx) {
			t.Errorf("%s: IsOnCurve accepted a non-canonical or off-curve point", c.Name)
		}
	}
}

func TestGroupOpsAgainstReference(t *testing.T) {
	for _, s := range suites {
		c, rng := s.c, rand.New(rand.NewSource(1))
		for i := 0; i < 200; i++ {
			a, b, k := randScalar(rng, c.N), randScalar(rng, c.N), randScalar(rng, c.N)
			if i%10 == 0 {
				k.Rsh(k, uint(rng.Intn(250))) // short scalars too
			}
			pa, pb := c.ScalarBaseMult(a), c.ScalarBaseMult(b)
			if x, y := s.r.baseMult(a); !eqXY(pa, x, y) || !c.IsOnCurve(pa.X, pa.Y) {
				t.Fatalf("%s: ScalarBaseMult(%x) mismatch", c.Name, a)
			}
			if x, y := s.r.add(pa.X, pa.Y, pb.X, pb.Y); !eqXY(c.Add(pa, pb), x, y) {
				t.Fatalf("%s: Add mismatch a=%x b=%x", c.Name, a, b)
			}
			if x, y := s.r.scalarMult(pa.X, pa.Y, k); !eqXY(c.ScalarMult(pa, k), x, y) {
				t.Fatalf("%s: ScalarMult mismatch a=%x k=%x", c.Name, a, k)
			}
			if x, y := s.r.baseMult(new(big.Int).Lsh(a, 1)); !eqXY(c.Add(pa, pa), x, y) {
				t.Fatalf("%s: doubling mismatch a=%x", c.Name, a)
			}
			if !c.Add(pa, c.Neg(pa)).Inf || !c.Add(pa, c.ScalarBaseMult(new(big.Int).Sub(c.N, a))).Inf {
				t.Fatalf("%s: P + (-P) != infinity", c.Name)
			}
		}
	}
}

func TestVerifyAgainstReference(t *testing.T) {
	for _, s := range suites {
		c, rng := s.c, rand.New(rand.NewSource(2))
		one := big.NewInt(1)
		check := func(what string, x, y *big.Int, dg []byte, r, sg *big.Int, want int) { // want: 1 accept, 0 reject, -1 whatever the reference says
			t.Helper()
			got := c.Verify(x, y, dg, r, sg)
			inRange := r.Sign() > 0 && sg.Sign() > 0 && r.Cmp(c.N) < 0 && sg.Cmp(c.N) < 0
			if s.r.fullRange || inRange {
				if rv := s.r.verify(x, y, dg, r, sg); rv != got {
					t.Fatalf("%s %s: oracle=%v reference=%v (r=%x s=%x)", c.Name, what, got, rv, r, sg)
				}
			} else if got {
				t.Fatalf("%s %s: accepted out-of-range (r=%x s=%x)", c.Name, what, r, sg)
			}
			if want >= 0 && got != (want == 1) {
				t.Fatalf("%s %s: got %v", c.Name, what, got)
			}
		}
		for i := 0; i < 200; i++ {
			d, k := randScalar(rng, c.N), randScalar(rng, c.N)
			dlen := 32
			if i%8 == 1 {
				dlen = 20
			} else if i%8 == 2 && s.r.longDigest {
				dlen = []int{33, 48, 64}[rng.Intn(3)]
			}
			dg := randBytes(rng, dlen)
			q := c.ScalarBaseMult(d)
			r, sg, ok := c.SignWithNonce(d, dg, k)
			if !ok {
				t.Fatalf("%s: SignWithNonce failed", c.Name)
			}
			check("oracle-signed", q.X, q.Y, dg, r, sg, 1)
			rr, rs := s.r.sign(d, dg)
			check("reference-signed", q.X, q.Y, dg, rr, rs, 1)
			check("twin (r, N-s)", q.X, q.Y, dg, r, new(big.Int).Sub(c.N, sg), 1)
			check("(N-r, s)", q.X, q.Y, dg, new(big.Int).Sub(c.N, r), sg, 0)

			bad := append([]byte(nil), dg...)
			bad[rng.Intn(32*8)/8%dlen] ^= 1 << uint(rng.Intn(8)) // within the leftmost 256 bits
			check("digest bit flip", q.X, q.Y, bad, r, sg, 0)
			bit := rng.Intn(256)
			check("r bit flip", q.X, q.Y, dg, new(big.Int).SetBit(r, bit, r.Bit(bit)^1), sg, 0)
			check("s bit flip", q.X, q.Y, dg, r, new(big.Int).SetBit(sg, bit, sg.Bit(bit)^1), 0)
			q2 := c.ScalarBaseMult(randScalar(rng, c.N))
			check("wrong key", q2.X, q2.Y, dg, r, sg, 0)
			check("negated key", q.X, c.Neg(q).Y, dg, r, sg, 0)
			for _, v := range []*big.Int{big.NewInt(0), c.N, new(big.Int).Add(c.N, one), new(big.Int).Add(c.N, r), new(big.Int).Neg(r)} {
				check("r out of range", q.X, q.Y, dg, v, sg, 0)
			}
			for _, v := range []*big.Int{big.NewInt(0), c.N, new(big.Int).Add(c.N, one), new(big.Int).Add(c.N, sg), new(big.Int).Neg(sg)} {
				check("s out of range", q.X, q.Y, dg, r, v, 0)
			}
			// invalid public keys: off-curve, non-canonical, "infinity" (0,0)
			if c.Verify(q.X, new(big.Int).Add(q.Y, one), dg, r, sg) || c.Verify(new(big.Int).Add(q.X, c.P), q.Y, dg, r, sg) ||
				c.Verify(new(big.Int), new(big.Int), dg, r, sg) || c.Verify(nil, nil, dg, r, sg) {
				t.Fatalf("%s: accepted an invalid public key", c.Name)
			}
			// nonce / key range checks of SignWithNonce
			for _, v := range []*big.Int{big.NewInt(0), c.N, big.NewInt(-1)} {
				if _, _, ok := c.SignWithNonce(d, dg, v); ok {
					t.Fatalf("%s: SignWithNonce accepted k=%v", c.Name, v)
				}
				if _, _, ok := c.SignWithNonce(v, dg, k); ok {
					t.Fatalf("%s: SignWithNonce accepted d=%v", c.Name, v)
				}
			}
		}
	}
}

func TestCompressDecompress(t *testing.T) {
	for _, s := range suites {
		c, rng := s.c, rand.New(rand.NewSource(3))
		for i := 0; i < 200; i++ {
			q := c.ScalarBaseMult(randScalar(rng, c.N))
			enc := c.CompressPoint(q.X, q.Y)
			if len(enc) != 33 || enc[0] != 2+byte(q.Y.Bit(0)) || new(big.Int).SetBytes(enc[1:]).Cmp(q.X) != 0 {
				t.Fatalf("%s: bad compressed encoding %x", c.Name, enc)
			}
			x, y, ok := c.DecompressPoint(enc)
			if !ok || !eqXY(q, x, y) {
				t.Fatalf("%s: round trip failed for %x", c.Name, enc)
			}
			if rx, ry, rok := s.r.decompress(enc); !rok || !eqXY(q, rx, ry) {
				t.Fatalf("%s: reference decompress disagrees on %x", c.Name, enc)
			}
			enc[0] ^= 1 // other parity -> negated point
			if x, y, ok = c.DecompressPoint(enc); !ok || !eqXY(c.Neg(q), x, y) {
				t.Fatalf("%s: other parity did not give -Q", c.Name)
			}
			// random 33-byte strings: agree with the reference on accept/reject and value
			rb := randBytes(rng, 33)
			rb[0] = byte(2 + rng.Intn(2))
			x, y, ok = c.DecompressPoint(rb)
			rx, ry, rok := s.r.decompress(rb)
			if ok != rok || (ok && (x.Cmp(rx) != 0 || y.Cmp(ry) != 0 || !c.IsOnCurve(x, y))) {
				t.Fatalf("%s: random decompress mismatch on %x: %v vs %v", c.Name, rb, ok, rok)
			}
			for _, bad := range [][]byte{append([]byte{4}, enc[1:]...), append([]byte{0}, enc[1:]...), append([]byte{5}, enc[1:]...),
				enc[:32], append(append([]byte(nil), enc...), 0), append([]byte{4}, append(enc[1:], q.Y.FillBytes(make([]byte, 32))...)...), nil} {
				if _, _, ok := c.DecompressPoint(bad); ok {
					t.Fatalf("%s: accepted malformed encoding %x", c.Name, bad)
				}
			}
		}
		// x >= P
		for _, x := range []*big.Int{c.P, new(big.Int).Add(c.P, big.NewInt(5)), new(big.Int).Sub(new(big.Int).Lsh(big.NewInt(1), 256), big.NewInt(1))} {
			for _, pre := range []byte{2, 3} {
				b := append([]byte{pre}, x.FillBytes(make([]byte, 32))...)
				if _, _, ok := c.DecompressPoint(b); ok {
					t.Errorf("%s: accepted x >= P: %x", c.Name, b)
				}
				if _, _, rok := s.r.decompress(b); rok {
					t.Errorf("%s: reference accepted x >= P: %x", c.Name, b)
				}
			}
		}
		// non-residue x (found by Jacobi symbol, an independent criterion)
		found := 0
		for x := big.NewInt(1); found < 5; x.Add(x, big.NewInt(1)) {
			if big.Jacobi(c.rhs(x), c.P) != -1 {
				if _, _, ok := c.DecompressPoint(append([]byte{2}, x.FillBytes(make([]byte, 32))...)); !ok {
					t.Errorf("%s: rejected residue x=%v", c.Name, x)
				}
				continue
			}
			found++
			for _, pre := range []byte{2, 3} {
				if _, _, ok := c.DecompressPoint(append([]byte{pre}, x.FillBytes(make([]byte, 32))...)); ok {
					t.Errorf("%s: accepted non-residue x=%v", c.Name, x)
				}
			}
		}
		if c.CompressPoint(c.Gx, c.Gx) != nil || c.CompressPoint(new(big.Int), new(big.Int)) != nil {
			t.Errorf("%s: CompressPoint encoded an off-curve point", c.Name)
		}
	}
}

func TestModSqrt(t *testing.T) {
	// includes a P = 1 mod 4 field (P-224's prime, 2-adicity 96) to exercise the full Tonelli-Shanks loop
	p224 := &Curve{P: hex("FFFFFFFFFFFFFFFFFFFFFFFFFFFFFFFF000000000000000000000001")}
	small := &Curve{P: big.NewInt(17)}
	rng := rand.New(rand.NewSource(4))
	for _, c := range []*Curve{P256(), Secp256k1(), p224, small} {
		for i := 0; i < 100; i++ {
			a := new(big.Int).Rand(rng, c.P)
			r, ok := c.ModSqrt(a)
			if want := big.Jacobi(a, c.P) >= 0; ok != want {
				t.Fatalf("P=%x a=%x: ok=%v want %v", c.P, a, ok, want)
			}
			if ok && (c.mul(r, r).Cmp(a) != 0 || r.Sign() < 0 || r.Cmp(c.P) >= 0) {
				t.Fatalf("P=%x a=%x: bad root %x", c.P, a, r)
			}
		}
	}
}

func TestVerifySpeed(t *testing.T) {
	for _, s := range suites {
		c, rng := s.c, rand.New(rand.NewSource(5))
		d, dg := randScalar(rng, c.N), randBytes(rng, 32)
		q := c.ScalarBaseMult(d)
		r, sg, _ := c.SignWithNonce(d, dg, randScalar(rng, c.N))
		const n = 20
		start := time.Now()
		for i := 0; i < n; i++ {
			if !c.Verify(q.X, q.Y, dg, r, sg) {
				t.Fatal("verify failed")
			}
		}
		per := time.Since(start) / n
		t.Logf("%s: Verify %v/op", c.Name, per)
		// informational only: a wall-clock bound would make every check of the framework flaky on a loaded machine
	}
}
