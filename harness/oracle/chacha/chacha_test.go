package chacha

import (
	"bytes"
	"encoding/hex"
	"math/rand"
	"strings"
	"testing"

	xchacha "golang.org/x/crypto/chacha20"
)

func unhex(t *testing.T, s string) []byte {
	t.Helper()
	b, err := hex.DecodeString(strings.Join(strings.Fields(s), ""))
	if err != nil {
		t.Fatal(err)
	}
	return b
}

func seq(n int) []byte {
	b := make([]byte, n)
	for i := range b {
		b[i] = byte(i)
	}
	return b
}

func TestQuarterRound(t *testing.T) { // RFC 8439 section 2.1.1
	s := [16]uint32{0x11111111, 0x01020304, 0x9b8d6f43, 0x01234567}
	quarterRound(&s, 0, 1, 2, 3)
	if s[0] != 0xea2a92f4 || s[1] != 0xcb1cf8ce || s[2] != 0x4581472e || s[3] != 0x5881c4bb {
		t.Errorf("quarter round: %08x", s[:4])
	}
}

func TestRFC8439Block(t *testing.T) { // section 2.3.2
	var key [32]byte
	copy(key[:], seq(32))
	var nonce [12]byte
	copy(nonce[:], unhex(t, "000000090000004a00000000"))
	got := Block(key, 1, nonce)
	want := unhex(t, `10f1e7e4d13b5915500fdd1fa32071c4c7d1f4c733c068030422aa9ac3d46c4e
		d28264 46079faa0914c2d705d98b02a2b5129cd1de164eb9cbd083e8a2503c4e`)
	if !bytes.Equal(got[:], want) {
		t.Errorf("block: got %x", got)
	}
}

func TestRFC8439Encryption(t *testing.T) { // section 2.4.2, initial counter 1 = keystream offset 64
	pt := []byte("Ladies and Gentlemen of the class of '99: If I could offer you only one tip for the future, sunscreen would be it.")
	ks := Keystream(seq(32), unhex(t, "000000000000004a00000000"), 64, len(pt))
	ct := make([]byte, len(pt))
	for i := range pt {
		ct[i] = pt[i] ^ ks[i]
	}
	want := unhex(t, `6e2e359a2568f98041ba0728dd0d6981e97e7aec1d4360c20a27afccfd9fae0b
		f91b65c5524733ab8f593dabcd62b3571639d624e65152ab8f530c359f0861d8
		07ca0dbf500d6a6156a38e088a22b65e52bc514d16ccf806818ce91ab7793736
		5af90bbf74a35be6b40b8eedf2785e42874d`)
	if !bytes.Equal(ct, want) {
		t.Errorf("ciphertext: got %x", ct)
	}
}

func xKeystream(t *testing.T, key, nonce []byte, offset uint64, n int) []byte {
	t.Helper()
	c, err := xchacha.NewUnauthenticatedCipher(key, nonce)
	if err != nil {
		t.Fatal(err)
	}
	c.SetCounter(uint32(offset / 64))
	buf := make([]byte, int(offset%64)+n)
	c.XORKeyStream(buf, buf)
	return buf[offset%64:]
}

func TestRandomAgainstX(t *testing.T) {
	rng := rand.New(rand.NewSource(20260924))
	for i := 0; i < 2000; i++ {
		key, nonce := make([]byte, 32), make([]byte, 12)
		rng.Read(key)
		rng.Read(nonce)
		n := rng.Intn(400)
		var offset uint64
		switch i % 4 {
		case 0:
			offset = uint64(rng.Intn(300))
		case 1:
			offset = uint64(rng.Int63n(1 << 38))
			if offset+uint64(n) > 1<<38 {
				offset = 1<<38 - uint64(n)
			}
		case 2:
			offset = 1<<38 - uint64(n) - uint64(rng.Intn(3))*uint64(rng.Intn(200)) // at / near the end of the stream
		case 3:
			offset = uint64(rng.Intn(1<<20)) * 64 // block aligned
		}
		if got, want := Keystream(key, nonce, offset, n), xKeystream(t, key, nonce, offset, n); !bytes.Equal(got, want) {
			t.Fatalf("keystream mismatch offset %d n %d", offset, n)
		}
	}
}

func TestKeystreamBounds(t *testing.T) {
	mustPanic := func(name string, f func()) {
		defer func() {
			if recover() == nil {
				t.Errorf("%s: expected panic", name)
			}
		}()
		f()
	}
	k, nc := make([]byte, 32), make([]byte, 12)
	mustPanic("past end", func() { Keystream(k, nc, 1<<38-1, 2) })
	mustPanic("short key", func() { Keystream(k[:31], nc, 0, 1) })
	mustPanic("short nonce", func() { Keystream(k, nc[:8], 0, 1) })
	if len(Keystream(k, nc, 1<<38, 0)) != 0 || len(Keystream(k, nc, 1<<38-1, 1)) != 1 {
		t.Error("end-of-stream edge")
	}
	// RFC 8439 A.1 test vector #1: all-zero key and nonce, counter 0
	if got := Keystream(k, nc, 0, 16); hex.EncodeToString(got) != "76b8e0ada0f13d90405d6ae55386bd28" {
		t.Errorf("zero key block: %x", got)
	}
}
