// Package chacha is a from-the-specification test oracle for the ChaCha20 block
// function and keystream of RFC 8439 (32-bit block counter, 96-bit nonce).
package chacha

func rotl(x uint32, n uint) uint32 { return x<<n | x>>(32-n) }

// quarterRound is RFC 8439 section 2.1 applied to state words a, b, c, d.
func quarterRound(s *[16]uint32, a, b, c, d int) {
	s[a] += s[b]
	s[d] ^= s[a]
	s[d] = rotl(s[d], 16)
	s[c] += s[d]
	s[b] ^= s[c]
	s[b] = rotl(s[b], 12)
	s[a] += s[b]
	s[d] ^= s[a]
	s[d] = rotl(s[d], 8)
	s[c] += s[d]
	s[b] ^= s[c]
	s[b] = rotl(s[b], 7)
}

func le32(b []byte) uint32 {
	return uint32(b[0]) | uint32(b[1])<<8 | uint32(b[2])<<16 | uint32(b[3])<<24
}

// Block is the ChaCha20 block function of RFC 8439 section 2.3.
func Block(key [32]byte, counter uint32, nonce [12]byte) [64]byte {
	var init [16]uint32
	// "expand 32-byte k"
	init[0], init[1], init[2], init[3] = 0x61707865, 0x3320646e, 0x79622d32, 0x6b206574
	for i := 0; i < 8; i++ {
		init[4+i] = le32(key[4*i:])
	}
	init[12] = counter
	for i := 0; i < 3; i++ {
		init[13+i] = le32(nonce[4*i:])
	}
	s := init
	for i := 0; i < 10; i++ { // 20 rounds = 10 x (column round + diagonal round)
		quarterRound(&s, 0, 4, 8, 12)
		quarterRound(&s, 1, 5, 9, 13)
		quarterRound(&s, 2, 6, 10, 14)
		quarterRound(&s, 3, 7, 11, 15)
		quarterRound(&s, 0, 5, 10, 15)
		quarterRound(&s, 1, 6, 11, 12)
		quarterRound(&s, 2, 7, 8, 13)
		quarterRound(&s, 3, 4, 9, 14)
	}
	var out [64]byte
	for i := 0; i < 16; i++ {
		v := s[i] + init[i]
		out[4*i], out[4*i+1], out[4*i+2], out[4*i+3] = byte(v), byte(v>>8), byte(v>>16), byte(v>>24)
	}
	return out
}

// Keystream returns bytes [offset, offset+n) of the stream
// Block(key,0,nonce) || Block(key,1,nonce) || ... ; key must be 32 bytes and nonce 12 bytes.
// It panics on bad lengths or if the range reaches past block counter 2^32-1
// (the stream is 2^38 bytes long; the counter never wraps).
func Keystream(key []byte, nonce []byte, offset uint64, n int) []byte {
	if len(key) != 32 || len(nonce) != 12 || n < 0 {
		panic("chacha: bad key, nonce or length")
	}
	const streamLen = uint64(1) << 38
	if offset > streamLen || uint64(n) > streamLen-offset {
		panic("chacha: keystream range exceeds the 32-bit block counter")
	}
	var k [32]byte
	var nc [12]byte
	copy(k[:], key)
	copy(nc[:], nonce)
	out := make([]byte, 0, n)
	for pos := offset; len(out) < n; {
		blk := Block(k, uint32(pos/64), nc)
		take := blk[pos%64:]
		if len(take) > n-len(out) {
			take = take[:n-len(out)]
		}
		out = append(out, take...)
		pos += uint64(len(take))
	}
	return out
}
