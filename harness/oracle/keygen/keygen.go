// Package keygen is a test oracle for the deterministic seed -> private-key
// derivations documented in github.com/onflow/crypto (bls.go and ecdsa.go,
// functions generatePrivateKey). It is built only on the sha2 oracle and math/big.
//
// The oracles do not enforce the library's seed-length window
// (KeyGenSeedMinLen = 32 .. KeyGenSeedMaxLen = 256); callers model that separately.
package keygen

import (
	"math/big"

	"verifharness/oracle/sha2"
)

// BLS12381Order is r, the order of G1/G2 of BLS12-381.
var BLS12381Order, _ = new(big.Int).SetString("73eda753299d7d483339d80809a1d80553bda402fffe5bfeffffffff00000001", 16)

// BLSKeyGen is KeyGen of draft-irtf-cfrg-bls-signature-05 section 2.3 (the version
// cited by /repo/bls.go) with key_info = "":
//
//	salt = "BLS-SIG-KEYGEN-SALT-"; SK = 0
//	while SK == 0:
//	    salt = H(salt)                              (H = SHA-256)
//	    PRK  = HKDF-Extract(salt, IKM || I2OSP(0, 1))
//	    OKM  = HKDF-Expand(PRK, key_info || I2OSP(L, 2), L),  L = ceil(3*ceil(log2 r)/16) = 48
//	    SK   = OS2IP(OKM) mod r
func BLSKeyGen(seed []byte) *big.Int {
	const L = 48
	salt := []byte("BLS-SIG-KEYGEN-SALT-")
	ikm := append(append([]byte{}, seed...), 0)
	info := []byte{byte(L >> 8), byte(L & 0xff)} // key_info is empty
	for {
		salt = sha2.SHA256(salt)
		okm := sha2.HKDFExpand(sha2.HKDFExtract(salt, ikm), info, L)
		sk := new(big.Int).SetBytes(okm)
		if sk.Mod(sk, BLS12381Order).Sign() != 0 {
			return sk
		}
	}
}

// ECDSAKeyGen is the derivation of /repo/ecdsa.go for a curve of order n:
// OKM = HKDF-SHA256(IKM = seed, salt = "", info = "") of length
// ceil(bitlen(n)/8) + 16 bytes (128 extra bits against modular bias; 48 bytes for
// P-256 and secp256k1), and d = (OS2IP(OKM) mod (n-1)) + 1, so that 1 <= d <= n-1.
func ECDSAKeyGen(seed []byte, n *big.Int) *big.Int {
	okmLen := (n.BitLen()+7)/8 + 128/8
	okm := sha2.HKDFExpand(sha2.HKDFExtract(nil, seed), nil, okmLen)
	one := big.NewInt(1)
	d := new(big.Int).SetBytes(okm)
	d.Mod(d, new(big.Int).Sub(n, one))
	return d.Add(d, one)
}
