package keygen

import (
	"encoding/hex"
	"math/big"
	"math/rand"
	"testing"
)

// Pinned seed -> key vectors copied from /repo/bls_test.go (TestBLSKeyGenerationBreakingChange)
// and /repo/ecdsa_test.go (TestECDSAKeyGenerationBreakingChange).
const pinnedSeed = "00112233445566778899AABBCCDDEEFF00112233445566778899AABBCCDDEEFF"

var (
	p256N, _      = new(big.Int).SetString("FFFFFFFF00000000FFFFFFFFFFFFFFFFBCE6FAADA7179E84F3B9CAC2FC632551", 16)
	secp256k1N, _ = new(big.Int).SetString("FFFFFFFFFFFFFFFFFFFFFFFFFFFFFFFEBAAEDCE6AF48A03BBFD25E8CD0364141", 16)
)

func hex32(x *big.Int) string { return hex.EncodeToString(x.FillBytes(make([]byte, 32))) }

func TestPinnedVectors(t *testing.T) {
	seed, err := hex.DecodeString(pinnedSeed)
	if err != nil {
		t.Fatal(err)
	}
	if got, want := hex32(BLSKeyGen(seed)), "5895ab2eccd1883856adc0784b15097e69154ac9bf29ecd605f95be3064f6f01"; got != want {
		t.Errorf("BLS: got %s want %s", got, want)
	}
	if got, want := hex32(ECDSAKeyGen(seed, secp256k1N)), "4723d238a9702296f96bf64f1288c8b1eb93a4bff8b1482be4172c745bf30acb"; got != want {
		t.Errorf("secp256k1: got %s want %s", got, want)
	}
	if got, want := hex32(ECDSAKeyGen(seed, p256N)), "3cadd4123b493233252ffdeccaef07066b73e2c3a9a08905669c5a857027708b"; got != want {
		t.Errorf("P-256: got %s want %s", got, want)
	}
}

func TestRanges(t *testing.T) {
	if BLS12381Order.BitLen() != 255 || !BLS12381Order.ProbablyPrime(20) || !p256N.ProbablyPrime(20) || !secp256k1N.ProbablyPrime(20) {
		t.Fatal("group order constants")
	}
	rng := rand.New(rand.NewSource(1))
	for i := 0; i < 200; i++ {
		seed := make([]byte, 32+rng.Intn(225))
		rng.Read(seed)
		if sk := BLSKeyGen(seed); sk.Sign() <= 0 || sk.Cmp(BLS12381Order) >= 0 {
			t.Fatalf("BLS key out of range: %x", sk)
		}
		for _, n := range []*big.Int{p256N, secp256k1N} {
			if d := ECDSAKeyGen(seed, n); d.Sign() <= 0 || d.Cmp(n) >= 0 {
				t.Fatalf("ECDSA key out of range: %x", d)
			}
		}
	}
}
