package keccak

import (
	"bytes"
	stdsha3 "crypto/sha3"
	"encoding/hex"
	"math/rand"
	"testing"

	xsha3 "golang.org/x/crypto/sha3"
)

func unhex(t *testing.T, s string) []byte {
	t.Helper()
	b, err := hex.DecodeString(s)
	if err != nil {
		t.Fatal(err)
	}
	return b
}

func seq(from, n int) []byte {
	b := make([]byte, n)
	for i := range b {
		b[i] = byte(from + i)
	}
	return b
}

func check(t *testing.T, name string, got []byte, wantHex string) {
	t.Helper()
	if !bytes.Equal(got, unhex(t, wantHex)) {
		t.Errorf("%s: got %x want %s", name, got, wantHex)
	}
}

func TestFIPS202Vectors(t *testing.T) {
	a3 := bytes.Repeat([]byte{0xa3}, 200)
	check(t, "SHA3-256 empty", SHA3_256(nil), "a7ffc6f8bf1ed76651c14756a061d662f580ff4de43b49fa82d80a4b80f8434a")
	check(t, "SHA3-256 abc", SHA3_256([]byte("abc")), "3a985da74fe225b2045c172d6bd390bd855f086e3e9d525b46bfe24511431532")
	check(t, "SHA3-256 a3x200", SHA3_256(a3), "79f38adec5c20307a98ef76e8324afbfd46cfd81b22e3973c65fa1bd9de31787")
	check(t, "SHA3-384 empty", SHA3_384(nil), "0c63a75b845e4f7d01107d852e4c2485c51a50aaaa94fc61995e71bbee983a2ac3713831264adb47fb6bd1e058d5f004")
	check(t, "SHA3-384 abc", SHA3_384([]byte("abc")), "ec01498288516fc926459f58e2c6ad8df9b473cb0fc08c2596da7cf0e49be4b298d88cea927ac7f539f1edf228376d25")
	check(t, "SHA3-384 a3x200", SHA3_384(a3), "1881de2ca7e41ef95dc4732b8f5f002b189cc1e42b74168ed1732649ce1dbcdd76197a31fd55ee989f2d7050dd473e8f")
	check(t, "Keccak-256 empty", Keccak256(nil), "c5d2460186f7233c927e7db2dcc703c0e500b653ca82273b7bfad8045d85a470")
	check(t, "SHAKE128 empty", SHAKE128(nil, 32), "7f9c2ba4e88f827d616045507605853ed73b8093f6efbc88eb1a6eacfa66ef26")
}

func TestRoundConstantsAndOffsets(t *testing.T) {
	// spot-check the derived constants against the well-known table values
	want := map[int]uint64{0: 0x0000000000000001, 1: 0x0000000000008082, 2: 0x800000000000808A, 23: 0x8000000080008008}
	for ir, w := range want {
		var z state
		if got := iotaStep(z, ir)[0][0]; got != w {
			t.Errorf("RC[%d] = %#x want %#x", ir, got, w)
		}
	}
	var ones state
	for x := range ones {
		for y := range ones[x] {
			ones[x][y] = 1
		}
	}
	r := rho(ones) // FIPS 202 table 2 offsets (mod 64)
	for _, c := range []struct{ x, y, off int }{{0, 0, 0}, {1, 0, 1}, {2, 0, 190 % 64}, {0, 1, 36}, {4, 4, 78 % 64}, {2, 3, 15}, {3, 2, 153 % 64}, {2, 2, 171 % 64}} {
		if r[c.x][c.y] != 1<<uint(c.off) {
			t.Errorf("rho offset (%d,%d) wrong", c.x, c.y)
		}
	}
}

func TestSP800185Encodings(t *testing.T) {
	check(t, "left_encode(0)", LeftEncode(0), "0100")
	check(t, "right_encode(0)", RightEncode(0), "0001")
	check(t, "left_encode(168)", LeftEncode(168), "01a8")
	check(t, "left_encode(256)", LeftEncode(256), "020100")
	check(t, "right_encode(256)", RightEncode(256), "010002")
	check(t, "left_encode(max)", LeftEncode(^uint64(0)), "08ffffffffffffffff")
	check(t, "encode_string(empty)", EncodeString(nil), "0100")
	check(t, "encode_string(KMAC)", EncodeString([]byte("KMAC")), "01204b4d4143")
	check(t, "bytepad", Bytepad([]byte{1, 2, 3}, 4), "0104010203000000")
	check(t, "bytepad exact", Bytepad([]byte{1, 2}, 4), "01040102")
	if n := len(Bytepad(make([]byte, 166), 168)); n != 168 {
		t.Errorf("bytepad exact multiple: len %d", n)
	}
	if n := len(Bytepad(make([]byte, 167), 168)); n != 336 {
		t.Errorf("bytepad one over: len %d", n)
	}
}

func TestSP800185Samples(t *testing.T) {
	key := seq(0x40, 32)
	d4, d200 := seq(0, 4), seq(0, 200)
	tag := []byte("My Tagged Application")
	check(t, "KMAC128 #1", KMAC128(key, nil, d4, 32), "e5780b0d3ea6f7d3a429c5706aa43a00fadbd7d49628839e3187243f456ee14e")
	check(t, "KMAC128 #2", KMAC128(key, tag, d4, 32), "3b1fba963cd8b0b59e8c1a6d71888b7143651af8ba0a7070c0979e2811324aa5")
	check(t, "KMAC128 #3", KMAC128(key, tag, d200, 32), "1f5b4e6cca02209e0dcb5ca635b89a15e271ecc760071dfd805faa38f9729230")
	es := []byte("Email Signature")
	check(t, "cSHAKE128 #1", CSHAKE128(nil, es, d4, 32), "c1c36925b6409a04f1b504fcbca9d82b4017277cb5ed2b2065fc1d3814d5aaf5")
	check(t, "cSHAKE128 #2", CSHAKE128(nil, es, d200, 32), "c5221d50e4f822d96a2e8881a961420f294b7b24fe3d2094baed2c6524cc166b")
	if out := KMAC128(key, nil, d4, 0); out == nil || len(out) != 0 {
		t.Errorf("KMAC128 with outLen 0 must be an empty non-nil slice, got %v", out)
	}
}

// stdKMAC128 builds KMAC128 from the standard library's cSHAKE128.
func stdKMAC128(key, cust, msg []byte, outLen int) []byte {
	h := stdsha3.NewCSHAKE128([]byte("KMAC"), cust)
	// bytepad(encode_string(key), 168), spelled out independently of the oracle helpers
	var enc []byte
	bits := uint64(len(key)) * 8
	switch {
	case bits < 1<<8:
		enc = []byte{1, byte(bits)}
	case bits < 1<<16:
		enc = []byte{2, byte(bits >> 8), byte(bits)}
	default:
		enc = []byte{3, byte(bits >> 16), byte(bits >> 8), byte(bits)}
	}
	blk := append([]byte{1, 168}, enc...)
	blk = append(blk, key...)
	blk = append(blk, make([]byte, (168-len(blk)%168)%168)...)
	h.Write(blk)
	h.Write(msg)
	L := uint64(outLen) * 8
	switch {
	case L < 1<<8:
		h.Write([]byte{byte(L), 1})
	case L < 1<<16:
		h.Write([]byte{byte(L >> 8), byte(L), 2})
	default:
		h.Write([]byte{byte(L >> 16), byte(L >> 8), byte(L), 3})
	}
	out := make([]byte, outLen)
	h.Read(out)
	return out
}

func TestRandomAgainstStd(t *testing.T) {
	rng := rand.New(rand.NewSource(20260924))
	rb := func(n int) []byte { b := make([]byte, n); rng.Read(b); return b }
	for i := 0; i < 1000; i++ {
		n := rng.Intn(601)
		if i < 601 {
			n = i // cover every length 0..600 once, then random lengths
		}
		msg := rb(n)
		outLen := rng.Intn(400)
		if s := stdsha3.Sum256(msg); !bytes.Equal(SHA3_256(msg), s[:]) {
			t.Fatalf("SHA3-256 mismatch len %d", n)
		}
		if s := stdsha3.Sum384(msg); !bytes.Equal(SHA3_384(msg), s[:]) {
			t.Fatalf("SHA3-384 mismatch len %d", n)
		}
		k := xsha3.NewLegacyKeccak256()
		k.Write(msg)
		if !bytes.Equal(Keccak256(msg), k.Sum(nil)) {
			t.Fatalf("Keccak-256 mismatch len %d", n)
		}
		want := make([]byte, outLen)
		sh := stdsha3.NewSHAKE128()
		sh.Write(msg)
		sh.Read(want)
		if !bytes.Equal(SHAKE128(msg, outLen), want) {
			t.Fatalf("SHAKE128 mismatch len %d out %d", n, outLen)
		}
		// cSHAKE: N and S each empty with probability 1/4 (so the SHAKE fallback is hit too)
		var N, S []byte
		if rng.Intn(4) != 0 {
			N = rb(rng.Intn(40))
		}
		if rng.Intn(4) != 0 {
			S = rb(rng.Intn(300)) // may push bytepad past one block
		}
		cs := stdsha3.NewCSHAKE128(N, S)
		cs.Write(msg)
		cs.Read(want)
		if !bytes.Equal(CSHAKE128(N, S, msg, outLen), want) {
			t.Fatalf("cSHAKE128 mismatch N=%x S=%x len %d out %d", N, S, n, outLen)
		}
		key := rb(rng.Intn(400)) // up to > 1 block of key
		if rng.Intn(8) == 0 {
			outLen = 0
		}
		if !bytes.Equal(KMAC128(key, S, msg, outLen), stdKMAC128(key, S, msg, outLen)) {
			t.Fatalf("KMAC128 mismatch keylen %d S=%x len %d out %d", len(key), S, n, outLen)
		}
	}
}
