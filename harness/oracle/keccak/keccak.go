// Package keccak is a from-the-specification test oracle for the Keccak family:
// FIPS 202 (Keccak-p[1600,24], sponge, SHA3-256/384, SHAKE128), legacy Keccak-256,
// and NIST SP 800-185 (cSHAKE128, KMAC128 and their encoding helpers).
//
// It is written for clarity and fidelity to the standards, not for speed:
// the state is the 5x5 lane array A[x][y] of FIPS 202 section 3.1 and the five step
// mappings are transcribed one by one; round constants and rotation offsets are
// computed by the algorithms of the standard rather than copied from tables.
package keccak

// state is A[x][y], each lane holding bits z = 0..63 with bit z at weight 2^z.
type state [5][5]uint64

func rotl(v uint64, n uint) uint64 { n %= 64; return v<<n | v>>((64-n)%64) }

// theta is FIPS 202 Algorithm 1.
func theta(a state) state {
	var c, d [5]uint64
	for x := 0; x < 5; x++ {
		c[x] = a[x][0] ^ a[x][1] ^ a[x][2] ^ a[x][3] ^ a[x][4]
	}
	for x := 0; x < 5; x++ {
		// D[x,z] = C[(x-1) mod 5, z] xor C[(x+1) mod 5, (z-1) mod w]
		d[x] = c[(x+4)%5] ^ rotl(c[(x+1)%5], 1)
	}
	var out state
	for x := 0; x < 5; x++ {
		for y := 0; y < 5; y++ {
			out[x][y] = a[x][y] ^ d[x]
		}
	}
	return out
}

// rho is FIPS 202 Algorithm 2.
func rho(a state) state {
	var out state
	out[0][0] = a[0][0]
	x, y := 1, 0
	for t := 0; t <= 23; t++ {
		// A'[x,y,z] = A[x,y,(z-(t+1)(t+2)/2) mod w]  <=>  rotate the lane left
		out[x][y] = rotl(a[x][y], uint((t+1)*(t+2)/2%64))
		x, y = y, (2*x+3*y)%5
	}
	return out
}

// pi is FIPS 202 Algorithm 3.
func pi(a state) state {
	var out state
	for x := 0; x < 5; x++ {
		for y := 0; y < 5; y++ {
			out[x][y] = a[(x+3*y)%5][x]
		}
	}
	return out
}

// chi is FIPS 202 Algorithm 4.
func chi(a state) state {
	var out state
	for x := 0; x < 5; x++ {
		for y := 0; y < 5; y++ {
			out[x][y] = a[x][y] ^ (^a[(x+1)%5][y] & a[(x+2)%5][y])
		}
	}
	return out
}

// rc is FIPS 202 Algorithm 5 (one output bit of the degree-8 LFSR).
func rc(t int) uint64 {
	if t%255 == 0 {
		return 1
	}
	r := [9]uint64{1, 0, 0, 0, 0, 0, 0, 0, 0} // R = 10000000 (+ room for the shifted-in bit)
	for i := 1; i <= t%255; i++ {
		copy(r[1:], r[:8]) // R = 0 || R
		r[0] = 0
		r[0] ^= r[8]
		r[4] ^= r[8]
		r[5] ^= r[8]
		r[6] ^= r[8]
		// R = Trunc8[R]: r[8] is overwritten by the next shift
	}
	return r[0]
}

// iotaStep is FIPS 202 Algorithm 6 with l = 6.
func iotaStep(a state, ir int) state {
	var RC uint64
	for j := 0; j <= 6; j++ {
		RC |= rc(j+7*ir) << (1<<uint(j) - 1)
	}
	a[0][0] ^= RC
	return a
}

// f1600 is Keccak-f[1600] = Keccak-p[1600,24] on the 200-byte string form of the
// state; lane (x,y) occupies bytes 8(5y+x) .. 8(5y+x)+7, little endian
// (FIPS 202 section 3.1.2 with the byte/bit convention of appendix B.1).
func f1600(s *[200]byte) {
	var a state
	for y := 0; y < 5; y++ {
		for x := 0; x < 5; x++ {
			for k := 7; k >= 0; k-- {
				a[x][y] = a[x][y]<<8 | uint64(s[8*(5*y+x)+k])
			}
		}
	}
	for ir := 0; ir < 24; ir++ { // rounds 12+2l-nr .. 12+2l-1 = 0..23
		a = iotaStep(chi(pi(rho(theta(a)))), ir)
	}
	for y := 0; y < 5; y++ {
		for x := 0; x < 5; x++ {
			for k := 0; k < 8; k++ {
				s[8*(5*y+x)+k] = byte(a[x][y] >> (8 * uint(k)))
			}
		}
	}
}

// sponge is SPONGE[Keccak-f[1600], pad10*1, 8*rateBytes] applied to msg followed
// by the suffix bits encoded in dsByte (suffix bits from the LSB up, then the first
// '1' of pad10*1, e.g. 0x06 = "01"+"1", 0x1F = "1111"+"1", 0x04 = "00"+"1", 0x01 = ""+"1").
func sponge(rateBytes int, dsByte byte, msg []byte, outLen int) []byte {
	if rateBytes <= 0 || rateBytes >= 200 || outLen < 0 {
		panic("keccak: bad sponge parameters")
	}
	// P = msg || suffix || pad10*1, a positive multiple of the rate
	p := append(append([]byte{}, msg...), dsByte)
	for len(p)%rateBytes != 0 {
		p = append(p, 0)
	}
	p[len(p)-1] |= 0x80
	var s [200]byte
	for off := 0; off < len(p); off += rateBytes {
		for i := 0; i < rateBytes; i++ {
			s[i] ^= p[off+i]
		}
		f1600(&s)
	}
	out := make([]byte, 0, outLen+rateBytes)
	for {
		out = append(out, s[:rateBytes]...)
		if len(out) >= outLen {
			return out[:outLen]
		}
		f1600(&s)
	}
}

// SHA3_256 is FIPS 202 SHA3-256.
func SHA3_256(msg []byte) []byte { return sponge(136, 0x06, msg, 32) }

// SHA3_384 is FIPS 202 SHA3-384.
func SHA3_384(msg []byte) []byte { return sponge(104, 0x06, msg, 48) }

// Keccak256 is the pre-standard Keccak-256 (no domain suffix bits).
func Keccak256(msg []byte) []byte { return sponge(136, 0x01, msg, 32) }

// SHAKE128 is FIPS 202 SHAKE128 with outLen bytes of output.
func SHAKE128(msg []byte, outLen int) []byte { return sponge(168, 0x1F, msg, outLen) }

// LeftEncode is SP 800-185 left_encode.
func LeftEncode(x uint64) []byte {
	b := baseBytes(x)
	return append([]byte{byte(len(b))}, b...)
}

// RightEncode is SP 800-185 right_encode.
func RightEncode(x uint64) []byte {
	b := baseBytes(x)
	return append(b, byte(len(b)))
}

// baseBytes returns x_1..x_n, the big-endian base-256 digits of x, where n is
// the smallest positive integer with 2^(8n) > x.
func baseBytes(x uint64) []byte {
	n := 1
	for n < 8 && x>>(8*uint(n)) != 0 {
		n++
	}
	b := make([]byte, n)
	for i := 0; i < n; i++ {
		b[n-1-i] = byte(x >> (8 * uint(i)))
	}
	return b
}

// EncodeString is SP 800-185 encode_string (length prefix in bits).
func EncodeString(s []byte) []byte {
	return append(LeftEncode(uint64(len(s))*8), s...)
}

// Bytepad is SP 800-185 bytepad(X, w) = left_encode(w) || X || 0*, zero-padded to
// a multiple of w bytes (nothing is added if the length is already a multiple).
func Bytepad(x []byte, w int) []byte {
	if w <= 0 {
		panic("keccak: bytepad w must be positive")
	}
	z := append(LeftEncode(uint64(w)), x...)
	for len(z)%w != 0 {
		z = append(z, 0)
	}
	return z
}

// CSHAKE128 is SP 800-185 cSHAKE128(X=msg, L=8*outLen, N, S).
func CSHAKE128(N, S, msg []byte, outLen int) []byte {
	if len(N) == 0 && len(S) == 0 {
		return SHAKE128(msg, outLen)
	}
	in := Bytepad(append(EncodeString(N), EncodeString(S)...), 168)
	return sponge(168, 0x04, append(in, msg...), outLen)
}

// KMAC128 is SP 800-185 KMAC128(K=key, X=msg, L=8*outLen, S=customizer).
func KMAC128(key, customizer, msg []byte, outLen int) []byte {
	newX := Bytepad(EncodeString(key), 168)
	newX = append(newX, msg...)
	newX = append(newX, RightEncode(uint64(outLen)*8)...)
	return CSHAKE128([]byte("KMAC"), customizer, newX, outLen)
}
