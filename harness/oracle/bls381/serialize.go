package bls381

import (
	"errors"
	"fmt"
	"math/big"
)

// ZCash compressed serialization (draft-irtf-cfrg-pairing-friendly-curves
// appendix C). The three most significant bits of the first byte are flags.
const (
	FlagCompressed = 0x80 // bit 7: compressed encoding
	FlagInfinity   = 0x40 // bit 6: point at infinity
	FlagSign       = 0x20 // bit 5: y is the lexicographically largest of {y,-y}
	flagMask       = 0xE0

	FpLen = 48 // serialized length of an Fp element = compressed G1 length
	G2Len = 96 // compressed G2 length
)

func fpBytes(x *big.Int) []byte { return newFp(x).v.FillBytes(make([]byte, FpLen)) }

func allZero(b []byte) bool {
	for _, c := range b {
		if c != 0 {
			return false
		}
	}
	return true
}

// parseFlags checks everything that is common to G1 and G2: the length, the
// compression flag and the canonical infinity encoding. It returns a copy of
// the input with the flag bits cleared.
func parseFlags(b []byte, want int) (payload []byte, inf, sign bool, err error) {
	if len(b) != want {
		return nil, false, false, fmt.Errorf("bls381: invalid length %d, want %d", len(b), want)
	}
	if b[0]&FlagCompressed == 0 {
		return nil, false, false, errors.New("bls381: compression flag not set")
	}
	inf, sign = b[0]&FlagInfinity != 0, b[0]&FlagSign != 0
	payload = append([]byte(nil), b...)
	payload[0] &^= flagMask
	if inf {
		if sign {
			return nil, false, false, errors.New("bls381: infinity flag with sign flag set")
		}
		if !allZero(payload) {
			return nil, false, false, errors.New("bls381: infinity flag with non-zero payload")
		}
	}
	return payload, inf, sign, nil
}

func parseFp(b []byte) (fpE, error) {
	x := new(big.Int).SetBytes(b)
	if x.Cmp(P) >= 0 {
		return fpE{}, errors.New("bls381: coordinate is not reduced (>= p)")
	}
	return fpE{x}, nil
}

// G1Compress returns the 48-byte compressed encoding of p
// (infinity is 0xC0 followed by 47 zero bytes).
func G1Compress(p G1) []byte {
	if p.Inf {
		out := make([]byte, FpLen)
		out[0] = FlagCompressed | FlagInfinity
		return out
	}
	out := fpBytes(p.X)
	out[0] |= FlagCompressed
	if newFp(p.Y).isLargest() {
		out[0] |= FlagSign
	}
	return out
}

// G1Decompress accepts exactly the canonical encodings of points of E1(Fp).
// It does not check subgroup membership.
func G1Decompress(b []byte) (G1, error) {
	payload, inf, sign, err := parseFlags(b, FpLen)
	if err != nil {
		return G1{}, err
	}
	if inf {
		return G1Infinity(), nil
	}
	x, err := parseFp(payload)
	if err != nil {
		return G1{}, err
	}
	y, ok := x.Sqr().Mul(x).Add(e1.b).sqrt()
	if !ok {
		return G1{}, errors.New("bls381: x is not the abscissa of a curve point")
	}
	if y.IsZero() && sign {
		return G1{}, errors.New("bls381: sign flag set for y = 0")
	}
	if y.isLargest() != sign {
		y = y.Neg()
	}
	return G1{X: x.v, Y: y.v}, nil
}

// G2Compress returns the 96-byte compressed encoding of p. With swapped ==
// false this is the standard ZCash order x.C1 || x.C0; with swapped == true
// the order is x.C0 || x.C1. The flags are always on the very first byte.
func G2Compress(p G2, swapped bool) []byte {
	if p.Inf {
		out := make([]byte, G2Len)
		out[0] = FlagCompressed | FlagInfinity
		return out
	}
	first, second := p.X.C1, p.X.C0
	if swapped {
		first, second = second, first
	}
	out := append(fpBytes(first), fpBytes(second)...)
	out[0] |= FlagCompressed
	if p.Y.isLargest() {
		out[0] |= FlagSign
	}
	return out
}

// G2Decompress accepts exactly the canonical encodings of points of E2(Fp2)
// in the coefficient order selected by swapped (see G2Compress). It does not
// check subgroup membership.
func G2Decompress(b []byte, swapped bool) (G2, error) {
	payload, inf, sign, err := parseFlags(b, G2Len)
	if err != nil {
		return G2{}, err
	}
	if inf {
		return G2Infinity(), nil
	}
	first, err := parseFp(payload[:FpLen])
	if err != nil {
		return G2{}, err
	}
	second, err := parseFp(payload[FpLen:])
	if err != nil {
		return G2{}, err
	}
	x := fp2(second, first) // standard order: C1 first
	if swapped {
		x = fp2(first, second)
	}
	y, ok := x.Sqr().Mul(x).Add(e2.b).Sqrt()
	if !ok {
		return G2{}, errors.New("bls381: x is not the abscissa of a curve point")
	}
	if y.IsZero() && sign {
		return G2{}, errors.New("bls381: sign flag set for y = 0")
	}
	if y.isLargest() != sign {
		y = y.Neg()
	}
	return G2{X: x, Y: y}, nil
}
