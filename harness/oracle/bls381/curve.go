package bls381

import "math/big"

// field is the arithmetic needed by the generic curve code; it is implemented
// by fpE (Fp) and Fp2.
type field[T any] interface {
	Add(T) T
	Sub(T) T
	Mul(T) T
	Sqr() T
	Neg() T
	Inv() T
	Equal(T) bool
	IsZero() bool
}

// curve is the short Weierstrass curve y^2 = x^3 + b (a = 0) over the field T.
type curve[T field[T]] struct{ b, one T }

// aff is an affine point, jac a Jacobian one representing (x/z^2, y/z^3).
// The point at infinity is always flagged explicitly (coordinates then ignored).
type aff[T field[T]] struct {
	x, y T
	inf  bool
}
type jac[T field[T]] struct {
	x, y, z T
	inf     bool
}

func (c curve[T]) onCurve(p aff[T]) bool {
	return p.inf || p.y.Sqr().Equal(p.x.Sqr().Mul(p.x).Add(c.b))
}

func (c curve[T]) neg(p aff[T]) aff[T] {
	if p.inf {
		return p
	}
	return aff[T]{x: p.x, y: p.y.Neg()}
}

func (c curve[T]) equal(p, q aff[T]) bool {
	if p.inf || q.inf {
		return p.inf && q.inf
	}
	return p.x.Equal(q.x) && p.y.Equal(q.y)
}

// add is the textbook affine chord-and-tangent law (complete by case analysis).
func (c curve[T]) add(p, q aff[T]) aff[T] {
	switch {
	case p.inf:
		return q
	case q.inf:
		return p
	}
	var lambda T
	if p.x.Equal(q.x) {
		if !p.y.Equal(q.y) || p.y.IsZero() { // q = -p (includes 2-torsion p = -p)
			return aff[T]{inf: true}
		}
		xx := p.x.Sqr()
		lambda = xx.Add(xx).Add(xx).Mul(p.y.Add(p.y).Inv()) // 3x^2 / 2y
	} else {
		lambda = q.y.Sub(p.y).Mul(q.x.Sub(p.x).Inv()) // (y2-y1)/(x2-x1)
	}
	x3 := lambda.Sqr().Sub(p.x).Sub(q.x)
	y3 := lambda.Mul(p.x.Sub(x3)).Sub(p.y)
	return aff[T]{x: x3, y: y3}
}

// dbl doubles a Jacobian point (a = 0):
// with S = 4XY^2, M = 3X^2:  X' = M^2 - 2S, Y' = M(S - X') - 8Y^4, Z' = 2YZ.
func (c curve[T]) dbl(p jac[T]) jac[T] {
	if p.inf || p.y.IsZero() {
		return jac[T]{inf: true}
	}
	yy := p.y.Sqr()
	s := p.x.Mul(yy)
	s = s.Add(s)
	s = s.Add(s)
	xx := p.x.Sqr()
	m := xx.Add(xx).Add(xx)
	x3 := m.Sqr().Sub(s).Sub(s)
	y4 := yy.Sqr()
	y4 = y4.Add(y4)
	y4 = y4.Add(y4)
	y4 = y4.Add(y4) // 8Y^4
	y3 := m.Mul(s.Sub(x3)).Sub(y4)
	yz := p.y.Mul(p.z)
	return jac[T]{x: x3, y: y3, z: yz.Add(yz)}
}

// addMixed adds the affine point q to the Jacobian point p:
// U2 = x2 Z1^2, S2 = y2 Z1^3, H = U2 - X1, r = S2 - Y1,
// X3 = r^2 - H^3 - 2 X1 H^2, Y3 = r(X1 H^2 - X3) - Y1 H^3, Z3 = Z1 H.
func (c curve[T]) addMixed(p jac[T], q aff[T]) jac[T] {
	switch {
	case q.inf:
		return p
	case p.inf:
		return jac[T]{x: q.x, y: q.y, z: c.one}
	}
	zz := p.z.Sqr()
	h := q.x.Mul(zz).Sub(p.x)
	r := q.y.Mul(zz).Mul(p.z).Sub(p.y)
	if h.IsZero() {
		if r.IsZero() {
			return c.dbl(p)
		}
		return jac[T]{inf: true}
	}
	hh := h.Sqr()
	hhh := hh.Mul(h)
	v := p.x.Mul(hh)
	x3 := r.Sqr().Sub(hhh).Sub(v).Sub(v)
	y3 := r.Mul(v.Sub(x3)).Sub(p.y.Mul(hhh))
	return jac[T]{x: x3, y: y3, z: p.z.Mul(h)}
}

func (c curve[T]) toAffine(p jac[T]) aff[T] {
	if p.inf {
		return aff[T]{inf: true}
	}
	zi := p.z.Inv()
	zi2 := zi.Sqr()
	return aff[T]{x: p.x.Mul(zi2), y: p.y.Mul(zi2).Mul(zi)}
}

// mul computes k*p for any k >= 0 by left-to-right double-and-add. The scalar
// is NOT reduced, so this is valid for points of any order.
func (c curve[T]) mul(p aff[T], k *big.Int) aff[T] {
	if k.Sign() < 0 {
		panic("bls381: negative scalar")
	}
	acc := jac[T]{inf: true}
	for i := k.BitLen() - 1; i >= 0; i-- {
		acc = c.dbl(acc)
		if k.Bit(i) == 1 {
			acc = c.addMixed(acc, p)
		}
	}
	return c.toAffine(acc)
}

// ---------------------------------------------------------------- G1, G2

var (
	e1 = curve[fpE]{b: fpE{big.NewInt(4)}, one: fpE{big.NewInt(1)}}
	e2 = curve[Fp2]{b: Fp2{big.NewInt(4), big.NewInt(4)}, one: Fp2{big.NewInt(1), big.NewInt(0)}}
)

// G1 is an affine point of E1: y^2 = x^3 + 4 over Fp (not necessarily in the
// order-R subgroup). If Inf is set the coordinates are ignored.
type G1 struct {
	X, Y *big.Int
	Inf  bool
}

// G2 is an affine point of E2: y^2 = x^3 + 4(1+u) over Fp2.
type G2 struct {
	X, Y Fp2
	Inf  bool
}

func G1Infinity() G1 { return G1{X: new(big.Int), Y: new(big.Int), Inf: true} }
func G2Infinity() G2 {
	return G2{X: Fp2{new(big.Int), new(big.Int)}, Y: Fp2{new(big.Int), new(big.Int)}, Inf: true}
}

// G1Generator returns the standard generator of G1.
func G1Generator() G1 {
	return G1{
		X: hexInt("17f1d3a73197d7942695638c4fa9ac0fc3688c4f9774b905a14e3a3f171bac586c55e83ff97a1aeffb3af00adb22c6bb"),
		Y: hexInt("08b3f481e3aaa0f1a09e30ed741d8ae4fcf5e095d5d00af600db18cb2c04b3edd03cc744a2888ae40caa232946c5e7e1"),
	}
}

// G2Generator returns the standard generator of G2.
func G2Generator() G2 {
	return G2{
		X: Fp2{
			hexInt("024aa2b2f08f0a91260805272dc51051c6e47ad4fa403b02b4510b647ae3d1770bac0326a805bbefd48056c8c121bdb8"),
			hexInt("13e02b6052719f607dacd3a088274f65596bd0d09920b61ab5da61bbdc7f5049334cf11213945d57e5ac7d055d042b7e"),
		},
		Y: Fp2{
			hexInt("0ce5d527727d6e118cc9cdc6da2e351aadfd9baa8cbdd3a76d429a695160d12c923ac9cc3baca289e193548608b82801"),
			hexInt("0606c4a02ea734cc32acd2b02bc28b99cb3e287e85a763af267492ab572e99ab3f370d275cec1da1aaa9075ff05f79be"),
		},
	}
}

// Conversions between the exported and the generic representations.
// Coordinates are reduced mod p on the way in; results are fresh values.
func (p G1) aff() aff[fpE] {
	if p.Inf {
		return aff[fpE]{inf: true}
	}
	return aff[fpE]{x: newFp(p.X), y: newFp(p.Y)}
}
func g1From(a aff[fpE]) G1 {
	if a.inf {
		return G1Infinity()
	}
	return G1{X: a.x.v, Y: a.y.v}
}
func (p G2) aff() aff[Fp2] {
	if p.Inf {
		return aff[Fp2]{inf: true}
	}
	return aff[Fp2]{x: NewFp2(p.X.C0, p.X.C1), y: NewFp2(p.Y.C0, p.Y.C1)}
}
func g2From(a aff[Fp2]) G2 {
	if a.inf {
		return G2Infinity()
	}
	return G2{X: a.x, Y: a.y}
}

func canonical(xs ...*big.Int) bool {
	for _, x := range xs {
		if x == nil || x.Sign() < 0 || x.Cmp(P) >= 0 {
			return false
		}
	}
	return true
}

// Add is the complete group law (handles infinity, doubling and inverses).
func (p G1) Add(q G1) G1 { return g1From(e1.add(p.aff(), q.aff())) }
func (p G1) Neg() G1     { return g1From(e1.neg(p.aff())) }

// Mul returns k*p for any k >= 0; k is not reduced mod R.
func (p G1) Mul(k *big.Int) G1 { return g1From(e1.mul(p.aff(), k)) }
func (p G1) Equal(q G1) bool   { return e1.equal(p.aff(), q.aff()) }

// IsOnCurve reports whether p is infinity or has coordinates in [0,p)
// satisfying the curve equation.
func (p G1) IsOnCurve() bool { return p.Inf || (canonical(p.X, p.Y) && e1.onCurve(p.aff())) }

// InSubgroup reports whether p is on the curve and R*p is infinity.
func (p G1) InSubgroup() bool { return p.IsOnCurve() && p.Mul(R).Inf }

func (p G2) Add(q G2) G2       { return g2From(e2.add(p.aff(), q.aff())) }
func (p G2) Neg() G2           { return g2From(e2.neg(p.aff())) }
func (p G2) Mul(k *big.Int) G2 { return g2From(e2.mul(p.aff(), k)) }
func (p G2) Equal(q G2) bool   { return e2.equal(p.aff(), q.aff()) }
func (p G2) IsOnCurve() bool {
	return p.Inf || (canonical(p.X.C0, p.X.C1, p.Y.C0, p.Y.C1) && e2.onCurve(p.aff()))
}
func (p G2) InSubgroup() bool { return p.IsOnCurve() && p.Mul(R).Inf }
