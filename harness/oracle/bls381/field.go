// Package bls381 is an independent, from-the-specification reference
// implementation of BLS12-381 group arithmetic (G1 over Fp, G2 over Fp2) and of
// the ZCash compressed point serialization. It is a TEST ORACLE: written for
// clarity on top of math/big, not constant time, not for production use.
//
// Curve parameters are those of draft-irtf-cfrg-pairing-friendly-curves
// (section 4.2.1): E1: y^2 = x^3 + 4 over Fp, E2: y^2 = x^3 + 4(1+u) over
// Fp2 = Fp[u]/(u^2+1).
package bls381

import "math/big"

func hexInt(s string) *big.Int {
	v, ok := new(big.Int).SetString(s, 16)
	if !ok {
		panic("bls381: bad hex constant")
	}
	return v
}

var (
	// P is the base field modulus.
	P = hexInt("1a0111ea397fe69a4b1ba7b6434bacd764774b84f38512bf6730d2a0f6b0f6241eabfffeb153ffffb9feffffffffaaab")
	// R is the prime order of the subgroups G1 and G2.
	R = hexInt("73eda753299d7d483339d80809a1d80553bda402fffe5bfeffffffff00000001")
	// H1 is the cofactor of G1: #E1(Fp) = H1 * R.
	H1 = hexInt("396c8c005555e1568c00aaab0000aaab")
	// H2 is the cofactor of G2: #E2(Fp2) = H2 * R.
	H2 = hexInt("5d543a95414e7f1091d50792876a202cd91de4547085abaa68a205b2e5a7ddfa628f1cb4d9e82ef21537e293a6691ae1616ec6e786f0c70cf1c38e31c7238e5")

	pMinus1Half = new(big.Int).Rsh(new(big.Int).Sub(P, big.NewInt(1)), 1) // (p-1)/2
	pPlus1Quart = new(big.Int).Rsh(new(big.Int).Add(P, big.NewInt(1)), 2) // (p+1)/4, p = 3 mod 4
)

// ---------------------------------------------------------------- Fp

// fpE is an element of Fp, always kept reduced into [0,p). Operations return
// freshly allocated values and never modify their operands.
type fpE struct{ v *big.Int }

func newFp(x *big.Int) fpE { return fpE{new(big.Int).Mod(x, P)} }

func (a fpE) Add(b fpE) fpE {
	r := new(big.Int).Add(a.v, b.v)
	if r.Cmp(P) >= 0 {
		r.Sub(r, P)
	}
	return fpE{r}
}
func (a fpE) Sub(b fpE) fpE {
	r := new(big.Int).Sub(a.v, b.v)
	if r.Sign() < 0 {
		r.Add(r, P)
	}
	return fpE{r}
}
func (a fpE) Mul(b fpE) fpE { r := new(big.Int).Mul(a.v, b.v); return fpE{r.Mod(r, P)} }
func (a fpE) Sqr() fpE      { return a.Mul(a) }
func (a fpE) Neg() fpE {
	if a.v.Sign() == 0 {
		return fpE{new(big.Int)}
	}
	return fpE{new(big.Int).Sub(P, a.v)}
}
func (a fpE) Inv() fpE {
	r := new(big.Int).ModInverse(a.v, P)
	if r == nil {
		panic("bls381: inverse of zero in Fp")
	}
	return fpE{r}
}
func (a fpE) Equal(b fpE) bool { return a.v.Cmp(b.v) == 0 }
func (a fpE) IsZero() bool     { return a.v.Sign() == 0 }

// sqrt returns a square root of a if one exists. Since p = 3 (mod 4) the
// candidate is a^((p+1)/4); it is a root iff a is a square.
func (a fpE) sqrt() (fpE, bool) {
	c := fpE{new(big.Int).Exp(a.v, pPlus1Quart, P)}
	return c, c.Sqr().Equal(a)
}

// isLargest reports whether a > (p-1)/2, i.e. a is the larger of {a, -a}.
func (a fpE) isLargest() bool { return a.v.Cmp(pMinus1Half) > 0 }

// ---------------------------------------------------------------- Fp2

// Fp2 is the element C0 + C1*u of Fp[u]/(u^2+1). Methods return fresh values
// with coefficients reduced into [0,p) and never modify their operands.
type Fp2 struct{ C0, C1 *big.Int }

// NewFp2 builds an Fp2 element from (copies of) two integers, reduced mod p.
func NewFp2(c0, c1 *big.Int) Fp2 { return Fp2{newFp(c0).v, newFp(c1).v} }

func fp2(c0, c1 fpE) Fp2 { return Fp2{c0.v, c1.v} }

// norm returns the coefficients as reduced Fp elements (tolerates unreduced input).
func (a Fp2) norm() (fpE, fpE) { return newFp(a.C0), newFp(a.C1) }

func (a Fp2) Add(b Fp2) Fp2 {
	a0, a1 := a.norm()
	b0, b1 := b.norm()
	return fp2(a0.Add(b0), a1.Add(b1))
}
func (a Fp2) Sub(b Fp2) Fp2 {
	a0, a1 := a.norm()
	b0, b1 := b.norm()
	return fp2(a0.Sub(b0), a1.Sub(b1))
}
func (a Fp2) Neg() Fp2 {
	a0, a1 := a.norm()
	return fp2(a0.Neg(), a1.Neg())
}

// Mul: (a0 + a1 u)(b0 + b1 u) = (a0 b0 - a1 b1) + (a0 b1 + a1 b0) u.
// The integer products are formed first and reduced once per coefficient.
func (a Fp2) Mul(b Fp2) Fp2 {
	var t0, t1, c0, c1 big.Int
	c0.Sub(t0.Mul(a.C0, b.C0), t1.Mul(a.C1, b.C1))
	c1.Add(t0.Mul(a.C0, b.C1), t1.Mul(a.C1, b.C0))
	return Fp2{c0.Mod(&c0, P), c1.Mod(&c1, P)}
}

// Sqr: (a0 + a1 u)^2 = (a0+a1)(a0-a1) + 2 a0 a1 u.
func (a Fp2) Sqr() Fp2 {
	var s, d, c0, c1 big.Int
	c0.Mul(s.Add(a.C0, a.C1), d.Sub(a.C0, a.C1))
	c1.Mul(a.C0, a.C1)
	c1.Lsh(&c1, 1)
	return Fp2{c0.Mod(&c0, P), c1.Mod(&c1, P)}
}

// Inv: 1/(a0 + a1 u) = (a0 - a1 u)/(a0^2 + a1^2). Panics on zero.
func (a Fp2) Inv() Fp2 {
	a0, a1 := a.norm()
	n := a0.Sqr().Add(a1.Sqr())
	if n.IsZero() { // a0^2 + a1^2 = 0 only for a = 0 because -1 is a non-residue
		panic("bls381: inverse of zero in Fp2")
	}
	ni := n.Inv()
	return fp2(a0.Mul(ni), a1.Neg().Mul(ni))
}
func (a Fp2) Equal(b Fp2) bool {
	a0, a1 := a.norm()
	b0, b1 := b.norm()
	return a0.Equal(b0) && a1.Equal(b1)
}
func (a Fp2) IsZero() bool {
	a0, a1 := a.norm()
	return a0.IsZero() && a1.IsZero()
}

// Sqrt returns a square root of a, and whether one exists.
//
// Write a = a0 + a1 u and look for x = x0 + x1 u with x0^2 - x1^2 = a0 and
// 2 x0 x1 = a1. If a1 = 0 the root is sqrt(a0) or sqrt(-a0)*u (exactly one of
// a0, -a0 is a square in Fp when a0 != 0). Otherwise the norm N(a) = a0^2+a1^2
// must be a square s^2 in Fp, x0^2 = (a0 +- s)/2 for the sign making it a
// square, and x1 = a1/(2 x0). The result is verified by squaring.
func (a Fp2) Sqrt() (Fp2, bool) {
	a0, a1 := a.norm()
	zero := fpE{new(big.Int)}
	if a1.IsZero() {
		if s, ok := a0.sqrt(); ok {
			return fp2(s, zero), true
		}
		s, ok := a0.Neg().sqrt()
		return fp2(zero, s), ok // ok is always true here
	}
	s, ok := a0.Sqr().Add(a1.Sqr()).sqrt()
	if !ok {
		return Fp2{}, false
	}
	half := fpE{big.NewInt(2)}.Inv()
	x0, ok := a0.Add(s).Mul(half).sqrt()
	if !ok {
		x0, ok = a0.Sub(s).Mul(half).sqrt()
	}
	if !ok || x0.IsZero() {
		return Fp2{}, false
	}
	x1 := a1.Mul(x0.Add(x0).Inv())
	x := fp2(x0, x1)
	if !x.Sqr().Equal(a) {
		return Fp2{}, false
	}
	return x, true
}

// isLargest reports whether a is the lexicographically largest of {a, -a}:
// compare C1 first and, if C1 == 0, compare C0.
func (a Fp2) isLargest() bool {
	a0, a1 := a.norm()
	if !a1.IsZero() {
		return a1.isLargest()
	}
	return a0.isLargest()
}
