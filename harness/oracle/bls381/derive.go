package bls381

import (
	"crypto/sha256"
	"math/big"
)

// Deterministic construction of special points from a seed.
//
// A candidate abscissa is derived per (seed, counter): for each Fp coefficient
// i (0 for Fp, 0 and 1 for Fp2) the 64 bytes
//     SHA-256(tag || seed || be32(counter) || 2i) || SHA-256(tag || seed || be32(counter) || 2i+1)
// are read as a big-endian integer and reduced mod p. The counter is increased
// until x^3 + b is a square; y is the square root returned by the oracle's sqrt,
// negated iff the low bit of the first byte of SHA-256(tag || seed ||
// be32(counter) || 0xff) is set. tag is "G1" or "G2".

func digest(tag string, seed []byte, ctr uint32, idx byte) []byte {
	h := sha256.New()
	h.Write([]byte(tag))
	h.Write(seed)
	h.Write([]byte{byte(ctr >> 24), byte(ctr >> 16), byte(ctr >> 8), byte(ctr)})
	h.Write([]byte{idx})
	return h.Sum(nil)
}

func hashFp(tag string, seed []byte, ctr uint32, i byte) fpE {
	wide := append(digest(tag, seed, ctr, 2*i), digest(tag, seed, ctr, 2*i+1)...)
	return newFp(new(big.Int).SetBytes(wide))
}

// deriver bundles what the constructions need for one of the two curves.
type deriver[T field[T]] struct {
	c     curve[T]
	tag   string
	x     func(seed []byte, ctr uint32) T // candidate abscissa
	sqrt  func(T) (T, bool)
	cof   *big.Int // cofactor h
	order *big.Int // #E = h * R
}

var (
	d1 = deriver[fpE]{c: e1, tag: "G1", cof: H1, order: new(big.Int).Mul(H1, R),
		x:    func(seed []byte, ctr uint32) fpE { return hashFp("G1", seed, ctr, 0) },
		sqrt: fpE.sqrt,
	}
	d2 = deriver[Fp2]{c: e2, tag: "G2", cof: H2, order: new(big.Int).Mul(H2, R),
		x: func(seed []byte, ctr uint32) Fp2 {
			return fp2(hashFp("G2", seed, ctr, 0), hashFp("G2", seed, ctr, 1))
		},
		sqrt: Fp2.Sqrt,
	}
)

// curvePoint returns the first point found with counter >= start, and the next
// counter to use for a retry.
func (d deriver[T]) curvePoint(seed []byte, start uint32) (aff[T], uint32) {
	for ctr := start; ; ctr++ {
		x := d.x(seed, ctr)
		y, ok := d.sqrt(x.Sqr().Mul(x).Add(d.c.b))
		if !ok {
			continue
		}
		if digest(d.tag, seed, ctr, 0xff)[0]&1 == 1 {
			y = y.Neg()
		}
		return aff[T]{x: x, y: y}, ctr + 1
	}
}

// scaled returns k * (curve point), retrying with further counters until the
// result is not the identity.
func (d deriver[T]) scaled(seed []byte, k *big.Int) aff[T] {
	for ctr := uint32(0); ; {
		var p aff[T]
		p, ctr = d.curvePoint(seed, ctr)
		if q := d.c.mul(p, k); !q.inf {
			return q
		}
	}
}

// smallOrder returns a point of exact prime order l. Writing #E = l^e * m with
// l not dividing m, m*(curve point) lies in the l-Sylow subgroup (whatever its
// structure, cyclic or not); it is then multiplied by l until the next
// multiplication would give the identity.
func (d deriver[T]) smallOrder(order int64, seed []byte) (aff[T], bool) {
	l := big.NewInt(order)
	if order < 2 || !l.ProbablyPrime(20) || new(big.Int).Mod(d.order, l).Sign() != 0 {
		return aff[T]{inf: true}, false
	}
	m := new(big.Int).Set(d.order)
	for new(big.Int).Mod(m, l).Sign() == 0 {
		m.Div(m, l)
	}
	q := d.scaled(seed, m)
	for next := d.c.mul(q, l); !next.inf; next = d.c.mul(q, l) {
		q = next
	}
	return q, true
}

// G1CurvePoint returns a pseudo-random point of the full curve E1(Fp); it is
// in the order-R subgroup only with negligible probability (1/H1).
func G1CurvePoint(seed []byte) G1 { p, _ := d1.curvePoint(seed, 0); return g1From(p) }

// G1TorsionPoint returns R*(curve point), non-identity: a point whose order
// divides the cofactor H1, hence on the curve but outside the subgroup.
func G1TorsionPoint(seed []byte) G1 { return g1From(d1.scaled(seed, R)) }

// G1SmallOrderPoint returns a point of exactly the given prime order (3 or 11
// are the small ones for E1). It returns false if order is not a prime dividing
// #E1 = H1*R.
func G1SmallOrderPoint(order int64, seed []byte) (G1, bool) {
	p, ok := d1.smallOrder(order, seed)
	return g1From(p), ok
}

// G1SubgroupPoint returns H1*(curve point), non-identity: a pseudo-random
// element of the order-R subgroup.
func G1SubgroupPoint(seed []byte) G1 { return g1From(d1.scaled(seed, H1)) }

// G2CurvePoint, G2TorsionPoint, G2SmallOrderPoint (13 and 23 are the small
// primes dividing H2) and G2SubgroupPoint are the E2(Fp2) analogues.
func G2CurvePoint(seed []byte) G2   { p, _ := d2.curvePoint(seed, 0); return g2From(p) }
func G2TorsionPoint(seed []byte) G2 { return g2From(d2.scaled(seed, R)) }
func G2SmallOrderPoint(order int64, seed []byte) (G2, bool) {
	p, ok := d2.smallOrder(order, seed)
	return g2From(p), ok
}
func G2SubgroupPoint(seed []byte) G2 { return g2From(d2.scaled(seed, H2)) }

// Exp returns a^k for k >= 0 by square-and-multiply.
func (a Fp2) Exp(k *big.Int) Fp2 {
	if k.Sign() < 0 {
		panic("bls381: negative exponent")
	}
	acc := e2.one
	for i := k.BitLen() - 1; i >= 0; i-- {
		acc = acc.Sqr()
		if k.Bit(i) == 1 {
			acc = acc.Mul(a)
		}
	}
	return acc
}

// cbrt returns a cube root of a in Fp2 if one exists. p^2 - 1 = 9t with 3 not
// dividing t, so with e = 3^-1 mod t, (a^e)^3 = a * (a^t)^m where a^t is a 9th
// root of unity; the matching 9th root of unity correction w^j, w = (1+u)^t,
// is found by trying all nine.
func (a Fp2) cbrt() (Fp2, bool) {
	t := new(big.Int).Mul(P, P)
	t.Sub(t, big.NewInt(1)).Div(t, big.NewInt(9))
	r := a.Exp(new(big.Int).ModInverse(big.NewInt(3), t))
	w := NewFp2(big.NewInt(1), big.NewInt(1)).Exp(t)
	for j := 0; j < 9; j++ {
		if r.Sqr().Mul(r).Equal(a) {
			return r, true
		}
		r = r.Mul(w)
	}
	return Fp2{}, false
}

// G2PointYC1Zero returns a pseudo-random point of E2(Fp2) (full curve, almost
// surely outside the subgroup) whose ordinate lies in Fp, i.e. Y.C1 == 0 and
// Y.C0 != 0. Such points exercise the second branch of the Fp2 sign rule. It
// is built by choosing y in Fp from the seed until y^2 - 4(1+u) is a cube.
func G2PointYC1Zero(seed []byte) G2 {
	for ctr := uint32(0); ; ctr++ {
		y := fp2(hashFp("G2y", seed, ctr, 0), fpE{new(big.Int)})
		if x, ok := y.Sqr().Sub(e2.b).cbrt(); ok && !y.IsZero() {
			return G2{X: x, Y: y}
		}
	}
}
