package bls381

import (
	"bytes"
	"encoding/hex"
	"fmt"
	"math/big"
	"math/rand"
	"testing"
)

const (
	g1GenHex   = "97f1d3a73197d7942695638c4fa9ac0fc3688c4f9774b905a14e3a3f171bac586c55e83ff97a1aeffb3af00adb22c6bb"
	g1TwoGHex  = "a572cbea904d67468808c8eb50a9450c9721db309128012543902d0ac358a62ae28f75bb8f1c7c42c39a8c5529bf0f4e"
	g2GenHex   = "93e02b6052719f607dacd3a088274f65596bd0d09920b61ab5da61bbdc7f5049334cf11213945d57e5ac7d055d042b7e024aa2b2f08f0a91260805272dc51051c6e47ad4fa403b02b4510b647ae3d1770bac0326a805bbefd48056c8c121bdb8"
	g2GenSwHex = "824aa2b2f08f0a91260805272dc51051c6e47ad4fa403b02b4510b647ae3d1770bac0326a805bbefd48056c8c121bdb813e02b6052719f607dacd3a088274f65596bd0d09920b61ab5da61bbdc7f5049334cf11213945d57e5ac7d055d042b7e"
)

func unhex(s string) []byte {
	b, err := hex.DecodeString(s)
	if err != nil {
		panic(err)
	}
	return b
}

func randScalar(rng *rand.Rand, bits int) *big.Int {
	b := make([]byte, (bits+7)/8)
	rng.Read(b)
	k := new(big.Int).SetBytes(b)
	return k.Rsh(k, uint(len(b)*8-bits))
}

func seed(i int) []byte { return []byte(fmt.Sprintf("seed-%d", i)) }

var one, two = big.NewInt(1), big.NewInt(2)

func TestConstants(t *testing.T) {
	if !P.ProbablyPrime(20) || !R.ProbablyPrime(20) {
		t.Fatal("p or r not prime")
	}
	if P.BitLen() != 381 || R.BitLen() != 255 || new(big.Int).Mod(P, big.NewInt(4)).Int64() != 3 {
		t.Fatal("unexpected size of p or r")
	}
	// BLS12 parametrisation with z = -0xd201000000010000:
	// r = z^4 - z^2 + 1, p = (z-1)^2 r / 3 + z, h1 = (z-1)^2 / 3.
	z := new(big.Int).Neg(hexInt("d201000000010000"))
	z2 := new(big.Int).Mul(z, z)
	r := new(big.Int).Mul(z2, z2)
	r.Sub(r, z2).Add(r, one)
	zm1sq := new(big.Int).Sub(z, one)
	zm1sq.Mul(zm1sq, zm1sq)
	h1 := new(big.Int).Div(zm1sq, big.NewInt(3))
	p := new(big.Int).Mul(h1, r)
	p.Add(p, z)
	if r.Cmp(R) != 0 || p.Cmp(P) != 0 || h1.Cmp(H1) != 0 {
		t.Fatal("constants do not match the BLS12 parametrisation")
	}
	// Hasse / trace: #E1 = p + 1 - t with t = z + 1; #E2 = h2*r must lie in the Hasse interval of p^2.
	n1 := new(big.Int).Mul(H1, R)
	want := new(big.Int).Sub(P, z) // p + 1 - (z+1)
	if n1.Cmp(want) != 0 {
		t.Fatal("#E1 != p + 1 - t")
	}
	// h2 = (z^8 - 4z^7 + 5z^6 - 4z^4 + 6z^3 - 4z^2 - 4z + 13)/9
	h2 := new(big.Int)
	for _, c := range []int64{1, -4, 5, 0, -4, 6, -4, -4, 13} { // Horner, degree 8 down to 0
		h2.Mul(h2, z).Add(h2, big.NewInt(c))
	}
	h2.Div(h2, big.NewInt(9))
	if h2.Cmp(H2) != 0 {
		t.Fatal("H2 does not match its polynomial in z")
	}
}

func TestFp2(t *testing.T) {
	rng := rand.New(rand.NewSource(1))
	rnd := func() Fp2 { return NewFp2(randScalar(rng, 400), randScalar(rng, 400)) }
	oneF := NewFp2(one, big.NewInt(0))
	u := NewFp2(big.NewInt(0), one)
	if !u.Sqr().Equal(oneF.Neg()) {
		t.Fatal("u^2 != -1")
	}
	for i := 0; i < 200; i++ {
		a, b, c := rnd(), rnd(), rnd()
		if !a.Mul(b).Equal(b.Mul(a)) || !a.Mul(b.Add(c)).Equal(a.Mul(b).Add(a.Mul(c))) {
			t.Fatal("ring laws")
		}
		if !a.Sqr().Equal(a.Mul(a)) || !a.Sub(b).Add(b).Equal(a) || !a.Add(a.Neg()).IsZero() {
			t.Fatal("sqr/sub/neg")
		}
		if !a.Mul(a.Inv()).Equal(oneF) {
			t.Fatal("inv")
		}
		s, ok := a.Sqr().Sqrt()
		if !ok || !(s.Equal(a) || s.Equal(a.Neg())) {
			t.Fatal("sqrt of a square")
		}
		// exactly one of {a, a*nonresidue} is a square, for the non-residue 1+u
		_, ok1 := a.Sqrt()
		_, ok2 := a.Mul(NewFp2(one, one)).Sqrt()
		if ok1 == ok2 {
			t.Fatal("quadratic character")
		}
		if !a.IsZero() && a.isLargest() == a.Neg().isLargest() {
			t.Fatal("isLargest must differ on a and -a")
		}
	}
	// roots with C1 == 0 inputs: a0 a residue, and a0 a non-residue (root is purely imaginary)
	for _, v := range []int64{4, 9, 2, 3, 5, 0} {
		a := NewFp2(big.NewInt(v), big.NewInt(0))
		for _, x := range []Fp2{a, a.Neg()} {
			s, ok := x.Sqrt()
			if !ok || !s.Sqr().Equal(x) {
				t.Fatalf("sqrt(%d) in Fp2", v)
			}
		}
	}
}

func TestGenerators(t *testing.T) {
	g1, g2 := G1Generator(), G2Generator()
	if !g1.IsOnCurve() || !g2.IsOnCurve() || !g1.InSubgroup() || !g2.InSubgroup() {
		t.Fatal("generators not on curve / in subgroup")
	}
	if !g1.Mul(R).Inf || !g2.Mul(R).Inf {
		t.Fatal("R*G != inf")
	}
	rm1 := new(big.Int).Sub(R, one)
	if !g1.Mul(rm1).Equal(g1.Neg()) || !g2.Mul(rm1).Equal(g2.Neg()) {
		t.Fatal("(R-1)*G != -G")
	}
	rp1 := new(big.Int).Add(R, one)
	if !g1.Mul(rp1).Equal(g1) || !g2.Mul(rp1).Equal(g2) {
		t.Fatal("(R+1)*G != G")
	}
	if !g1.Add(g1).Equal(g1.Mul(two)) || !g2.Add(g2).Equal(g2.Mul(two)) {
		t.Fatal("G+G != 2G")
	}
	if !g1.Add(g1.Neg()).Inf || !g2.Add(g2.Neg()).Inf {
		t.Fatal("G + (-G) != inf")
	}
	if !g1.Add(G1Infinity()).Equal(g1) || !G2Infinity().Add(g2).Equal(g2) || !G1Infinity().Add(G1Infinity()).Inf {
		t.Fatal("infinity is not neutral")
	}
	if !g1.Mul(big.NewInt(0)).Inf || !g2.Mul(big.NewInt(0)).Inf || !G1Infinity().Mul(R).Inf || !G1Infinity().Neg().Inf {
		t.Fatal("0*G / k*inf")
	}
	if g1.Equal(G1Infinity()) || !G1Infinity().Equal(G1{Inf: true}) || !G2Infinity().Equal(G2{Inf: true}) {
		t.Fatal("Equal with infinity")
	}
	if !(G1{Inf: true}).IsOnCurve() || !(G2{Inf: true}).InSubgroup() {
		t.Fatal("infinity counts as on curve / in subgroup")
	}
	bad := G1Generator()
	bad.Y = new(big.Int).Add(bad.Y, one)
	if bad.IsOnCurve() || bad.InSubgroup() {
		t.Fatal("off-curve point accepted")
	}
	nonCanon := G1Generator()
	nonCanon.X = new(big.Int).Add(nonCanon.X, P)
	if nonCanon.IsOnCurve() {
		t.Fatal("non-canonical coordinate accepted by IsOnCurve")
	}
}

// naive affine double-and-add (right-to-left) using only Add, as a cross-check of Mul.
func naiveMul1(p G1, k *big.Int) G1 {
	acc := G1Infinity()
	for i := 0; i < k.BitLen(); i++ {
		if k.Bit(i) == 1 {
			acc = acc.Add(p)
		}
		p = p.Add(p)
	}
	return acc
}
func naiveMul2(p G2, k *big.Int) G2 {
	acc := G2Infinity()
	for i := 0; i < k.BitLen(); i++ {
		if k.Bit(i) == 1 {
			acc = acc.Add(p)
		}
		p = p.Add(p)
	}
	return acc
}

func TestGroupLaws(t *testing.T) {
	rng := rand.New(rand.NewSource(2))
	for i := 0; i < 10; i++ {
		a, b := randScalar(rng, 255), randScalar(rng, 300)
		sum, prod := new(big.Int).Add(a, b), new(big.Int).Mul(a, b)
		// on full-curve points (not in the subgroup): scalars must not be reduced mod R
		p1, q1 := G1CurvePoint(seed(i)), G1CurvePoint(seed(i+100))
		if !p1.Mul(a).Add(p1.Mul(b)).Equal(p1.Mul(sum)) || !p1.Mul(a).Mul(b).Equal(p1.Mul(prod)) {
			t.Fatal("G1 scalar laws")
		}
		if !p1.Add(q1).Equal(q1.Add(p1)) || !p1.Add(q1).Mul(a).Equal(p1.Mul(a).Add(q1.Mul(a))) || !p1.Add(q1).IsOnCurve() {
			t.Fatal("G1 add laws")
		}
		if !p1.Mul(a).Equal(naiveMul1(p1, a)) {
			t.Fatal("G1 Mul != naive")
		}
		if p1.Mul(new(big.Int).Mod(a, R)).Equal(p1.Mul(new(big.Int).Add(a, R))) {
			t.Fatal("G1: k and k+R must differ outside the subgroup")
		}
		p2, q2 := G2CurvePoint(seed(i)), G2CurvePoint(seed(i+100))
		if !p2.Mul(a).Add(p2.Mul(b)).Equal(p2.Mul(sum)) || !p2.Mul(a).Mul(b).Equal(p2.Mul(prod)) {
			t.Fatal("G2 scalar laws")
		}
		if !p2.Add(q2).Equal(q2.Add(p2)) || !p2.Add(q2).Mul(a).Equal(p2.Mul(a).Add(q2.Mul(a))) || !p2.Add(q2).IsOnCurve() {
			t.Fatal("G2 add laws")
		}
		if !p2.Mul(a).Equal(naiveMul2(p2, a)) {
			t.Fatal("G2 Mul != naive")
		}
	}
}

func TestSpecialPoints(t *testing.T) {
	n1, n2 := new(big.Int).Mul(H1, R), new(big.Int).Mul(H2, R)
	for i := 0; i < 4; i++ {
		c1, c2 := G1CurvePoint(seed(i)), G2CurvePoint(seed(i))
		if !c1.IsOnCurve() || c1.Inf || c1.InSubgroup() || !c1.Mul(n1).Inf || !c1.Equal(G1CurvePoint(seed(i))) {
			t.Fatal("G1CurvePoint")
		}
		if !c2.IsOnCurve() || c2.Inf || c2.InSubgroup() || !c2.Mul(n2).Inf || !c2.Equal(G2CurvePoint(seed(i))) {
			t.Fatal("G2CurvePoint")
		}
		if c1.Equal(G1CurvePoint(seed(i+1))) || c2.Equal(G2CurvePoint(seed(i+1))) {
			t.Fatal("different seeds give equal points")
		}
		t1, t2 := G1TorsionPoint(seed(i)), G2TorsionPoint(seed(i))
		if !t1.IsOnCurve() || t1.Inf || t1.InSubgroup() || t1.Mul(R).Inf || !t1.Mul(H1).Inf || !t1.Equal(c1.Mul(R)) {
			t.Fatal("G1TorsionPoint")
		}
		if !t2.IsOnCurve() || t2.Inf || t2.InSubgroup() || t2.Mul(R).Inf || !t2.Mul(H2).Inf || !t2.Equal(c2.Mul(R)) {
			t.Fatal("G2TorsionPoint")
		}
		s1, s2 := G1SubgroupPoint(seed(i)), G2SubgroupPoint(seed(i))
		if s1.Inf || !s1.InSubgroup() || s2.Inf || !s2.InSubgroup() {
			t.Fatal("SubgroupPoint")
		}
		m1, m2 := s1.Add(t1), s2.Add(t2)
		if !m1.IsOnCurve() || m1.InSubgroup() || !m2.IsOnCurve() || m2.InSubgroup() {
			t.Fatal("subgroup + torsion must be on curve and outside the subgroup")
		}
		// H*(s+T) == H*s: clearing the cofactor removes the torsion part
		if !m1.Mul(H1).Equal(s1.Mul(H1)) || !m2.Mul(H2).Equal(s2.Mul(H2)) {
			t.Fatal("cofactor clearing")
		}
	}
	for _, l := range []int64{3, 11} {
		for i := 0; i < 3; i++ {
			q, ok := G1SmallOrderPoint(l, seed(i))
			if !ok || q.Inf || !q.IsOnCurve() || !q.Mul(big.NewInt(l)).Inf || q.InSubgroup() {
				t.Fatalf("G1 small order %d", l)
			}
			if !q.Add(G1Generator()).IsOnCurve() || q.Add(G1Generator()).InSubgroup() {
				t.Fatal("G + small-order point")
			}
		}
	}
	for _, l := range []int64{13, 23} {
		for i := 0; i < 3; i++ {
			q, ok := G2SmallOrderPoint(l, seed(i))
			if !ok || q.Inf || !q.IsOnCurve() || !q.Mul(big.NewInt(l)).Inf || q.InSubgroup() {
				t.Fatalf("G2 small order %d", l)
			}
		}
	}
	for _, l := range []int64{0, 1, 2, 5, 7, 13, 9, 33} {
		if _, ok := G1SmallOrderPoint(l, nil); ok {
			t.Fatalf("G1 has no point of prime order %d", l)
		}
	}
	for _, l := range []int64{-3, 2, 3, 11, 169} {
		if _, ok := G2SmallOrderPoint(l, nil); ok {
			t.Fatalf("G2 has no point of prime order %d", l)
		}
	}
}

func TestKnownVectors(t *testing.T) {
	g1, g2 := G1Generator(), G2Generator()
	if got := G1Compress(g1); !bytes.Equal(got, unhex(g1GenHex)) {
		t.Fatalf("G1 generator: %x", got)
	}
	if got := G1Compress(g1.Mul(two)); !bytes.Equal(got, unhex(g1TwoGHex)) {
		t.Fatalf("2*G1: %x", got)
	}
	neg := G1Compress(g1.Neg())
	if neg[0] != 0xb7 || !bytes.Equal(neg[1:], unhex(g1GenHex)[1:]) {
		t.Fatalf("-G1: %x", neg)
	}
	if got := G2Compress(g2, false); !bytes.Equal(got, unhex(g2GenHex)) {
		t.Fatalf("G2 generator: %x", got)
	}
	sw := G2Compress(g2, true)
	if !bytes.Equal(sw, unhex(g2GenSwHex)) {
		t.Fatalf("G2 generator swapped: %x", sw)
	}
	std := unhex(g2GenHex)
	if sw[0] != 0x82 || sw[48] != 0x13 || !bytes.Equal(sw[1:48], std[49:]) || !bytes.Equal(sw[49:], std[1:48]) {
		t.Fatal("swapped layout")
	}
	if got := G2Compress(g2.Neg(), false); got[0] != 0xb3 || !bytes.Equal(got[1:], std[1:]) {
		t.Fatalf("-G2: %x", got)
	}
	inf1 := append([]byte{0xc0}, make([]byte, 47)...)
	inf2 := append([]byte{0xc0}, make([]byte, 95)...)
	if !bytes.Equal(G1Compress(G1Infinity()), inf1) || !bytes.Equal(G2Compress(G2Infinity(), false), inf2) ||
		!bytes.Equal(G2Compress(G2{Inf: true}, true), inf2) {
		t.Fatal("infinity encoding")
	}
}

func TestRoundTrip(t *testing.T) {
	pts1 := []G1{G1Infinity(), G1Generator(), G1Generator().Neg()}
	pts2 := []G2{G2Infinity(), G2Generator(), G2Generator().Neg()}
	for i := 0; i < 20; i++ {
		pts1 = append(pts1, G1CurvePoint(seed(i)), G1Generator().Mul(big.NewInt(int64(i+2))))
		pts2 = append(pts2, G2CurvePoint(seed(i)), G2Generator().Mul(big.NewInt(int64(i+2))))
	}
	for _, l := range []int64{3, 11} {
		q, _ := G1SmallOrderPoint(l, nil)
		pts1 = append(pts1, q, q.Neg(), G1TorsionPoint(seed(int(l))), G1SubgroupPoint(seed(int(l))))
	}
	for _, l := range []int64{13, 23} {
		q, _ := G2SmallOrderPoint(l, nil)
		pts2 = append(pts2, q, q.Neg(), G2TorsionPoint(seed(int(l))), G2SubgroupPoint(seed(int(l))))
	}
	signs := 0
	for _, p := range pts1 {
		b := G1Compress(p)
		q, err := G1Decompress(b)
		if err != nil || !q.Equal(p) || !bytes.Equal(G1Compress(q), b) || len(b) != 48 {
			t.Fatalf("G1 round trip %x: %v", b, err)
		}
		if !p.Inf && !bytes.Equal(G1Compress(p.Neg())[1:], b[1:]) || !p.Inf && G1Compress(p.Neg())[0] != b[0]^FlagSign {
			t.Fatal("G1: -p must differ from p in the sign flag only")
		}
		signs += int(b[0] & FlagSign)
	}
	for _, p := range pts2 {
		for _, swapped := range []bool{false, true} {
			b := G2Compress(p, swapped)
			q, err := G2Decompress(b, swapped)
			if err != nil || !q.Equal(p) || !bytes.Equal(G2Compress(q, swapped), b) || len(b) != 96 {
				t.Fatalf("G2 round trip %x: %v", b, err)
			}
			if !p.Inf && G2Compress(p.Neg(), swapped)[0] != b[0]^FlagSign {
				t.Fatal("G2: -p must differ from p in the sign flag")
			}
		}
		// the two layouts are related by exchanging halves and moving the flags
		a, s := G2Compress(p, false), G2Compress(p, true)
		flags := a[0] & flagMask
		a[0] &^= flagMask
		ex := append(append([]byte(nil), a[48:]...), a[:48]...)
		ex[0] |= flags
		if !bytes.Equal(ex, s) {
			t.Fatal("swapped layout relation")
		}
	}
	if signs == 0 {
		t.Fatal("no point with sign flag exercised")
	}
}

// The Fp2 sign rule at the field level and, with hand-made (off-curve) points,
// at the encoding level (compression only looks at y). Genuine curve points
// with y.C1 == 0 are covered by TestG2PointYC1Zero.
func TestFp2SignRule(t *testing.T) {
	big1 := new(big.Int).Sub(P, one) // largest
	cases := []struct {
		c0, c1 *big.Int
		want   bool
	}{
		{one, big.NewInt(0), false}, {big1, big.NewInt(0), true},
		{big1, one, false}, {one, big1, true},
		{pMinus1Half, big.NewInt(0), false}, {new(big.Int).Add(pMinus1Half, one), big.NewInt(0), true},
		{big.NewInt(0), pMinus1Half, false}, {big.NewInt(0), new(big.Int).Add(pMinus1Half, one), true},
		{big.NewInt(0), big.NewInt(0), false},
	}
	for i, c := range cases {
		y := Fp2{c.c0, c.c1}
		if y.isLargest() != c.want {
			t.Fatalf("case %d", i)
		}
		b := G2Compress(G2{X: Fp2{one, two}, Y: y}, false)
		if (b[0]&FlagSign != 0) != c.want {
			t.Fatalf("case %d: sign flag", i)
		}
	}
}

func TestDecompressRejects(t *testing.T) {
	g1, g2 := unhex(g1GenHex), unhex(g2GenHex)
	mod := func(b []byte, f func(c []byte)) []byte { c := append([]byte(nil), b...); f(c); return c }
	pBytes := P.FillBytes(make([]byte, 48))
	pPlus := new(big.Int).Add(P, big.NewInt(4)).FillBytes(make([]byte, 48)) // p+4: x=4 would be on the curve? irrelevant, must be rejected as >= p
	// find a non-residue abscissa for G1 and G2
	var nr1, nr2 *big.Int
	for x := int64(0); nr1 == nil || nr2 == nil; x++ {
		fx := newFp(big.NewInt(x))
		if _, ok := fx.Sqr().Mul(fx).Add(e1.b).sqrt(); !ok && nr1 == nil {
			nr1 = big.NewInt(x)
		}
		f2 := NewFp2(big.NewInt(x), big.NewInt(0))
		if _, ok := f2.Sqr().Mul(f2).Add(e2.b).Sqrt(); !ok && nr2 == nil {
			nr2 = big.NewInt(x)
		}
	}
	bad1 := map[string][]byte{
		"empty":              {},
		"short":              g1[:47],
		"long":               append(append([]byte(nil), g1...), 0),
		"g2 length":          g2,
		"uncompressed flag":  mod(g1, func(c []byte) { c[0] &^= 0x80 }),
		"all zero":           make([]byte, 48),
		"inf uncompressed":   mod(make([]byte, 48), func(c []byte) { c[0] = 0x40 }),
		"inf + sign":         mod(make([]byte, 48), func(c []byte) { c[0] = 0xe0 }),
		"inf + payload last": mod(make([]byte, 48), func(c []byte) { c[0] = 0xc0; c[47] = 1 }),
		"inf + payload b0":   mod(make([]byte, 48), func(c []byte) { c[0] = 0xc1 }),
		"inf flag on gen":    mod(g1, func(c []byte) { c[0] |= 0x40 }),
		"x = p":              mod(pBytes, func(c []byte) { c[0] |= 0x80 }),
		"x = p + 4":          mod(pPlus, func(c []byte) { c[0] |= 0x80 }),
		"x = 2^381-1": mod(make([]byte, 48), func(c []byte) {
			for i := range c {
				c[i] = 0xff
			}
			c[0] = 0x9f
		}),
		"non-residue":        mod(nr1.FillBytes(make([]byte, 48)), func(c []byte) { c[0] |= 0x80 }),
		"non-residue + sign": mod(nr1.FillBytes(make([]byte, 48)), func(c []byte) { c[0] |= 0xa0 }),
	}
	for name, b := range bad1 {
		if _, err := G1Decompress(b); err == nil {
			t.Errorf("G1Decompress accepted %q: %x", name, b)
		}
	}
	nr2b := append(make([]byte, 48), nr2.FillBytes(make([]byte, 48))...) // standard order: C1 = 0 first
	bad2 := map[string][]byte{
		"empty":              {},
		"short":              g2[:95],
		"long":               append(append([]byte(nil), g2...), 0),
		"g1 length":          g1,
		"uncompressed flag":  mod(g2, func(c []byte) { c[0] &^= 0x80 }),
		"all zero":           make([]byte, 96),
		"inf + sign":         mod(make([]byte, 96), func(c []byte) { c[0] = 0xe0 }),
		"inf + payload last": mod(make([]byte, 96), func(c []byte) { c[0] = 0xc0; c[95] = 1 }),
		"inf + payload 48":   mod(make([]byte, 96), func(c []byte) { c[0] = 0xc0; c[48] = 0x80 }),
		"inf + payload b0":   mod(make([]byte, 96), func(c []byte) { c[0] = 0xc1 }),
		"inf flag on gen":    mod(g2, func(c []byte) { c[0] |= 0x40 }),
		"first = p":          mod(g2, func(c []byte) { copy(c, pBytes); c[0] |= 0x80 }),
		"second = p":         mod(g2, func(c []byte) { copy(c[48:], pBytes) }),
		"flag bits in 48":    mod(g2, func(c []byte) { c[48] |= 0x80 }),
		"flag bit 5 in 48":   mod(g2, func(c []byte) { c[48] |= 0x20 }),
		"non-residue":        mod(nr2b, func(c []byte) { c[0] |= 0x80 }),
	}
	for name, b := range bad2 {
		for _, swapped := range []bool{false, true} {
			if name == "non-residue" && swapped {
				continue // (C0,C1) = (0, nr2) is a different abscissa
			}
			if _, err := G2Decompress(b, swapped); err == nil {
				t.Errorf("G2Decompress(swapped=%v) accepted %q: %x", swapped, name, b)
			}
		}
	}
	// the standard encoding of the generator read in the other layout is a different
	// abscissa; whatever the outcome it must not decode to the generator
	if q, err := G2Decompress(g2, true); err == nil && q.Equal(G2Generator()) {
		t.Fatal("layouts confused")
	}
	// largest valid abscissa below p decodes, and x = p-1+1 does not (boundary)
	for x := new(big.Int).Sub(P, one); ; x.Sub(x, one) {
		b := mod(x.FillBytes(make([]byte, 48)), func(c []byte) { c[0] |= 0x80 })
		if q, err := G1Decompress(b); err == nil {
			if !q.IsOnCurve() || q.X.Cmp(x) != 0 || newFp(q.Y).isLargest() {
				t.Fatal("boundary abscissa")
			}
			break
		}
	}
}

func TestDecompressSignSelection(t *testing.T) {
	for i := 0; i < 10; i++ {
		p := G1CurvePoint(seed(i))
		b := G1Compress(p)
		b[0] ^= FlagSign
		if q, err := G1Decompress(b); err != nil || !q.Equal(p.Neg()) {
			t.Fatal("G1 sign flip")
		}
		p2 := G2CurvePoint(seed(i))
		b2 := G2Compress(p2, true)
		b2[0] ^= FlagSign
		if q, err := G2Decompress(b2, true); err != nil || !q.Equal(p2.Neg()) {
			t.Fatal("G2 sign flip")
		}
	}
}

func BenchmarkG1Mul(b *testing.B) {
	k := randScalar(rand.New(rand.NewSource(3)), 255)
	k.SetBit(k, 254, 1)
	g := G1Generator()
	for i := 0; i < b.N; i++ {
		g.Mul(k)
	}
}

func BenchmarkG2Mul(b *testing.B) {
	k := randScalar(rand.New(rand.NewSource(3)), 255)
	k.SetBit(k, 254, 1)
	g := G2Generator()
	for i := 0; i < b.N; i++ {
		g.Mul(k)
	}
}

func TestG2PointYC1Zero(t *testing.T) {
	var nine = big.NewInt(9)
	tt := new(big.Int).Mul(P, P)
	tt.Sub(tt, one)
	if new(big.Int).Mod(tt, nine).Sign() != 0 || new(big.Int).Mod(tt, big.NewInt(27)).Sign() == 0 {
		t.Fatal("3-adic valuation of p^2-1 is not 2")
	}
	w := NewFp2(one, one).Exp(tt.Div(tt, nine))
	if w.Exp(big.NewInt(3)).Equal(e2.one) || !w.Exp(nine).Equal(e2.one) {
		t.Fatal("(1+u)^t is not a primitive 9th root of unity")
	}
	larger, smaller := 0, 0
	for i := 0; i < 8; i++ {
		p := G2PointYC1Zero(seed(i))
		if p.Inf || !p.IsOnCurve() || p.Y.C1.Sign() != 0 || p.Y.C0.Sign() == 0 || p.InSubgroup() {
			t.Fatal("G2PointYC1Zero")
		}
		for _, q := range []G2{p, p.Neg()} {
			b := G2Compress(q, false)
			if (b[0]&FlagSign != 0) != (q.Y.C0.Cmp(pMinus1Half) > 0) {
				t.Fatal("sign flag must follow C0 when C1 == 0")
			}
			if r, err := G2Decompress(b, false); err != nil || !r.Equal(q) {
				t.Fatal("round trip of a point with y.C1 == 0")
			}
		}
		if p.Y.C0.Cmp(pMinus1Half) > 0 {
			larger++
		} else {
			smaller++
		}
	}
	t.Logf("y.C0 larger: %d, smaller: %d", larger, smaller)
}
