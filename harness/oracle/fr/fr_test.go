package fr

import (
	"math/big"
	"math/rand"
	"testing"
)

func bi(x int64) *big.Int { return big.NewInt(x) }

func eq(a, b *big.Int) bool { return Reduce(a).Cmp(Reduce(b)) == 0 }

func randFr(rng *rand.Rand) *big.Int {
	b := make([]byte, 40)
	rng.Read(b)
	return Reduce(new(big.Int).SetBytes(b))
}

func TestArithmetic(t *testing.T) {
	if !R.ProbablyPrime(20) || R.BitLen() != 255 {
		t.Fatal("R")
	}
	rm1 := new(big.Int).Sub(R, bi(1))
	if !eq(Add(rm1, bi(1)), bi(0)) || !eq(Sub(bi(0), bi(1)), rm1) || !eq(Neg(bi(1)), rm1) || Neg(bi(0)).Sign() != 0 {
		t.Fatal("add/sub/neg wraparound")
	}
	if !eq(Mul(rm1, rm1), bi(1)) || !eq(Mul(bi(-2), bi(3)), new(big.Int).Sub(R, bi(6))) {
		t.Fatal("mul")
	}
	if !eq(Mul(Inv(bi(2)), bi(2)), bi(1)) || !eq(Inv(bi(1)), bi(1)) || !eq(Inv(rm1), rm1) {
		t.Fatal("inv")
	}
	// 2^-1 = (R+1)/2
	if !eq(Inv(bi(2)), new(big.Int).Rsh(new(big.Int).Add(R, bi(1)), 1)) {
		t.Fatal("inv 2")
	}
	rng := rand.New(rand.NewSource(1))
	for i := 0; i < 100; i++ {
		a, b, c := randFr(rng), randFr(rng), randFr(rng)
		if !eq(Mul(a, Add(b, c)), Add(Mul(a, b), Mul(a, c))) || !eq(Sub(Add(a, b), b), a) || !eq(Add(a, Neg(a)), bi(0)) {
			t.Fatal("field laws")
		}
		if a.Sign() != 0 && !eq(Mul(a, Inv(a)), bi(1)) {
			t.Fatal("inverse")
		}
		for _, v := range []*big.Int{Add(a, b), Sub(a, b), Mul(a, b), Neg(a)} {
			if v.Sign() < 0 || v.Cmp(R) >= 0 {
				t.Fatal("result not reduced")
			}
		}
	}
	defer func() {
		if recover() == nil {
			t.Fatal("Inv(0) must panic")
		}
	}()
	Inv(new(big.Int).Set(R))
}

func TestEvalPoly(t *testing.T) {
	f := []*big.Int{bi(1), bi(2), bi(3)} // 1 + 2x + 3x^2
	for x, want := range map[int64]int64{0: 1, 1: 6, 2: 17, -1: 2, 10: 321} {
		if !eq(EvalPoly(f, x), bi(want)) {
			t.Fatalf("f(%d)", x)
		}
	}
	if EvalPoly(nil, 5).Sign() != 0 || !eq(EvalPoly([]*big.Int{bi(7)}, 5), bi(7)) {
		t.Fatal("degenerate polynomials")
	}
}

func TestLagrangeHand(t *testing.T) {
	// nodes 1,2: l_1(0) = 2/(2-1) = 2, l_2(0) = 1/(1-2) = -1
	l := LagrangeAtZero([]int64{1, 2})
	if !eq(l[0], bi(2)) || !eq(l[1], bi(-1)) {
		t.Fatal("nodes {1,2}")
	}
	// nodes 1,2,3: 3, -3, 1
	l = LagrangeAtZero([]int64{1, 2, 3})
	if !eq(l[0], bi(3)) || !eq(l[1], bi(-3)) || !eq(l[2], bi(1)) {
		t.Fatal("nodes {1,2,3}")
	}
	// nodes 2,4: l = 4/(4-2) = 2, 2/(2-4) = -1
	l = LagrangeAtZero([]int64{2, 4})
	if !eq(l[0], bi(2)) || !eq(l[1], bi(-1)) {
		t.Fatal("nodes {2,4}")
	}
	// nodes 1,3 at 2: l_1 = (2-3)/(1-3) = 1/2, l_3 = (2-1)/(3-1) = 1/2
	l = LagrangeAt([]int64{1, 3}, 2)
	if !eq(l[0], Inv(bi(2))) || !eq(l[1], Inv(bi(2))) {
		t.Fatal("nodes {1,3} at 2")
	}
	// evaluating at a node gives the indicator vector; a single node gives 1
	l = LagrangeAt([]int64{5, 6, 7}, 6)
	if !eq(l[0], bi(0)) || !eq(l[1], bi(1)) || !eq(l[2], bi(0)) || !eq(LagrangeAtZero([]int64{9})[0], bi(1)) {
		t.Fatal("indicator")
	}
	if len(LagrangeAtZero(nil)) != 0 {
		t.Fatal("empty")
	}
}

func TestInterpolateHand(t *testing.T) {
	// through (1,6),(2,17),(3,34): 1 + 2x + 3x^2
	c := Interpolate([]int64{1, 2, 3}, []*big.Int{bi(6), bi(17), bi(34)})
	if len(c) != 3 || !eq(c[0], bi(1)) || !eq(c[1], bi(2)) || !eq(c[2], bi(3)) {
		t.Fatalf("quadratic: %v", c)
	}
	// line through (0,5),(2,9): 5 + 2x ; node 0 is allowed
	c = Interpolate([]int64{0, 2}, []*big.Int{bi(5), bi(9)})
	if !eq(c[0], bi(5)) || !eq(c[1], bi(2)) {
		t.Fatal("line")
	}
	// constant data on 4 nodes: degree collapses, higher coefficients are zero
	c = Interpolate([]int64{1, 2, 3, 4}, []*big.Int{bi(7), bi(7), bi(7), bi(7)})
	if !eq(c[0], bi(7)) || c[1].Sign() != 0 || c[2].Sign() != 0 || c[3].Sign() != 0 {
		t.Fatal("constant")
	}
	if c = Interpolate([]int64{3}, []*big.Int{bi(4)}); len(c) != 1 || !eq(c[0], bi(4)) {
		t.Fatal("single node")
	}
	if len(Interpolate(nil, nil)) != 0 {
		t.Fatal("empty")
	}
}

func TestLagrangeRandom(t *testing.T) {
	rng := rand.New(rand.NewSource(2))
	for iter := 0; iter < 50; iter++ {
		n := 1 + rng.Intn(12)
		coefs := make([]*big.Int, n)
		for i := range coefs {
			coefs[i] = randFr(rng)
		}
		// n distinct non-zero nodes, in random order, possibly negative
		perm := rng.Perm(40)
		xs := make([]int64, n)
		ys := make([]*big.Int, n)
		for i := range xs {
			xs[i] = int64(perm[i] + 1)
			if rng.Intn(4) == 0 {
				xs[i] = -xs[i] - 100
			}
			ys[i] = EvalPoly(coefs, xs[i])
		}
		at := int64(rng.Intn(200) - 100)
		sum0, sumAt, ones := new(big.Int), new(big.Int), new(big.Int)
		l0, lat := LagrangeAtZero(xs), LagrangeAt(xs, at)
		for i := range xs {
			sum0 = Add(sum0, Mul(l0[i], ys[i]))
			sumAt = Add(sumAt, Mul(lat[i], ys[i]))
			ones = Add(ones, l0[i])
		}
		if !eq(sum0, coefs[0]) || !eq(sumAt, EvalPoly(coefs, at)) || !eq(ones, bi(1)) {
			t.Fatal("sum l_i f(x_i) != f(at)")
		}
		back := Interpolate(xs, ys)
		for i := range coefs {
			if !eq(back[i], coefs[i]) {
				t.Fatal("Interpolate does not recover the polynomial")
			}
		}
		// more nodes than the degree: extra coefficients vanish
		if n >= 2 {
			low := Interpolate(xs, func() []*big.Int {
				v := make([]*big.Int, n)
				for i := range v {
					v[i] = EvalPoly(coefs[:n-1], xs[i])
				}
				return v
			}())
			if low[n-1].Sign() != 0 {
				t.Fatal("leading coefficient should vanish")
			}
		}
	}
}

func TestDuplicateNodesPanic(t *testing.T) {
	for name, f := range map[string]func(){
		"lagrange":    func() { LagrangeAtZero([]int64{1, 2, 1}) },
		"interpolate": func() { Interpolate([]int64{3, 3}, []*big.Int{bi(1), bi(1)}) },
	} {
		func() {
			defer func() {
				if recover() == nil {
					t.Errorf("%s: duplicate nodes must panic", name)
				}
			}()
			f()
		}()
	}
}
