// Package fr is a reference implementation of arithmetic in the scalar field
// Fr of BLS12-381 (integers mod R) and of polynomial evaluation / Lagrange
// interpolation over it. It is a TEST ORACLE built on math/big: clear, not
// constant time. All results are fresh values reduced into [0,R); arguments
// may be any integers (negative or unreduced) and are never modified.
package fr

import (
	"fmt"
	"math/big"
)

// R is the order of the BLS12-381 groups G1, G2.
var R, _ = new(big.Int).SetString("73eda753299d7d483339d80809a1d80553bda402fffe5bfeffffffff00000001", 16)

func Reduce(a *big.Int) *big.Int { return new(big.Int).Mod(a, R) }
func FromInt64(x int64) *big.Int { return Reduce(big.NewInt(x)) }
func Add(a, b *big.Int) *big.Int { return Reduce(new(big.Int).Add(a, b)) }
func Sub(a, b *big.Int) *big.Int { return Reduce(new(big.Int).Sub(a, b)) }
func Mul(a, b *big.Int) *big.Int { return Reduce(new(big.Int).Mul(a, b)) }
func Neg(a *big.Int) *big.Int    { return Reduce(new(big.Int).Neg(a)) }

// Inv returns a^-1 mod R. It panics if a = 0 mod R.
func Inv(a *big.Int) *big.Int {
	r := new(big.Int).ModInverse(Reduce(a), R)
	if r == nil {
		panic("fr: inverse of zero")
	}
	return r
}

// EvalPoly returns coefs[0] + coefs[1] x + coefs[2] x^2 + ... (Horner).
// The empty polynomial evaluates to 0.
func EvalPoly(coefs []*big.Int, x int64) *big.Int {
	acc, xx := new(big.Int), FromInt64(x)
	for i := len(coefs) - 1; i >= 0; i-- {
		acc = Add(Mul(acc, xx), coefs[i])
	}
	return acc
}

// LagrangeAt returns the Lagrange basis polynomials for the nodes xs evaluated
// at the point at:  l_i = prod_{j != i} (at - x_j)/(x_i - x_j), so that
// f(at) = sum_i l_i f(x_i) for every polynomial f of degree < len(xs).
// The xs must be distinct mod R (panics otherwise).
func LagrangeAt(xs []int64, at int64) []*big.Int {
	out := make([]*big.Int, len(xs))
	a := FromInt64(at)
	for i, xi := range xs {
		num, den := big.NewInt(1), big.NewInt(1)
		for j, xj := range xs {
			if j == i {
				continue
			}
			num = Mul(num, Sub(a, FromInt64(xj)))
			den = Mul(den, Sub(FromInt64(xi), FromInt64(xj)))
		}
		if den.Sign() == 0 {
			panic(fmt.Sprintf("fr: duplicate interpolation node %d", xi))
		}
		out[i] = Mul(num, Inv(den))
	}
	return out
}

// LagrangeAtZero returns l_i = prod_{j != i} x_j/(x_j - x_i), the coefficients
// recovering f(0) from the values f(x_i).
func LagrangeAtZero(xs []int64) []*big.Int { return LagrangeAt(xs, 0) }

// Interpolate returns the coefficients c[0..n-1] (constant term first, n =
// len(xs) = len(ys)) of the unique polynomial of degree < n with f(xs[i]) =
// ys[i]. The xs must be distinct mod R (panics otherwise).
//
// f = sum_i ys[i]/d_i * M(X)/(X - x_i) with M = prod_j (X - x_j) and
// d_i = prod_{j != i} (x_i - x_j).
func Interpolate(xs []int64, ys []*big.Int) []*big.Int {
	n := len(xs)
	if len(ys) != n {
		panic("fr: Interpolate needs as many values as nodes")
	}
	// master polynomial M, degree n, monic
	m := []*big.Int{big.NewInt(1)}
	for _, xj := range xs {
		next := make([]*big.Int, len(m)+1)
		for k := range next {
			next[k] = new(big.Int)
		}
		for k, c := range m { // (sum c X^k)(X - xj)
			next[k+1] = Add(next[k+1], c)
			next[k] = Sub(next[k], Mul(c, FromInt64(xj)))
		}
		m = next
	}
	out := make([]*big.Int, n)
	for k := range out {
		out[k] = new(big.Int)
	}
	for i, xi := range xs {
		x := FromInt64(xi)
		d := big.NewInt(1)
		for j, xj := range xs {
			if j != i {
				d = Mul(d, Sub(x, FromInt64(xj)))
			}
		}
		if d.Sign() == 0 {
			panic(fmt.Sprintf("fr: duplicate interpolation node %d", xi))
		}
		scale := Mul(ys[i], Inv(d))
		// synthetic division of M by (X - x): q[n-1] = m[n], q[k-1] = m[k] + x q[k]
		q := new(big.Int).Set(m[n])
		for k := n - 1; k >= 0; k-- {
			out[k] = Add(out[k], Mul(scale, q))
			q = Add(m[k], Mul(x, q))
		}
		if q.Sign() != 0 { // remainder M(x_i) must vanish
			panic("fr: internal error in Interpolate")
		}
	}
	return out
}
