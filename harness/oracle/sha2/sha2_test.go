package sha2

import (
	"bytes"
	"crypto/hkdf"
	"crypto/hmac"
	"crypto/sha256"
	"crypto/sha512"
	"encoding/hex"
	"math/rand"
	"testing"
)

func unhex(t *testing.T, s string) []byte {
	t.Helper()
	b, err := hex.DecodeString(s)
	if err != nil {
		t.Fatal(err)
	}
	return b
}

func check(t *testing.T, name string, got []byte, wantHex string) {
	t.Helper()
	if !bytes.Equal(got, unhex(t, wantHex)) {
		t.Errorf("%s: got %x want %s", name, got, wantHex)
	}
}

func seq(from, n int) []byte {
	b := make([]byte, n)
	for i := range b {
		b[i] = byte(from + i)
	}
	return b
}

func TestDerivedConstants(t *testing.T) {
	if k256[0] != 0x428a2f98 || k256[63] != 0xc67178f2 || h256[0] != 0x6a09e667 || h256[7] != 0x5be0cd19 {
		t.Error("SHA-256 constants")
	}
	if k512[0] != 0x428a2f98d728ae22 || k512[79] != 0x6c44198c4a475817 || h384[0] != 0xcbbb9d5dc1059ed8 || h384[7] != 0x47b5481dbefa4fa4 {
		t.Error("SHA-512/384 constants")
	}
}

func TestFIPS180Vectors(t *testing.T) {
	check(t, "SHA-256 empty", SHA256(nil), "e3b0c44298fc1c149afbf4c8996fb92427ae41e4649b934ca495991b7852b855")
	check(t, "SHA-256 abc", SHA256([]byte("abc")), "ba7816bf8f01cfea414140de5dae2223b00361a396177a9cb410ff61f20015ad")
	check(t, "SHA-256 448 bits", SHA256([]byte("abcdbcdecdefdefgefghfghighijhijkijkljklmklmnlmnomnopnopq")),
		"248d6a61d20638b8e5c026930c3e6039a33ce45964ff2167f6ecedd419db06c1")
	check(t, "SHA-384 empty", SHA384(nil), "38b060a751ac96384cd9327eb1b1e36a21fdb71114be07434c0cc7bf63f6e1da274edebfe76f65fbd51ad2f14898b95b")
	check(t, "SHA-384 abc", SHA384([]byte("abc")), "cb00753f45a35e8bb5a03d699ac65007272c32ab0eded1631a8b605a43ff5bed8086072ba1e7cc2358baeca134c825a7")
	check(t, "SHA-384 896 bits", SHA384([]byte("abcdefghbcdefghicdefghijdefghijkefghijklfghijklmghijklmnhijklmnoijklmnopjklmnopqklmnopqrlmnopqrsmnopqrstnopqrstu")),
		"09330c33f71147e83d192fc782cd1b4753111b173b3b05d22fa08086e3b0f712fcc7c71a557e2db966c3e9fa91746039")
	check(t, "SHA-256 1M a", SHA256(bytes.Repeat([]byte("a"), 1000000)), "cdc76e5c9914fb9281a1c7e284d73e67f1809a48a497200e046d39ccc7112cd0")
	// RFC 4231 test case 2
	check(t, "HMAC RFC4231 #2", HMACSHA256([]byte("Jefe"), []byte("what do ya want for nothing?")),
		"5bdcc146bf60754e6a042426089575c75a003f089d2739839dec58b964ec3843")
}

func TestRFC5869(t *testing.T) {
	ikm22 := bytes.Repeat([]byte{0x0b}, 22)
	for _, c := range []struct {
		ikm, salt, info []byte
		L               int
		prk, okm        string
	}{
		{ikm22, seq(0, 13), seq(0xf0, 10), 42,
			"077709362c2e32df0ddc3f0dc47bba6390b6c73bb50f9c3122ec844ad7c2b3e5",
			"3cb25f25faacd57a90434f64d0362f2a2d2d0a90cf1a5a4c5db02d56ecc4c5bf34007208d5b887185865"},
		{seq(0, 80), seq(0x60, 80), seq(0xb0, 80), 82,
			"06a6b88c5853361a06104c9ceb35b45cef760014904671014a193f40c15fc244",
			"b11e398dc80327a1c8e7f78c596a49344f012eda2d4efad8a050cc4c19afa97c59045a99cac7827271cb41c65e590e09da3275600c2f09b8367793a9aca3db71cc30c58179ec3e87c14c01d5c1f3434f1d87"},
		{ikm22, nil, nil, 42,
			"19ef24a32c717b167f33a91d6f648bdf96596776afdb6377ac434c1c293ccb04",
			"8da4e775a563c18f715f802a063c5a31b8a11f5c5ee1879ec3454e5f3c738d2d9d201395faa4b61a96c8"},
	} {
		prk := HKDFExtract(c.salt, c.ikm)
		check(t, "PRK", prk, c.prk)
		check(t, "OKM", HKDFExpand(prk, c.info, c.L), c.okm)
	}
}

func TestRandomAgainstStd(t *testing.T) {
	rng := rand.New(rand.NewSource(20260924))
	rb := func(n int) []byte { b := make([]byte, n); rng.Read(b); return b }
	for i := 0; i < 1000; i++ {
		n := rng.Intn(301)
		if i <= 300 {
			n = i
		}
		msg := rb(n)
		if s := sha256.Sum256(msg); !bytes.Equal(SHA256(msg), s[:]) {
			t.Fatalf("SHA-256 mismatch len %d", n)
		}
		if s := sha512.Sum384(msg); !bytes.Equal(SHA384(msg), s[:]) {
			t.Fatalf("SHA-384 mismatch len %d", n)
		}
		key := rb(rng.Intn(150)) // below, at and above the 64-byte block size
		m := hmac.New(sha256.New, key)
		m.Write(msg)
		if !bytes.Equal(HMACSHA256(key, msg), m.Sum(nil)) {
			t.Fatalf("HMAC mismatch keylen %d len %d", len(key), n)
		}
		salt, info, L := rb(rng.Intn(100)), rb(rng.Intn(100)), rng.Intn(301)
		if rng.Intn(4) == 0 {
			salt = nil
		}
		prk, err := hkdf.Extract(sha256.New, msg, salt)
		if err != nil {
			t.Fatal(err)
		}
		if !bytes.Equal(HKDFExtract(salt, msg), prk) {
			t.Fatalf("HKDF-Extract mismatch")
		}
		okm, err := hkdf.Expand(sha256.New, prk, string(info), L)
		if err != nil {
			t.Fatal(err)
		}
		if !bytes.Equal(HKDFExpand(prk, info, L), okm) {
			t.Fatalf("HKDF-Expand mismatch L %d", L)
		}
	}
	// maximal expansion
	prk := rb(32)
	okm, _ := hkdf.Expand(sha256.New, prk, "x", 255*32)
	if !bytes.Equal(HKDFExpand(prk, []byte("x"), 255*32), okm) {
		t.Fatal("HKDF-Expand max length mismatch")
	}
}
