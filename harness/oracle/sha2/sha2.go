// Package sha2 is a from-the-specification test oracle for SHA-256 and SHA-384
// (FIPS 180-4), HMAC-SHA-256 (RFC 2104 / FIPS 198-1) and HKDF-SHA-256 (RFC 5869).
//
// The round constants and initial hash values are not copied from tables: they are
// derived from their FIPS 180-4 definitions (fractional parts of the cube / square
// roots of the first primes) with math/big at package initialisation.
package sha2

import "math/big"

var (
	k256 [64]uint32 // FIPS 180-4 4.2.2: cube roots of the first 64 primes, 32 fractional bits
	h256 [8]uint32  // 5.3.3: square roots of the first 8 primes, 32 fractional bits
	k512 [80]uint64 // 4.2.3: cube roots of the first 80 primes, 64 fractional bits
	h384 [8]uint64  // 5.3.4: square roots of the 9th..16th primes, 64 fractional bits
)

// fracRoot returns the first `bits` bits of the fractional part of the k-th root of p,
// i.e. floor(p^(1/k) * 2^bits) mod 2^bits = floor((p * 2^(k*bits))^(1/k)) mod 2^bits.
func fracRoot(p int64, k, bits uint) uint64 {
	n := new(big.Int).Lsh(big.NewInt(p), k*bits)
	// integer k-th root by bisection: largest r with r^k <= n
	lo, hi := big.NewInt(0), new(big.Int).Lsh(big.NewInt(1), bits+8)
	kk := big.NewInt(int64(k))
	for new(big.Int).Sub(hi, lo).Cmp(big.NewInt(1)) > 0 {
		mid := new(big.Int).Add(lo, hi)
		mid.Rsh(mid, 1)
		if new(big.Int).Exp(mid, kk, nil).Cmp(n) <= 0 {
			lo = mid
		} else {
			hi = mid
		}
	}
	mask := new(big.Int).Sub(new(big.Int).Lsh(big.NewInt(1), bits), big.NewInt(1))
	return lo.And(lo, mask).Uint64()
}

func init() {
	var primes []int64
	for c := int64(2); len(primes) < 80; c++ {
		isPrime := true
		for d := int64(2); d*d <= c; d++ {
			if c%d == 0 {
				isPrime = false
			}
		}
		if isPrime {
			primes = append(primes, c)
		}
	}
	for i := 0; i < 64; i++ {
		k256[i] = uint32(fracRoot(primes[i], 3, 32))
	}
	for i := 0; i < 80; i++ {
		k512[i] = fracRoot(primes[i], 3, 64)
	}
	for i := 0; i < 8; i++ {
		h256[i] = uint32(fracRoot(primes[i], 2, 32))
		h384[i] = fracRoot(primes[8+i], 2, 64)
	}
}

func rotr32(x uint32, n uint) uint32 { return x>>n | x<<(32-n) }
func rotr64(x uint64, n uint) uint64 { return x>>n | x<<(64-n) }

// pad is FIPS 180-4 section 5.1: append 0x80, zeros, and the bit length as a
// lenBytes-byte big-endian integer so that the total is a multiple of block bytes.
func pad(msg []byte, block, lenBytes int) []byte {
	p := append(append([]byte{}, msg...), 0x80)
	for len(p)%block != block-lenBytes {
		p = append(p, 0)
	}
	bitLen := uint64(len(msg)) * 8 // the upper bytes of a 128-bit length stay zero
	for i := lenBytes - 1; i >= 0; i-- {
		if i < 8 {
			p = append(p, byte(bitLen>>(8*uint(i))))
		} else {
			p = append(p, 0)
		}
	}
	return p
}

// SHA256 is FIPS 180-4 section 6.2.
func SHA256(msg []byte) []byte {
	H := h256
	p := pad(msg, 64, 8)
	for off := 0; off < len(p); off += 64 {
		var W [64]uint32
		for t := 0; t < 16; t++ {
			b := p[off+4*t:]
			W[t] = uint32(b[0])<<24 | uint32(b[1])<<16 | uint32(b[2])<<8 | uint32(b[3])
		}
		for t := 16; t < 64; t++ {
			s1 := rotr32(W[t-2], 17) ^ rotr32(W[t-2], 19) ^ W[t-2]>>10
			s0 := rotr32(W[t-15], 7) ^ rotr32(W[t-15], 18) ^ W[t-15]>>3
			W[t] = s1 + W[t-7] + s0 + W[t-16]
		}
		a, b, c, d, e, f, g, h := H[0], H[1], H[2], H[3], H[4], H[5], H[6], H[7]
		for t := 0; t < 64; t++ {
			S1 := rotr32(e, 6) ^ rotr32(e, 11) ^ rotr32(e, 25)
			ch := (e & f) ^ (^e & g)
			T1 := h + S1 + ch + k256[t] + W[t]
			S0 := rotr32(a, 2) ^ rotr32(a, 13) ^ rotr32(a, 22)
			maj := (a & b) ^ (a & c) ^ (b & c)
			T2 := S0 + maj
			h, g, f, e, d, c, b, a = g, f, e, d+T1, c, b, a, T1+T2
		}
		for i, v := range [8]uint32{a, b, c, d, e, f, g, h} {
			H[i] += v
		}
	}
	out := make([]byte, 0, 32)
	for _, v := range H {
		out = append(out, byte(v>>24), byte(v>>16), byte(v>>8), byte(v))
	}
	return out
}

// SHA384 is FIPS 180-4 sections 6.4 and 6.5 (SHA-512 compression with the SHA-384
// initial value, output truncated to the leftmost 384 bits).
func SHA384(msg []byte) []byte {
	H := h384
	p := pad(msg, 128, 16)
	for off := 0; off < len(p); off += 128 {
		var W [80]uint64
		for t := 0; t < 16; t++ {
			for _, c := range p[off+8*t : off+8*t+8] {
				W[t] = W[t]<<8 | uint64(c)
			}
		}
		for t := 16; t < 80; t++ {
			s1 := rotr64(W[t-2], 19) ^ rotr64(W[t-2], 61) ^ W[t-2]>>6
			s0 := rotr64(W[t-15], 1) ^ rotr64(W[t-15], 8) ^ W[t-15]>>7
			W[t] = s1 + W[t-7] + s0 + W[t-16]
		}
		a, b, c, d, e, f, g, h := H[0], H[1], H[2], H[3], H[4], H[5], H[6], H[7]
		for t := 0; t < 80; t++ {
			S1 := rotr64(e, 14) ^ rotr64(e, 18) ^ rotr64(e, 41)
			ch := (e & f) ^ (^e & g)
			T1 := h + S1 + ch + k512[t] + W[t]
			S0 := rotr64(a, 28) ^ rotr64(a, 34) ^ rotr64(a, 39)
			maj := (a & b) ^ (a & c) ^ (b & c)
			T2 := S0 + maj
			h, g, f, e, d, c, b, a = g, f, e, d+T1, c, b, a, T1+T2
		}
		for i, v := range [8]uint64{a, b, c, d, e, f, g, h} {
			H[i] += v
		}
	}
	out := make([]byte, 0, 64)
	for _, v := range H {
		for s := 56; s >= 0; s -= 8 {
			out = append(out, byte(v>>uint(s)))
		}
	}
	return out[:48]
}

// HMACSHA256 is RFC 2104 HMAC with H = SHA-256 (B = 64, L = 32).
func HMACSHA256(key, msg []byte) []byte {
	const B = 64
	if len(key) > B {
		key = SHA256(key)
	}
	ipad, opad := make([]byte, B), make([]byte, B)
	copy(ipad, key) // K padded with zeros to B bytes
	copy(opad, key)
	for i := 0; i < B; i++ {
		ipad[i] ^= 0x36
		opad[i] ^= 0x5c
	}
	return SHA256(append(opad, SHA256(append(ipad, msg...))...))
}

// HKDFExtract is RFC 5869 section 2.2 with SHA-256: PRK = HMAC(salt, IKM); an empty
// salt stands for HashLen zero bytes.
func HKDFExtract(salt, ikm []byte) []byte {
	if len(salt) == 0 {
		salt = make([]byte, 32)
	}
	return HMACSHA256(salt, ikm)
}

// HKDFExpand is RFC 5869 section 2.3 with SHA-256; it panics if L > 255*32 or L < 0.
func HKDFExpand(prk, info []byte, L int) []byte {
	if L < 0 || L > 255*32 {
		panic("sha2: HKDF-Expand length out of range")
	}
	var okm, T []byte
	for i := 1; len(okm) < L; i++ {
		in := append(append(append([]byte{}, T...), info...), byte(i))
		T = HMACSHA256(prk, in)
		okm = append(okm, T...)
	}
	return okm[:L]
}
