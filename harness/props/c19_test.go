package props

// C19 — operations documented as read-only or thread-safe are race-free.

import (
	"bytes"
	"fmt"
	"runtime"
	"sync"
	"testing"

	"github.com/onflow/crypto"
	"github.com/onflow/crypto/hash"

	"verifharness/gen"
)

type c19Call struct {
	name string
	run  func() string // deterministic result (or verification verdict for randomized signing)
}

func TestC19_RaceFree(t *testing.T) {
	gen.Run(t, "C19", func(g *gen.G) {
		// shared objects
		nk := g.Int("keys", 2, 4)
		sks := make([]crypto.PrivateKey, nk)
		pks := make([]crypto.PublicKey, nk)
		for i := range sks {
			x, _ := drawScalar(g, fmt.Sprintf("sk%d", i))
			sks[i] = decodeSK(g, x)
			pks[i] = sks[i].PublicKey() // materialised before sharing (lazy caching is not among the listed operations)
		}
		shared := crypto.NewExpandMsgXOFKMAC128("c19-" + string(g.Bytes("tag", 0, 6))) // one KMAC hasher shared by everybody
		kmac, _ := hash.NewKMAC_128([]byte("0123456789abcdef-c19"), []byte("c"), g.Int("kmacSize", 32, 64))
		// the messages are adjacent sub-slices of one buffer (each has spare capacity reaching into its
		// neighbour), so a callee that appends to or writes past its argument corrupts another message
		msgs := make([][]byte, 3)
		var msgBuf []byte
		var msgLens []int
		for i := range msgs {
			m := g.Bytes(fmt.Sprintf("msg%d", i), 0, 300)
			msgBuf = append(msgBuf, m...)
			msgLens = append(msgLens, len(m))
		}
		msgBuf = append(msgBuf, make([]byte, 64)...)
		for i, off := 0, 0; i < len(msgs); i++ {
			msgs[i] = msgBuf[off : off+msgLens[i]]
			off += msgLens[i]
		}
		sigs := make([][]crypto.Signature, nk) // sigs[key][msg]
		for i := range sigs {
			sigs[i] = make([]crypto.Signature, len(msgs))
			for j := range msgs {
				sigs[i][j], _ = sks[i].Sign(msgs[j], shared)
			}
		}
		pops := make([]crypto.Signature, nk)
		for i := range pops {
			pops[i], _ = crypto.BLSGeneratePOP(sks[i])
		}
		aggSame := make([]crypto.Signature, len(msgs))
		for j := range msgs {
			l := make([]crypto.Signature, nk)
			for i := range l {
				l[i] = sigs[i][j]
			}
			aggSame[j], _ = crypto.AggregateBLSSignatures(l)
		}
		ecAlgos := []crypto.SigningAlgorithm{crypto.ECDSAP256, crypto.ECDSASecp256k1}
		ecSK := make([]crypto.PrivateKey, 2)
		ecSig := make([]crypto.Signature, 2)
		for i, a := range ecAlgos {
			ecSK[i], _ = crypto.GeneratePrivateKey(a, g.Bytes(fmt.Sprintf("ecSeed%d", i), 32, 32))
			_ = ecSK[i].PublicKey()
			ecSig[i], _ = ecSK[i].Sign(msgs[0], hash.NewSHA2_256())
		}
		// snapshot of every argument buffer
		snapshot := func() string {
			var b bytes.Buffer
			for i := range sks {
				b.Write(sks[i].Encode())
				b.Write(pks[i].Encode())
				for j := range msgs {
					b.Write(sigs[i][j])
				}
				b.Write(pops[i])
			}
			b.Write(msgBuf)
			for _, s := range aggSame {
				b.Write(s)
			}
			for i := range ecSK {
				b.Write(ecSK[i].Encode())
				b.Write(ecSig[i])
			}
			b.Write(shared.ComputeHash([]byte("probe")))
			b.Write(kmac.SumHash())
			return b.String()
		}
		before := snapshot()

		mk := func(label string) c19Call {
			ki, mi := g.Pick(label+"Key", nk), g.Pick(label+"Msg", len(msgs))
			switch g.Int(label+"Op", 0, 11) {
			case 0, 1:
				return c19Call{"KMAC128.ComputeHash(shared)", func() string { return fmt.Sprintf("%x", kmac.ComputeHash(msgs[mi])) }}
			case 2:
				return c19Call{"BLS Sign(shared hasher)", func() string { s, err := sks[ki].Sign(msgs[mi], shared); return fmt.Sprintf("%x %v", []byte(s), err) }}
			case 3:
				good := g.Bool(label + "Good")
				return c19Call{"BLS Verify(shared hasher)", func() string {
					s := sigs[ki][mi]
					if !good {
						s = sigs[(ki+1)%nk][mi]
					}
					ok, err := pks[ki].Verify(s, msgs[mi], shared)
					return fmt.Sprintf("%v %v", ok, err)
				}}
			case 4:
				return c19Call{"BLSVerifyPOP", func() string { ok, err := crypto.BLSVerifyPOP(pks[ki], pops[ki]); return fmt.Sprintf("%v %v", ok, err) }}
			case 5:
				return c19Call{"SPOCKVerify", func() string {
					ok, err := crypto.SPOCKVerify(pks[ki], sigs[ki][mi], pks[(ki+1)%nk], sigs[(ki+1)%nk][mi])
					return fmt.Sprintf("%v %v", ok, err)
				}}
			case 6:
				return c19Call{"VerifyBLSSignatureOneMessage", func() string {
					ok, err := crypto.VerifyBLSSignatureOneMessage(pks, aggSame[mi], msgs[mi], shared)
					return fmt.Sprintf("%v %v", ok, err)
				}}
			case 7:
				return c19Call{"VerifyBLSSignatureManyMessages", func() string {
					l := []crypto.Signature{sigs[ki][mi], sigs[(ki+1)%nk][(mi+1)%len(msgs)]}
					agg, _ := crypto.AggregateBLSSignatures(l)
					ok, err := crypto.VerifyBLSSignatureManyMessages([]crypto.PublicKey{pks[ki], pks[(ki+1)%nk]}, agg,
						[][]byte{msgs[mi], msgs[(mi+1)%len(msgs)]}, []hash.Hasher{shared, shared})
					return fmt.Sprintf("%v %v", ok, err)
				}}
			case 8:
				short := g.Bool(label + "ShortSig")
				return c19Call{"BatchVerifyBLSSignaturesOneMessage", func() string {
					l := make([]crypto.Signature, nk)
					for i := range l {
						l[i] = sigs[i][mi]
					}
					l[ki] = sigs[ki][(mi+1)%len(msgs)]
					if short {
						l[(ki+1)%nk] = sigs[(ki+1)%nk][mi][:47] // a short signature: that index is reported false
					}
					res, err := crypto.BatchVerifyBLSSignaturesOneMessage(pks, l, msgs[mi], shared)
					return fmt.Sprintf("%v %v", res, err)
				}}
			case 9:
				ei := g.Pick(label+"Curve", 2)
				return c19Call{"ECDSA Sign (per-goroutine hasher)", func() string {
					s, err := ecSK[ei].Sign(msgs[mi], hash.NewSHA3_256())
					if err != nil {
						return err.Error()
					}
					ok, err := ecSK[ei].PublicKey().Verify(s, msgs[mi], hash.NewSHA3_256())
					return fmt.Sprintf("verifies=%v %v", ok, err)
				}}
			case 10:
				ei := g.Pick(label+"Curve", 2)
				return c19Call{"ECDSA Verify (per-goroutine hasher)", func() string {
					ok, err := ecSK[ei].PublicKey().Verify(ecSig[ei], msgs[0], hash.NewSHA2_256())
					return fmt.Sprintf("%v %v", ok, err)
				}}
			default:
				return c19Call{"expand-message hasher ComputeHash(shared)", func() string { return fmt.Sprintf("%x", shared.ComputeHash(msgs[mi])) }}
			}
		}
		G := g.Int("goroutines", 2, 8)
		if g.Chance("many", 1, 4) {
			G = g.Int("goroutinesMany", 9, 16)
		}
		prog := make([][]c19Call, G)
		want := make([][]string, G)
		sharedHasherUsers := 0
		for gi := range prog {
			for j, k := 0, g.Int("ops", 1, 4); j < k; j++ {
				c := mk("c")
				prog[gi] = append(prog[gi], c)
				want[gi] = append(want[gi], c.run()) // the result of the same call run alone
				if c.name != "ECDSA Sign (per-goroutine hasher)" && c.name != "ECDSA Verify (per-goroutine hasher)" {
					sharedHasherUsers++
				}
			}
		}
		runs := 4
		if thorough() {
			runs = 8
		}
		defer runtime.GOMAXPROCS(runtime.GOMAXPROCS(0))
		for run := 0; run < runs; run++ {
			runtime.GOMAXPROCS([]int{2, 4, 16}[run%3])
			got := make([][]string, G)
			start := make(chan struct{})
			var wg sync.WaitGroup
			for gi := range prog {
				wg.Add(1)
				go func(gi int) {
					defer wg.Done()
					<-start
					for _, c := range prog[gi] {
						got[gi] = append(got[gi], c.run())
					}
				}(gi)
			}
			close(start)
			wg.Wait()
			for gi := range prog {
				for j := range prog[gi] {
					if got[gi][j] != want[gi][j] {
						g.Fatalf("%s returned %s when run concurrently with %d other goroutines, %s when run alone", prog[gi][j].name, got[gi][j], G-1, want[gi][j])
					}
				}
			}
			if after := snapshot(); after != before {
				g.Fatalf("a key, message, signature or shared hasher passed as argument was modified by the concurrent calls")
			}
		}
		for gi := range prog {
			for _, c := range prog[gi] {
				g.Class(c.name)
			}
		}
		if G >= 2 && sharedHasherUsers >= 2 {
			g.NonTrivial()
		}
	})
}
