package props

// C19 — operations documented as read-only or thread-safe are race-free.
//
// All raw values (scalars, tags, messages, seeds) are drawn once; the library
// objects are then built from them twice or more: one "world" serves the solo
// runs that define the expected results, and every concurrent run gets a fresh
// world, so that nothing (a lazily normalised key, a warmed-up cache) has been
// touched sequentially before the goroutines race on it.

import (
	"bytes"
	"fmt"
	"math/big"
	"reflect"
	"runtime"
	"strings"
	"sync"
	"testing"
	"unsafe"

	"github.com/onflow/crypto"
	"github.com/onflow/crypto/hash"

	"verifharness/gen"
)

type c19Raw struct {
	xs            []*big.Int
	tag           string
	kmacSize      int
	msgs          [][]byte
	ecSeeds       [][]byte
	ecSigs        [][]byte // ECDSA signatures are randomized: made once and shared as bytes
	pk0FromRemove bool     // the shared key 0 is the (not normalised) result of RemoveBLSPublicKeys instead of a decoded key
}

type c19World struct {
	sks     []crypto.PrivateKey
	pks     []crypto.PublicKey
	rem     crypto.PublicKey // pks[0] obtained through RemoveBLSPublicKeys (not normalised by a decoder)
	agg     crypto.PublicKey // aggregate of all keys
	shared  hash.Hasher      // one expand-message hasher shared by everybody
	kmac    hash.Hasher      // one KMAC128 hasher shared by everybody
	msgBuf  []byte
	msgs    [][]byte // adjacent sub-slices of msgBuf (spare capacity reaches into the neighbour)
	sigs    [][]crypto.Signature
	pops    []crypto.Signature
	aggSame []crypto.Signature
	ecSK    []crypto.PrivateKey
	ecPK    []crypto.PublicKey
	ecSig   []crypto.Signature
}

func c19Build(g *gen.G, raw *c19Raw) *c19World {
	w := &c19World{}
	nk := len(raw.xs)
	for _, x := range raw.xs {
		sk := decodeSK(g, x)
		w.sks = append(w.sks, sk)
		w.pks = append(w.pks, sk.PublicKey()) // materialised before sharing (lazy caching is not among the listed operations)
	}
	var err error
	if w.agg, err = crypto.AggregateBLSPublicKeys(w.pks); err != nil {
		g.Fatalf("AggregateBLSPublicKeys: %v", err)
	}
	if w.rem, err = crypto.RemoveBLSPublicKeys(w.agg, w.pks[1:]); err != nil {
		g.Fatalf("RemoveBLSPublicKeys: %v", err)
	}
	if raw.pk0FromRemove {
		w.pks[0] = w.rem
	}
	w.shared = crypto.NewExpandMsgXOFKMAC128(raw.tag)
	w.kmac, _ = hash.NewKMAC_128([]byte("0123456789abcdef-c19"), []byte("c"), raw.kmacSize)
	for _, m := range raw.msgs {
		w.msgBuf = append(w.msgBuf, m...)
	}
	w.msgBuf = append(w.msgBuf, make([]byte, 64)...)
	off := 0
	for _, m := range raw.msgs {
		w.msgs = append(w.msgs, w.msgBuf[off:off+len(m)])
		off += len(m)
	}
	w.sigs = make([][]crypto.Signature, nk)
	for i := range w.sigs {
		w.sigs[i] = make([]crypto.Signature, len(w.msgs))
		for j := range w.msgs {
			// signed with a private hasher object so that the shared one is untouched before the race
			w.sigs[i][j], _ = w.sks[i].Sign(raw.msgs[j], crypto.NewExpandMsgXOFKMAC128(raw.tag))
		}
	}
	w.pops = make([]crypto.Signature, nk)
	for i := range w.pops {
		w.pops[i], _ = crypto.BLSGeneratePOP(w.sks[i])
	}
	w.aggSame = make([]crypto.Signature, len(w.msgs))
	for j := range w.msgs {
		l := make([]crypto.Signature, nk)
		for i := range l {
			l[i] = w.sigs[i][j]
		}
		w.aggSame[j], _ = crypto.AggregateBLSSignatures(l)
	}
	for i, a := range []crypto.SigningAlgorithm{crypto.ECDSAP256, crypto.ECDSASecp256k1} {
		sk, err := crypto.GeneratePrivateKey(a, raw.ecSeeds[i])
		if err != nil {
			g.Fatalf("ECDSA keygen: %v", err)
		}
		w.ecSK = append(w.ecSK, sk)
		w.ecPK = append(w.ecPK, sk.PublicKey())
		w.ecSig = append(w.ecSig, append([]byte{}, raw.ecSigs[i]...))
	}
	return w
}

// snapshot renders every argument buffer (keys, messages, signatures, shared hashers' streams).
func (w *c19World) snapshot() string {
	var b bytes.Buffer
	for i := range w.sks {
		b.Write(w.sks[i].Encode())
		b.Write(w.pks[i].Encode())
		for j := range w.msgs {
			b.Write(w.sigs[i][j])
		}
		b.Write(w.pops[i])
	}
	b.Write(w.rem.Encode())
	b.Write(w.agg.Encode())
	b.Write(w.msgBuf)
	for _, s := range w.aggSame {
		b.Write(s)
	}
	for i := range w.ecSK {
		b.Write(w.ecSK[i].Encode())
		b.Write(w.ecPK[i].Encode())
		b.Write(w.ecSig[i])
	}
	b.Write(w.kmac.SumHash())
	b.Write(w.shared.SumHash())
	return b.String()
}

// rawObject returns a copy of the memory of the struct a key interface points to.  The BLS key structs hold the group
// element by value (no pointers): "keys passed as arguments are left unmodified" is checked on the objects themselves,
// not only on what they encode to (an operation that rewrites a key in another representation of the same element is a
// write to shared memory, which the race detector cannot see when it happens in C).
func rawObject(x any) []byte {
	v := reflect.ValueOf(x)
	if v.Kind() != reflect.Ptr || v.IsNil() {
		return nil
	}
	n := int(v.Elem().Type().Size())
	return append([]byte{}, unsafe.Slice((*byte)(v.UnsafePointer()), n)...)
}

// rawKeys is the memory of every BLS public key object of the world.
func (w *c19World) rawKeys() string {
	var b bytes.Buffer
	for i := range w.pks {
		b.Write(rawObject(w.pks[i]))
	}
	b.Write(rawObject(w.rem))
	b.Write(rawObject(w.agg))
	return b.String()
}

type c19Call struct {
	name string
	run  func(w *c19World) string // deterministic result (a verification verdict for randomized signing)
}

func TestC19_RaceFree(t *testing.T) {
	gen.Run(t, "C19", func(g *gen.G) {
		raw := &c19Raw{}
		nk := g.Int("keys", 2, 4)
		for i := 0; i < nk; i++ {
			x, _ := drawScalar(g, fmt.Sprintf("sk%d", i))
			raw.xs = append(raw.xs, x)
		}
		raw.pk0FromRemove = g.Bool("key0FromRemove")
		raw.tag = "c19-" + string(g.Bytes("tag", 0, 6))
		raw.kmacSize = g.Int("kmacSize", 32, 64)
		for i := 0; i < 3; i++ {
			raw.msgs = append(raw.msgs, g.Bytes(fmt.Sprintf("msg%d", i), 0, 300))
		}
		for i, a := range []crypto.SigningAlgorithm{crypto.ECDSAP256, crypto.ECDSASecp256k1} {
			seed := g.Bytes(fmt.Sprintf("ecSeed%d", i), 32, 32)
			raw.ecSeeds = append(raw.ecSeeds, seed)
			sk, err := crypto.GeneratePrivateKey(a, seed)
			if err != nil {
				g.Fatalf("ECDSA keygen: %v", err)
			}
			s, _ := sk.Sign(raw.msgs[0], hash.NewSHA2_256())
			raw.ecSigs = append(raw.ecSigs, s)
		}
		nm := len(raw.msgs)

		mk := func(label string) c19Call {
			ki, mi := g.Pick(label+"Key", nk), g.Pick(label+"Msg", nm)
			if raw.pk0FromRemove && g.Bool(label+"Key0") {
				ki = 0
			}
			switch g.Int(label+"Op", 0, 13) {
			case 0, 1:
				return c19Call{"KMAC128.ComputeHash(shared)", func(w *c19World) string { return fmt.Sprintf("%x", w.kmac.ComputeHash(w.msgs[mi])) }}
			case 2:
				return c19Call{"BLS Sign(shared hasher)", func(w *c19World) string {
					s, err := w.sks[ki].Sign(w.msgs[mi], w.shared)
					return fmt.Sprintf("%x %v", []byte(s), err)
				}}
			case 3:
				good := g.Bool(label + "Good")
				return c19Call{"BLS Verify(shared hasher)", func(w *c19World) string {
					s := w.sigs[ki][mi]
					if !good {
						s = w.sigs[(ki+1)%nk][mi]
					}
					ok, err := w.pks[ki].Verify(s, w.msgs[mi], w.shared)
					return fmt.Sprintf("%v %v", ok, err)
				}}
			case 4:
				return c19Call{"BLSVerifyPOP", func(w *c19World) string {
					ok, err := crypto.BLSVerifyPOP(w.pks[ki], w.pops[ki])
					return fmt.Sprintf("%v %v", ok, err)
				}}
			case 5:
				return c19Call{"SPOCKVerify", func(w *c19World) string {
					ok, err := crypto.SPOCKVerify(w.pks[ki], w.sigs[ki][mi], w.pks[(ki+1)%nk], w.sigs[(ki+1)%nk][mi])
					return fmt.Sprintf("%v %v", ok, err)
				}}
			case 6:
				return c19Call{"VerifyBLSSignatureOneMessage", func(w *c19World) string {
					ok, err := crypto.VerifyBLSSignatureOneMessage(w.pks, w.aggSame[mi], w.msgs[mi], w.shared)
					return fmt.Sprintf("%v %v", ok, err)
				}}
			case 7:
				return c19Call{"VerifyBLSSignatureManyMessages", func(w *c19World) string {
					l := []crypto.Signature{w.sigs[ki][mi], w.sigs[(ki+1)%nk][(mi+1)%nm]}
					agg, _ := crypto.AggregateBLSSignatures(l)
					ok, err := crypto.VerifyBLSSignatureManyMessages([]crypto.PublicKey{w.pks[ki], w.pks[(ki+1)%nk]}, agg,
						[][]byte{w.msgs[mi], w.msgs[(mi+1)%nm]}, []hash.Hasher{w.shared, w.shared})
					return fmt.Sprintf("%v %v", ok, err)
				}}
			case 8:
				short := g.Bool(label + "ShortSig")
				return c19Call{"BatchVerifyBLSSignaturesOneMessage", func(w *c19World) string {
					l := make([]crypto.Signature, nk)
					for i := range l {
						l[i] = w.sigs[i][mi]
					}
					l[ki] = w.sigs[ki][(mi+1)%nm]
					if short {
						l[(ki+1)%nk] = w.sigs[(ki+1)%nk][mi][:47] // a short signature: that index is reported false
					}
					before := append([]crypto.Signature{}, l...)
					res, err := crypto.BatchVerifyBLSSignaturesOneMessage(w.pks, l, w.msgs[mi], w.shared)
					for i := range l { // the caller's list of signatures is an argument too: same elements, same lengths
						if len(l[i]) != len(before[i]) || (len(l[i]) > 0 && &l[i][0] != &before[i][0]) {
							return fmt.Sprintf("ARGUMENT-MODIFIED: element %d of the signature list handed to BatchVerifyBLSSignaturesOneMessage was replaced (%d bytes, was %d bytes); result %v %v", i, len(l[i]), len(before[i]), res, err)
						}
					}
					return fmt.Sprintf("%v %v", res, err)
				}}
			case 9:
				ei := g.Pick(label+"Curve", 2)
				return c19Call{"ECDSA Sign (per-goroutine hasher)", func(w *c19World) string {
					s, err := w.ecSK[ei].Sign(w.msgs[mi], hash.NewSHA3_256())
					if err != nil {
						return err.Error()
					}
					ok, err := w.ecPK[ei].Verify(s, w.msgs[mi], hash.NewSHA3_256())
					return fmt.Sprintf("verifies=%v %v", ok, err)
				}}
			case 10:
				ei := g.Pick(label+"Curve", 2)
				return c19Call{"ECDSA Verify (per-goroutine hasher)", func(w *c19World) string {
					ok, err := w.ecPK[ei].Verify(w.ecSig[ei], w.msgs[0], hash.NewSHA2_256())
					return fmt.Sprintf("%v %v", ok, err)
				}}
			case 11: // a key that no decoder normalised: the result of RemoveBLSPublicKeys equals pks[0]
				return c19Call{"BLS Verify under a key from RemoveBLSPublicKeys", func(w *c19World) string {
					ok, err := w.rem.Verify(w.sigs[0][mi], w.msgs[mi], w.shared)
					return fmt.Sprintf("%v %v", ok, err)
				}}
			case 12:
				return c19Call{"BLS Verify under the aggregated key", func(w *c19World) string {
					ok, err := w.agg.Verify(w.aggSame[mi], w.msgs[mi], w.shared)
					return fmt.Sprintf("%v %v", ok, err)
				}}
			default:
				return c19Call{"expand-message hasher ComputeHash(shared)", func(w *c19World) string { return fmt.Sprintf("%x", w.shared.ComputeHash(w.msgs[mi])) }}
			}
		}
		G := g.Int("goroutines", 2, 8)
		if g.Chance("many", 1, 4) {
			G = g.Int("goroutinesMany", 9, 16)
		}
		ref := c19Build(g, raw).snapshot() // rendered from objects of its own: rendering encodes the keys
		solo := c19Build(g, raw)
		soloKeys := solo.rawKeys()
		prog := make([][]c19Call, G)
		want := make([][]string, G)
		sharedUsers := 0
		for gi := range prog {
			for j, k := 0, g.Int("ops", 1, 4); j < k; j++ {
				c := mk("c")
				prog[gi] = append(prog[gi], c)
				want[gi] = append(want[gi], c.run(solo)) // the result of the same call run alone
				if w := want[gi][len(want[gi])-1]; strings.HasPrefix(w, "ARGUMENT-MODIFIED") {
					g.Fatalf("%s (run alone): %s", c.name, w)
				}
				if c.name != "ECDSA Sign (per-goroutine hasher)" && c.name != "ECDSA Verify (per-goroutine hasher)" {
					sharedUsers++
				}
			}
		}
		if g.Chance("stampede", 1, 3) {
			// every goroutine starts with the same call on the same objects: the first use of a key object (a key that
			// RemoveBLSPublicKeys left un-normalised, a lazily filled cache) by all of them at once
			c := mk("stampede")
			w0 := c.run(solo)
			for gi := range prog {
				prog[gi] = append([]c19Call{c}, prog[gi]...)
				want[gi] = append([]string{w0}, want[gi]...)
			}
			sharedUsers += G
			g.Class("stampede:" + c.name)
		}
		if solo.rawKeys() != soloKeys {
			g.Fatalf("the memory of a public key object passed as argument changed during the calls run alone (%v): keys are left unmodified", func() (names []string) {
				for gi := range prog {
					for _, c := range prog[gi] {
						names = append(names, c.name)
					}
				}
				return
			}())
		}
		if solo.snapshot() != ref {
			g.Fatalf("a key, message, signature or hasher passed as argument was modified by the calls run alone")
		}
		runs := 4
		if thorough() {
			runs = 8
		}
		defer runtime.GOMAXPROCS(runtime.GOMAXPROCS(0))
		for run := 0; run < runs; run++ {
			runtime.GOMAXPROCS([]int{2, 4, 16}[run%3])
			w := c19Build(g, raw) // fresh objects: nothing was touched sequentially before the race
			wKeys := w.rawKeys()
			got := make([][]string, G)
			start := &spinBarrier{n: int32(len(prog))}
			var wg sync.WaitGroup
			for gi := range prog {
				wg.Add(1)
				go func(gi int) {
					defer wg.Done()
					start.wait()
					for _, c := range prog[gi] {
						got[gi] = append(got[gi], c.run(w))
					}
				}(gi)
			}
			start.open()
			wg.Wait()
			for gi := range prog {
				for j := range prog[gi] {
					if got[gi][j] != want[gi][j] {
						g.Fatalf("%s returned %s when run concurrently with %d other goroutines, %s when run alone", prog[gi][j].name, got[gi][j], G-1, want[gi][j])
					}
				}
			}
			if w.rawKeys() != wKeys {
				g.Fatalf("the memory of a public key object passed as argument changed during the concurrent calls: keys are left unmodified")
			}
			if w.snapshot() != ref {
				g.Fatalf("a key, message, signature or shared hasher passed as argument was modified by the concurrent calls")
			}
		}
		for gi := range prog {
			for _, c := range prog[gi] {
				g.Class(c.name)
			}
		}
		if G >= 2 && sharedUsers >= 2 {
			g.NonTrivial()
		}
	})
}
