package props

// C11 — keys crafted so that a signature with a tiny r-independent s exists:
// the non-reduced aliases (r, s + n) and (r + n, s) of a valid signature fit in
// 32 bytes only when the scalar is below 2^256 − n (≈ 2^128 for secp256k1, ≈ 2^224
// for P-256), which honest signing produces with negligible probability.  For a
// chosen nonce k and a chosen small s' the key d = (s'·k − z)/r makes (r, s') a
// valid signature of the message, so the aliases can be offered to Verify.

import (
	"fmt"
	"math/big"
	"testing"

	"github.com/onflow/crypto"

	"verifharness/gen"
)

func TestC11_CraftedSmallS(t *testing.T) {
	gen.Run(t, "C11", func(g *gen.G) {
		cv := wecDrawCurve(g, "curve")
		n := cv.c.N
		hs := wecDrawHasher(g, "hasher", cv)
		msg := g.Bytes("msg", 0, 100)
		digest := hs.ref(msg)
		z := new(big.Int).SetBytes(digest[:32])
		k, _ := wecDrawScalar(g, "nonce", cv)
		R := cv.c.ScalarBaseMult(k)
		r := new(big.Int).Mod(R.X, n)
		var sSmall *big.Int
		switch g.Int("sKind", 0, 3) {
		case 0:
			sSmall = big.NewInt(int64(g.Int("sTiny", 1, 1000)))
		case 1:
			sSmall = new(big.Int).Lsh(one, uint(g.Int("sBits", 1, 126)))
		case 2: // just below the largest value whose alias s+n still fits 32 bytes
			sSmall = new(big.Int).Sub(new(big.Int).Lsh(one, 256), n)
			sSmall.Sub(sSmall, big.NewInt(int64(g.Int("sBelow", 1, 1000))))
		default:
			sSmall = new(big.Int).SetBytes(g.Bytes("sRand", 1, 15))
			if sSmall.Sign() == 0 {
				sSmall.SetInt64(3)
			}
		}
		if r.Sign() == 0 {
			g.Skip("r = 0")
		}
		// d = (s'·k − z) / r mod n
		d := new(big.Int).Mul(sSmall, k)
		d.Sub(d, z).Mod(d, n)
		d.Mul(d, new(big.Int).ModInverse(r, n)).Mod(d, n)
		if d.Sign() == 0 {
			g.Skip("d = 0")
		}
		sk := wecDecodeSK(g, cv, d)
		pk := sk.PublicKey()
		Q, _, _ := wecPub(cv, d)
		if !cv.c.Verify(Q.X, Q.Y, digest[:32], r, sSmall) {
			g.Fatalf("harness error: the crafted signature does not satisfy the ECDSA equation under the oracle")
		}
		check := func(name string, sig []byte, want bool) {
			ok, err := pk.Verify(sig, msg, hs.h)
			if err != nil || ok != want {
				g.Fatalf("%s %s: Verify(%s = %x) = (%v, %v), expected (%v, nil); key %x, message %x", cv.name, hs.desc, name, sig, ok, err, want, scalarBytes(d), msg)
			}
			if fc, _ := crypto.SignatureFormatCheck(cv.algo, sig); fc != wecFormatOK(cv, sig) {
				g.Fatalf("%s: SignatureFormatCheck(%s = %x) = %v", cv.name, name, sig, fc)
			}
		}
		check("crafted (r, s')", wecJoin(r, sSmall), true)
		twoTo256 := new(big.Int).Lsh(one, 256)
		if alias := new(big.Int).Add(sSmall, n); alias.Cmp(twoTo256) < 0 {
			check("non-reduced alias (r, s'+n)", wecJoin(r, alias), false)
			g.Class("aliasS")
		}
		if alias := new(big.Int).Add(r, n); alias.Cmp(twoTo256) < 0 {
			check("non-reduced alias (r+n, s')", wecJoin(alias, sSmall), false)
			g.Class("aliasR")
		}
		check("twin (r, n-s')", wecJoin(r, new(big.Int).Sub(n, sSmall)), true)
		g.Class("curve:" + cv.name)
		g.NonTrivial(fmt.Sprintf("%s/%x/%x", cv.name, scalarBytes(k), sSmall.Bytes()))
	})
}
