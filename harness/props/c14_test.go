package props

// C14 — ChaCha20 PRG equals the RFC 8439 keystream; Store/Restore resumes exactly.

import (
	"bytes"
	"sync"
	"testing"

	"github.com/onflow/crypto/random"

	"verifharness/gen"
	"verifharness/oracle/chacha"
)

var c14ReadSizes = []int{0, 1, 2, 31, 63, 64, 65, 127, 128, 129, 191, 192, 193, 255, 256, 257}

func padNonce(c []byte) []byte {
	n := make([]byte, 12)
	copy(n, c)
	return n
}

// prgFork is one live generator together with the model position.
type prgFork struct {
	r   random.Rand
	pos uint64
}

func c14ReadSize(g *gen.G) int {
	switch g.Int("sizeKind", 0, 9) {
	case 0, 1, 2, 3, 4:
		return c14ReadSizes[g.Pick("sizeIdx", len(c14ReadSizes))]
	case 5, 6, 7:
		return g.Int("size", 0, 4096)
	case 8:
		return 64 * g.Int("blocks", 1, 40)
	default:
		return g.Int("bigSize", 4097, 1<<17)
	}
}

func TestC14_Stream(t *testing.T) {
	gen.Run(t, "C14", func(g *gen.G) {
		seed := g.Bytes("seed", 32, 32)
		cust := g.Bytes("customizer", 0, 12)
		nonce := padNonce(cust)
		r, err := random.NewChacha20PRG(seed, cust)
		if err != nil {
			g.Fatalf("NewChacha20PRG(32-byte seed, %d-byte customizer) failed: %v", len(cust), err)
		}
		forks := []*prgFork{{r: r}}
		// states handed out by Store() earlier and kept by the caller (not copied): each must stay what it was while the
		// generator goes on, and must still restore to the offset at which it was taken
		type snapshot struct {
			st, copyOf []byte
			pos        uint64
		}
		var snaps []snapshot
		steps := g.Int("steps", 1, 24)
		small, large, unalignedRestore := false, false, false
		kinds := map[string]bool{}
		for i := 0; i < steps; i++ {
			f := forks[g.Pick("fork", len(forks))]
			switch g.Int("action", 0, 9) {
			case 0, 1, 2, 3: // Read
				k := c14ReadSize(g)
				buf := bytes.Repeat([]byte{0xA5}, k) // pre-filled: output must not depend on buffer content
				f.r.Read(buf)
				want := chacha.Keystream(seed, nonce, f.pos, k)
				if !bytes.Equal(buf, want) {
					g.Fatalf("Read(%d) at stream offset %d differs from the RFC 8439 keystream: got %x… want %x…", k, f.pos, head(buf), head(want))
				}
				f.pos += uint64(k)
				if k > 0 && k <= 64 {
					small = true
				}
				if k > 64 {
					large = true
				}
				kinds["read"] = true
			case 4, 5: // Store / Restore replaces the object
				st := f.r.Store()
				if len(st) != 52 {
					g.Fatalf("Store() returned %d bytes", len(st))
				}
				if len(snaps) < 6 {
					snaps = append(snaps, snapshot{st, append([]byte{}, st...), f.pos})
				}
				st2 := append([]byte{}, st...)
				nr, err := random.RestoreChacha20PRG(st2)
				if err != nil {
					g.Fatalf("RestoreChacha20PRG(Store()) at offset %d failed: %v", f.pos, err)
				}
				if !bytes.Equal(st, st2) {
					g.Fatalf("RestoreChacha20PRG modified its argument")
				}
				if !bytes.Equal(nr.Store(), st) {
					g.Fatalf("Store() after Restore differs at offset %d", f.pos)
				}
				f.r = nr
				if f.pos%64 != 0 {
					unalignedRestore = true
				}
				kinds["restore"] = true
			case 6: // fork: keep both, they must continue identically (checked against the same model)
				if len(forks) < 4 {
					kst := f.r.Store() // the generator it was taken from stays in use: the state must not follow it
					if len(snaps) < 6 {
						snaps = append(snaps, snapshot{kst, append([]byte{}, kst...), f.pos})
					}
					nr, err := random.RestoreChacha20PRG(kst)
					if err != nil {
						g.Fatalf("RestoreChacha20PRG(Store()) at offset %d failed: %v", f.pos, err)
					}
					forks = append(forks, &prgFork{r: nr, pos: f.pos})
					if f.pos%64 != 0 {
						unalignedRestore = true
					}
					kinds["fork"] = true
				}
			case 7: // UintN on a restored copy equals UintN on the original (derived values continue the same stream)
				n := uint64(1) + g.Uint64("n")%(uint64(1)<<uint(g.Int("nbits", 1, 63)))
				a, _ := random.RestoreChacha20PRG(f.r.Store())
				got, got2 := f.r.UintN(n), a.UintN(n)
				if got != got2 || got >= n {
					g.Fatalf("UintN(%d) at offset %d = %d on the generator, %d on its restored copy", n, f.pos, got, got2)
				}
				if !bytes.Equal(a.Store(), f.r.Store()) {
					g.Fatalf("states differ after identical UintN calls")
				}
				f.pos = streamPos(g, f.r, seed, nonce, f.pos, 1<<14)
				kinds["uintn"] = true
			case 8: // Permutation on a restored copy equals permutation on the original
				n := g.Int("permN", 0, 40)
				a, _ := random.RestoreChacha20PRG(f.r.Store())
				pa, err1 := a.Permutation(n)
				pb, err2 := f.r.Permutation(n)
				if err1 != nil || err2 != nil || !equalInts(pa, pb) {
					g.Fatalf("Permutation(%d) differs between a generator and its restored copy at offset %d: %v %v", n, f.pos, pa, pb)
				}
				if !bytes.Equal(a.Store(), f.r.Store()) {
					g.Fatalf("states differ after identical Permutation calls")
				}
				f.pos = streamPos(g, f.r, seed, nonce, f.pos, 1<<14)
				kinds["perm"] = true
			case 9: // Samples
				n := g.Int("sampN", 0, 40)
				m := g.Int("sampM", 0, n)
				a, _ := random.RestoreChacha20PRG(f.r.Store())
				xa, xb := identityPerm(n), identityPerm(n)
				e1 := a.Samples(n, m, func(i, j int) { xa[i], xa[j] = xa[j], xa[i] })
				e2 := f.r.Samples(n, m, func(i, j int) { xb[i], xb[j] = xb[j], xb[i] })
				if e1 != nil || e2 != nil || !equalInts(xa, xb) {
					g.Fatalf("Samples(%d,%d) differs between a generator and its restored copy", n, m)
				}
				f.pos = streamPos(g, f.r, seed, nonce, f.pos, 1<<14)
				kinds["samples"] = true
			}
			// a copy restored from Store() continues exactly at the model position (independent of the state's layout)
			if p := streamPos(g, f.r, seed, nonce, f.pos, 0); p != f.pos {
				g.Fatalf("a generator restored from Store() does not continue at the model offset %d", f.pos)
			}
		}
		for i, sn := range snaps {
			if !bytes.Equal(sn.st, sn.copyOf) {
				g.Fatalf("the state returned by Store() at offset %d (snapshot #%d) changed while the generator was used further: it was %x, the same slice now holds %x", sn.pos, i, sn.copyOf, sn.st)
			}
			nr, err := random.RestoreChacha20PRG(sn.st)
			if err != nil {
				g.Fatalf("restoring a state stored earlier (offset %d) failed: %v", sn.pos, err)
			}
			buf := make([]byte, 70)
			nr.Read(buf)
			if want := chacha.Keystream(seed, nonce, sn.pos, 70); !bytes.Equal(buf, want) {
				g.Fatalf("a state stored at offset %d and restored after the generator had moved on does not resume at that offset", sn.pos)
			}
		}
		if len(snaps) > 1 {
			g.Class("severalStatesKept")
		}
		// all forks: a final read from each must match the model
		for _, f := range forks {
			buf := make([]byte, 97)
			f.r.Read(buf)
			if want := chacha.Keystream(seed, nonce, f.pos, 97); !bytes.Equal(buf, want) {
				g.Fatalf("final Read(97) at offset %d differs from the keystream", f.pos)
			}
		}
		if unalignedRestore {
			g.Class("restoreAtUnalignedOffset")
		}
		if small && large {
			g.Class("mixedSmallAndLargeReads")
		}
		for k := range kinds {
			g.Class(k)
		}
		if unalignedRestore || (small && large) {
			g.NonTrivial()
		}
	})
}

// TestC14_EveryOffset: every byte offset 0..N of the stream as the store/restore point.
func TestC14_EveryOffset(t *testing.T) {
	gen.Run(t, "C14", func(g *gen.G) {
		seed := g.Bytes("seed", 32, 32)
		cust := g.Bytes("customizer", 0, 12)
		nonce := padNonce(cust)
		max := 300
		if thorough() {
			max = 1100
		}
		chunk := g.Int("chunk", 1, 130) // how the prefix is read
		for off := 0; off <= max; off++ {
			r, err := random.NewChacha20PRG(seed, cust)
			if err != nil {
				g.Fatalf("constructor: %v", err)
			}
			for left := off; left > 0; {
				k := chunk
				if k > left {
					k = left
				}
				r.Read(make([]byte, k))
				left -= k
			}
			nr, err := random.RestoreChacha20PRG(r.Store())
			if err != nil {
				g.Fatalf("restore at %d: %v", off, err)
			}
			buf := make([]byte, 150)
			nr.Read(buf)
			if want := chacha.Keystream(seed, nonce, uint64(off), 150); !bytes.Equal(buf, want) {
				g.Fatalf("restored at offset %d (prefix read in chunks of %d): continuation differs from keystream", off, chunk)
			}
		}
		g.Class("allOffsets")
		g.NonTrivial()
	})
}

// TestC14_Invalid: invalid seed, customizer or state lengths are rejected with an error.
func TestC14_Invalid(t *testing.T) {
	gen.Run(t, "C14", func(g *gen.G) {
		sl := g.Int("seedLen", 0, 80)
		cl := g.Int("custLen", 0, 30)
		seed := g.Expand("seedBytes", sl)
		cust := g.Expand("custBytes", cl)
		r, err := random.NewChacha20PRG(seed, cust)
		wantOK := sl == 32 && cl <= 12
		if wantOK != (err == nil) {
			g.Fatalf("NewChacha20PRG(seed %d bytes, customizer %d bytes): err=%v, expected ok=%v", sl, cl, err, wantOK)
		}
		if err == nil && r == nil {
			g.Fatalf("nil generator without error")
		}
		stl := g.Int("stateLen", 0, 120)
		if g.Chance("state52", 1, 4) {
			stl = 52
		}
		st := g.Expand("stateBytes", stl)
		if stl == 52 {
			// a state as Store() returns it after `counter` output bytes; the counter stays inside the
			// documented 256 GiB (2^38-byte) stream, and is often beyond 2^32 bytes
			st[49], st[50], st[51] = 0, 0, 0
			st[48] &= 0x1F
			if g.Bool("counterBelow4GiB") {
				st[48] = 0
			}
		}
		if stl == 52 && !c14LayoutKnown() {
			// the state layout is not seed‖customizer‖little-endian offset any more: hand-built states are not used
			g.Class("storeLayoutUnknown:handBuiltStatesSkipped")
			return
		}
		r2, err := random.RestoreChacha20PRG(st)
		if stl != 52 && err == nil {
			// (only Store() outputs have a defined length; other lengths must be rejected)
			if l := len(c14RefState()); l != stl {
				g.Fatalf("RestoreChacha20PRG accepted a %d-byte state, Store() returns %d bytes", stl, l)
			}
		}
		if stl == 52 && err != nil {
			g.Fatalf("RestoreChacha20PRG(%d bytes): err=%v", stl, err)
		}
		if err == nil && stl == 52 {
			pos := storedPos(st)
			buf := make([]byte, 70)
			r2.Read(buf)
			if want := chacha.Keystream(st[:32], st[32:44], pos, 70); !bytes.Equal(buf, want) {
				g.Fatalf("restore from a well-formed state at offset %d does not continue the keystream", pos)
			}
		}
		if !wantOK || stl != 52 {
			g.NonTrivial()
			g.Class("rejectedLength")
		}
	})
}

// streamPos locates the stream offset of a generator without looking into the Store() layout: a copy restored
// from Store() is read and its output is searched in the oracle keystream starting at the last known offset.
func streamPos(g *gen.G, r random.Rand, seed, nonce []byte, from uint64, window int) uint64 {
	c, err := random.RestoreChacha20PRG(r.Store())
	if err != nil {
		g.Fatalf("RestoreChacha20PRG(Store()) failed at offset >= %d: %v", from, err)
	}
	probe := make([]byte, 48)
	c.Read(probe)
	ks := chacha.Keystream(seed, nonce, from, window+48)
	i := bytes.Index(ks, probe)
	if i < 0 {
		g.Fatalf("a generator restored from Store() does not continue the keystream within %d bytes after offset %d", window, from)
	}
	return from + uint64(i)
}

var c14Layout struct {
	once  sync.Once
	known bool
	ref   []byte
}

func c14RefState() []byte { c14LayoutKnown(); return c14Layout.ref }

// c14LayoutKnown reports whether Store() still has the layout seed‖zero-padded customizer‖little-endian byte offset,
// which the hand-built states of TestC14_Invalid (offsets beyond 4 GiB) rely on.
func c14LayoutKnown() bool {
	c14Layout.once.Do(func() {
		seed := gen.ExpandSeed(1, 32)
		cust := []byte{9, 8, 7}
		r, err := random.NewChacha20PRG(seed, cust)
		if err != nil {
			return
		}
		r.Read(make([]byte, 77))
		st := r.Store()
		c14Layout.ref = st
		want := append(append(append([]byte{}, seed...), padNonce(cust)...), 77, 0, 0, 0, 0, 0, 0, 0)
		c14Layout.known = bytes.Equal(st, want)
	})
	return c14Layout.known
}

func storedPos(st []byte) uint64 {
	var p uint64
	for i := 0; i < 8; i++ {
		p |= uint64(st[44+i]) << (8 * i)
	}
	return p
}

func head(b []byte) []byte {
	if len(b) > 16 {
		return b[:16]
	}
	return b
}

func identityPerm(n int) []int {
	x := make([]int, n)
	for i := range x {
		x[i] = i
	}
	return x
}

func equalInts(a, b []int) bool {
	if len(a) != len(b) {
		return false
	}
	for i := range a {
		if a[i] != b[i] {
			return false
		}
	}
	return true
}

// modelUintN is the documented algorithm of UintN over the oracle keystream:
// draw ceil(bitlen(n-1)/8) bytes, little-endian, mask to bitlen(n-1) bits,
// repeat until the value is <= n-1.
func modelUintN(seed, nonce []byte, pos uint64, n uint64) (val uint64, used uint64) {
	max := n - 1
	size := 0
	for tmp := max; tmp != 0; tmp >>= 8 {
		size++
	}
	bits := 0
	for tmp := max; tmp != 0; tmp >>= 1 {
		bits++
	}
	var mask uint64
	if bits == 64 {
		mask = ^uint64(0)
	} else {
		mask = (uint64(1) << uint(bits)) - 1
	}
	for {
		b := chacha.Keystream(seed, nonce, pos+used, size)
		used += uint64(size)
		var v uint64
		for i := 0; i < size; i++ {
			v |= uint64(b[i]) << (8 * uint(i))
		}
		v &= mask
		if v <= max {
			return v, used
		}
	}
}

func modelPermutation(seed, nonce []byte, pos uint64, n int) ([]int, uint64) {
	items := make([]int, n)
	var used uint64
	for i := 0; i < n; i++ {
		j, u := modelUintN(seed, nonce, pos+used, uint64(i+1))
		used += u
		items[i] = items[j]
		items[j] = i
	}
	return items, used
}
