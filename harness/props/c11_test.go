package props

// C11 — ECDSA verification is exact on P-256 and secp256k1 for every hasher.

import (
	"bytes"
	"fmt"
	"math/big"
	"testing"

	"github.com/onflow/crypto"
	"github.com/onflow/crypto/hash"

	"verifharness/gen"
)

type wecCand struct {
	b    []byte
	kind string
}

// c11Nonce draws a per-message secret for the oracle's own signatures.
func c11Nonce(g *gen.G, label string, cv *wecCurve) *big.Int {
	switch g.Int(label+"Kind", 0, 4) {
	case 0:
		return big.NewInt(1)
	case 1:
		return new(big.Int).Sub(cv.c.N, one)
	case 2:
		return big.NewInt(int64(g.Int(label+"Small", 2, 70000)))
	default:
		k := new(big.Int).SetBytes(g.Bytes(label+"Rand", 32, 32))
		k.Mod(k, new(big.Int).Sub(cv.c.N, one))
		return k.Add(k, one)
	}
}

// The candidate kinds that pass the format check (almost always) and therefore
// cost one full oracle verification each; every case evaluates a drawn subset.
var c11CostlyKinds = []string{
	"oracleSig", "oracleLeadingZeroR", "twin", "oracleTwin", "swapped", "bitflip", "otherMessage",
	"otherKey", "otherCurve", "random64", "offByOne", "negatedR", "rightmostDigest",
}

func TestC11_Exact(t *testing.T) {
	gen.Run(t, "C11", func(g *gen.G) {
		cv := wecDrawCurve(g, "curve")
		n := cv.c.N
		k := wecDrawKey(g, "key", cv)
		msg := g.Bytes("msg", 0, 300)
		hs := wecDrawHasher(g, "hasher", cv)
		h := hs.h
		if h.Size() != hs.size {
			g.Fatalf("%s: Size() = %d, want %d", hs.desc, h.Size(), hs.size)
		}
		if _, scripted := h.(*scriptHasher); !scripted && g.Chance("dirtyHasher", 1, 3) {
			// ComputeHash is documented to be independent of the existing state: the hasher object gets a generated history
			rate := map[string]int{"SHA2_256": 64, "SHA2_384": 128, "SHA3_256": 136, "SHA3_384": 104, "Keccak_256": 136, "KMAC128": 168}[hs.name]
			ageHasher(g, "age", h, rate)
			g.Class("dirtyHasher")
		}
		ctx := fmt.Sprintf("%v, message %x, %s", k, msg, hs.desc)

		// the oracle's view: public point d·G and the leftmost 256 bits of the digest
		q, rawPub, _ := wecPub(cv, k.d)
		if enc := k.pk.Encode(); !bytes.Equal(enc, rawPub) {
			g.Fatalf("%v: PublicKey().Encode() = %x, the oracle computes d·G = X‖Y = %x", k, enc, rawPub)
		}
		full := hs.ref(msg)
		if len(full) != hs.size {
			g.Fatalf("harness error: oracle digest of %s has %d bytes", hs.desc, len(full))
		}
		e := full[:32]

		verdict := func(c []byte) bool {
			if len(c) != 64 {
				return false
			}
			r, s := wecSplit(c)
			return cv.c.Verify(q.X, q.Y, e, r, s)
		}

		// the library's own signature
		sig, err := k.sk.Sign(msg, h)
		if err != nil {
			g.Fatalf("Sign failed under %s: %v", ctx, err)
		}
		if len(sig) != 64 {
			g.Fatalf("Sign returned %d bytes (%x) under %s, want 64 bytes r‖s", len(sig), []byte(sig), ctx)
		}
		libSig := append([]byte{}, sig...)
		g.Note("library signature (randomized, differs in a replay): %x", libSig)
		libR, libS := wecSplit(libSig)

		var cands []wecCand
		add := func(b []byte, kind string) { cands = append(cands, wecCand{append([]byte{}, b...), kind}) }
		add(libSig, "libSig")

		// second key and message: used by some candidates and by the
		// "format check false ⇒ rejected for every key and message" clause
		k2 := wecDrawKey(g, "key2", cv)
		var msg2 []byte
		switch g.Int("msg2Kind", 0, 3) {
		case 0:
			msg2 = append(append([]byte{}, msg...), byte(g.Int("msg2Byte", 0, 255)))
		case 1:
			if len(msg) > 0 {
				msg2 = append([]byte{}, msg...)
				pos := g.Int("msg2FlipPos", 0, 8*len(msg)-1)
				msg2[pos/8] ^= 0x80 >> uint(pos%8)
			} else {
				msg2 = []byte{0}
			}
		case 2:
			if len(msg) > 0 {
				msg2 = append([]byte{}, msg[:len(msg)-1]...)
			} else {
				msg2 = []byte{0x80}
			}
		default:
			msg2 = g.Bytes("msg2", 0, 300)
		}

		// --- candidates that need a full oracle verification: a drawn subset ---
		nPick := 4
		if thorough() {
			nPick = 8
		}
		perm := g.Perm("kinds", len(c11CostlyKinds))
		oracleSign := func(label string, digest []byte) (r, s *big.Int, ok bool) {
			nonce := c11Nonce(g, label, cv)
			return cv.c.SignWithNonce(k.d, digest, nonce)
		}
		for _, idx := range perm[:nPick] {
			switch kind := c11CostlyKinds[idx]; kind {
			case "oracleSig":
				if r, s, ok := oracleSign("nonce", e); ok {
					add(wecJoin(r, s), kind)
				}
			case "oracleLeadingZeroR":
				xs, _ := cv.smallTables()
				if len(xs) == 0 {
					break
				}
				nonce := big.NewInt(xs[g.Pick("nonceLeadingZero", len(xs))])
				if r, s, ok := cv.c.SignWithNonce(k.d, e, nonce); ok {
					b := wecJoin(r, s)
					if b[0] != 0 {
						g.Fatalf("harness error: nonce %v does not give an r with a leading zero byte: %x", nonce, b)
					}
					add(b, kind)
					add(b[1:], "strippedLeadingZero") // 63 bytes: minimal-length r is not the format
				}
			case "twin":
				add(wecJoin(libR, new(big.Int).Sub(n, libS)), kind)
			case "oracleTwin":
				if r, s, ok := oracleSign("nonceTwin", e); ok {
					add(wecJoin(r, new(big.Int).Sub(n, s)), kind)
				}
			case "swapped":
				add(wecJoin(libS, libR), kind)
			case "bitflip":
				b := append([]byte{}, libSig...)
				pos := g.Int("flipPos", 0, 511)
				b[pos/8] ^= 0x80 >> uint(pos%8)
				add(b, kind)
			case "otherMessage":
				s2, err := k.sk.Sign(msg2, h)
				if err != nil {
					g.Fatalf("Sign of message %x failed under %v, %s: %v", msg2, k, hs.desc, err)
				}
				add(s2, kind)
			case "otherKey":
				if k2.d.Cmp(k.d) == 0 {
					break
				}
				s2, err := k2.sk.Sign(msg, h)
				if err != nil {
					g.Fatalf("Sign failed under %v, message %x, %s: %v", k2, msg, hs.desc, err)
				}
				add(s2, kind)
			case "otherCurve":
				ocv := cv.other()
				if k.d.Cmp(ocv.c.N) >= 0 {
					break
				}
				osk := wecDecodeSK(g, ocv, k.d)
				s2, err := osk.Sign(msg, h)
				if err != nil {
					g.Fatalf("Sign failed under %s key d=%x, message %x, %s: %v", ocv.name, scalarBytes(k.d), msg, hs.desc, err)
				}
				add(s2, kind)
			case "random64":
				add(g.Bytes("random64", 64, 64), kind)
			case "offByOne":
				r, s := new(big.Int).Set(libR), new(big.Int).Set(libS)
				v := s
				if g.Bool("offByOneR") {
					v = r
				}
				if g.Bool("offByOneDown") {
					v.Sub(v, one)
				} else {
					v.Add(v, one)
				}
				add(wecJoin(r, s), kind)
			case "negatedR":
				s := libS
				if g.Bool("negateBoth") {
					s = new(big.Int).Sub(n, libS)
				}
				add(wecJoin(new(big.Int).Sub(n, libR), s), kind)
			case "rightmostDigest":
				// a signature over the rightmost instead of the leftmost 256 bits
				if hs.size == 32 {
					break
				}
				if r, s, ok := oracleSign("nonceRightmost", full[hs.size-32:]); ok {
					add(wecJoin(r, s), kind)
				}
			}
		}

		// --- candidates the format check rejects (cheap for the oracle) ---
		two256m1 := new(big.Int).Sub(new(big.Int).Lsh(one, 256), one)
		for i, v := range []*big.Int{new(big.Int), n, new(big.Int).Add(n, one), two256m1} {
			name := []string{"0", "n", "n+1", "2^256-1"}[i]
			add(wecJoin(v, libS), "r="+name)
			add(wecJoin(libR, v), "s="+name)
		}
		add(make([]byte, 64), "allZero")
		add(append([]byte{0}, libSig...), "zeroPrefixed")
		// every length 0..130 but 64: the valid signature truncated / zero-extended
		for L := 0; L <= 130; L++ {
			if L == 64 {
				continue
			}
			b := make([]byte, L)
			copy(b, libSig)
			cands = append(cands, wecCand{b, "everyLength"})
		}
		if L := g.Int("randLen", 0, 130); L != 64 {
			add(g.Expand("randLenData", L), "randomBytesOtherLength")
		}
		// extension of the valid signature with non-zero bytes
		add(append(append([]byte{}, libSig...), g.Bytes("extension", 1, 66)...), "extended")

		// the slice Sign returned was kept uncopied while the key signed other messages
		if !bytes.Equal(sig, libSig) {
			g.Fatalf("the signature returned by Sign changed while the key object was used further (%s): %x, was %x", ctx, []byte(sig), libSig)
		}

		// --- the complete differential ---
		formatOKRejected, twinAccepted := false, false
		seen := map[string]bool{}
		for _, c := range cands {
			fmtWant := wecFormatOK(cv, c.b)
			fmtGot, err := crypto.SignatureFormatCheck(cv.algo, c.b)
			if err != nil {
				g.Fatalf("SignatureFormatCheck(%s, %s candidate %x) returned error %v", cv.name, c.kind, c.b, err)
			}
			if fmtGot != fmtWant {
				g.Fatalf("SignatureFormatCheck(%s, %s candidate %x) = %v, want %v (64 bytes r‖s with 1 <= r, s < n)", cv.name, c.kind, c.b, fmtGot, fmtWant)
			}
			want := verdict(c.b)
			got, err := k.pk.Verify(c.b, msg, h)
			if err != nil {
				g.Fatalf("Verify(%s candidate %x) returned error %v under %s", c.kind, c.b, err, ctx)
			}
			if !fmtGot && got {
				g.Fatalf("SignatureFormatCheck(%s) is false for the %s candidate %x but Verify accepts it under %s", cv.name, c.kind, c.b, ctx)
			}
			if got != want {
				g.Fatalf("Verify(%s candidate %x) = %v under %s; the ECDSA equation on the leftmost 256 bits %x of the digest gives %v", c.kind, c.b, got, ctx, e, want)
			}
			switch {
			case c.kind == "libSig" && !got:
				g.Fatalf("the signature %x returned by Sign does not verify under %s", c.b, ctx)
			case (c.kind == "oracleSig" || c.kind == "oracleLeadingZeroR" || c.kind == "twin" || c.kind == "oracleTwin") && !got:
				g.Fatalf("harness error: %s candidate %x is rejected by both sides under %s", c.kind, c.b, ctx)
			}
			if !fmtGot {
				// false format check ⇒ rejected for every key and message
				ok, err := k2.pk.Verify(c.b, msg2, h)
				if ok || err != nil {
					g.Fatalf("SignatureFormatCheck(%s) is false for the %s candidate %x but Verify under %v, message %x, %s returns (%v, %v)", cv.name, c.kind, c.b, k2, msg2, hs.desc, ok, err)
				}
			}
			if fmtGot && !got {
				formatOKRejected = true
			}
			if got && (c.kind == "twin" || c.kind == "oracleTwin") {
				twinAccepted = true
			}
			if !seen[c.kind] {
				seen[c.kind] = true
				g.Class("cand:" + c.kind)
			}
		}
		g.Class("curve:" + cv.name)
		g.Class("hasher:" + hs.name)
		g.Class("key:" + k.how)
		if formatOKRejected {
			g.Class("formatOKButRejected")
		}
		if twinAccepted {
			g.Class("twinAccepted")
		}
		if formatOKRejected || twinAccepted {
			g.NonTrivial()
		}
	})
}

// TestC11_Hasher: nil hashers and hashers with an output shorter than 32 bytes
// are refused by Sign and Verify with the documented typed errors; size 32 is
// the smallest accepted size.
func TestC11_Hasher(t *testing.T) {
	gen.Run(t, "C11", func(g *gen.G) {
		cv := wecDrawCurve(g, "curve")
		k := wecDrawKey(g, "key", cv)
		msg := g.Bytes("msg", 0, 60)
		// a well-formed signature made with a proper hasher, or garbage
		var sig []byte
		if g.Bool("garbageSig") {
			sig = g.Bytes("sig", 0, 70)
		} else {
			s, err := k.sk.Sign(msg, hash.NewSHA2_256())
			if err != nil {
				g.Fatalf("Sign with SHA2_256 failed under %v: %v", k, err)
			}
			sig = s
		}
		var h hash.Hasher
		var desc string
		size := -1
		switch g.Int("hasherKind", 0, 3) {
		case 0:
			desc = "nil hasher"
		case 1:
			size = g.Int("kmacSize", 0, 32)
			key := g.Bytes("kmacKey", 16, 32)
			var err error
			if h, err = hash.NewKMAC_128(key, nil, size); err != nil {
				g.Fatalf("NewKMAC_128(key %x, size %d) failed: %v", key, size, err)
			}
			desc = fmt.Sprintf("KMAC128(key %x) of size %d", key, size)
		case 2:
			size = g.Int("customSize", 0, 32)
			h = &scriptHasher{out: g.Expand("customOut", size), size: size}
			desc = fmt.Sprintf("custom hasher of size %d", size)
		default:
			size = g.Int("boundarySize", 30, 32)
			h = &scriptHasher{out: g.Expand("customOut", size), size: size}
			desc = fmt.Sprintf("custom hasher of size %d", size)
		}
		s, serr := k.sk.Sign(msg, h)
		ok, verr := k.pk.Verify(sig, msg, h)
		switch {
		case h == nil:
			if !crypto.IsNilHasherError(serr) {
				g.Fatalf("Sign with a nil hasher under %v: error %v, want the nil-hasher error", k, serr)
			}
			if ok || !crypto.IsNilHasherError(verr) {
				g.Fatalf("Verify(%x) with a nil hasher under %v returned (%v, %v), want (false, nil-hasher error)", sig, k, ok, verr)
			}
			g.Class("nilHasher")
			g.NonTrivial()
		case size < 32:
			if !crypto.IsInvalidHasherSizeError(serr) {
				g.Fatalf("Sign with a %s under %v: error %v, want an invalid-hasher-size error", desc, k, serr)
			}
			if ok || !crypto.IsInvalidHasherSizeError(verr) {
				g.Fatalf("Verify(%x) with a %s under %v returned (%v, %v), want (false, invalid-hasher-size error)", sig, desc, k, ok, verr)
			}
			g.Class("shortHasher")
			g.NonTrivial()
		default: // exactly 32 bytes: accepted
			if serr != nil || len(s) != 64 {
				g.Fatalf("Sign with a %s under %v returned (%x, %v), want a 64-byte signature", desc, k, []byte(s), serr)
			}
			if verr != nil {
				g.Fatalf("Verify(%x) with a %s under %v returned error %v", sig, desc, k, verr)
			}
			if ok2, err := k.pk.Verify(s, msg, h); !ok2 || err != nil {
				g.Fatalf("Verify of the signature %x just made with a %s under %v, message %x returned (%v, %v)", []byte(s), desc, k, msg, ok2, err)
			}
			g.Class("size32Accepted")
		}
		g.Class("curve:" + cv.name)
	})
}
