package props

// C17 — SPoCK verification holds exactly for proofs of one message under claimed keys.

import (
	"bytes"
	"fmt"
	"math/big"
	"testing"

	"github.com/onflow/crypto"
	"github.com/onflow/crypto/hash"

	"verifharness/gen"
	"verifharness/oracle/bls381"
)

func TestC17_Verify(t *testing.T) {
	gen.Run(t, "C17", func(g *gen.G) {
		x1, _ := drawScalar(g, "x1")
		var x2 *big.Int
		switch g.Int("x2Kind", 0, 3) {
		case 0:
			x2 = x1
		case 1:
			x2 = new(big.Int).Sub(blsR, x1)
		default:
			x2, _ = drawScalar(g, "x2")
		}
		sk1, sk2 := decodeSK(g, x1), decodeSK(g, x2)
		pk1, pk2 := sk1.PublicKey(), sk2.PublicKey()
		pk1 = pkVariant(g, "pk1Via", blsKey{pk: pk1, x: x1})
		pk2 = pkVariant(g, "pk2Via", blsKey{pk: pk2, x: x2})
		data := g.Bytes("data", 0, 60)
		h, hd := drawHasher(g, "hasher")
		B := hashToG1(g, data, h)
		// SPOCKProve == Sign, SPOCKVerifyAgainstData == Verify
		pr1, err := crypto.SPOCKProve(sk1, data, h)
		s1, _ := sk1.Sign(data, h)
		if err != nil || !bytes.Equal(pr1, s1) || !bytes.Equal(pr1, bls381.G1Compress(B.Mul(x1))) {
			g.Fatalf("SPOCKProve = (%x, %v), Sign = %x, oracle x1·H(data) = %x", []byte(pr1), err, []byte(s1), bls381.G1Compress(B.Mul(x1)))
		}
		pr2, _ := crypto.SPOCKProve(sk2, data, h)
		if ok, err := crypto.SPOCKVerify(pk1, pr1, pk2, pr2); !ok || err != nil {
			g.Fatalf("two SPOCKProve proofs over the same data (%s) do not verify: (%v, %v)", hd, ok, err)
		}
		// generated (a, b): p1 = a·B, p2 = b·B'
		var a, b *big.Int
		kind := ""
		switch g.Int("abKind", 0, 6) {
		case 0:
			a, b, kind = x1, x2, "honest"
		case 1:
			c := big.NewInt(int64(g.Int("c", 2, 1<<20)))
			a, b, kind = new(big.Int).Mod(new(big.Int).Mul(c, x1), blsR), new(big.Int).Mod(new(big.Int).Mul(c, x2), blsR), "commonFactor"
		case 2:
			a, b, kind = x2, x1, "attributedToWrongKey"
		case 3:
			a, b, kind = big.NewInt(0), x2, "firstIsIdentity"
		case 4:
			a, b, kind = big.NewInt(0), big.NewInt(0), "bothIdentity"
		case 5:
			a, _ = drawScalar(g, "a")
			b, _ = drawScalar(g, "b")
			kind = "unrelated"
		default:
			a, b, kind = x1, new(big.Int).Mod(new(big.Int).Add(x2, one), blsR), "offByOne"
		}
		sameBase := !g.Chance("otherBase", 1, 5)
		B2 := B
		if !sameBase {
			B2 = hashToG1(g, append(append([]byte{}, data...), 0x55), h)
			if B2.Equal(B) { // a scripted hasher ignores the data: same base after all
				sameBase = true
			} else {
				kind += "+otherData"
			}
		}
		P1, P2 := B.Mul(a), B2.Mul(b)
		p1, p2 := bls381.G1Compress(P1), bls381.G1Compress(P2)
		want := false
		if sameBase {
			lhs := new(big.Int).Mod(new(big.Int).Mul(a, x2), blsR)
			rhs := new(big.Int).Mod(new(big.Int).Mul(b, x1), blsR)
			want = lhs.Cmp(rhs) == 0
		} else {
			want = P1.Inf && P2.Inf // independent bases: only the trivial solution
		}
		check := func(k1 crypto.PublicKey, q1 []byte, k2 crypto.PublicKey, q2 []byte, w bool, what string) {
			in1, in2 := append([]byte{}, q1...), append([]byte{}, q2...)
			ok, err := crypto.SPOCKVerify(k1, in1, k2, in2)
			if err != nil || ok != w {
				g.Fatalf("SPOCKVerify (%s, %s) = (%v, %v), expected %v; x1=%x x2=%x a=%x b=%x p1=%x p2=%x", kind, what, ok, err, w, scalarBytes(x1), scalarBytes(x2), scalarBytes(a), scalarBytes(b), q1, q2)
			}
			if !bytes.Equal(in1, q1) || !bytes.Equal(in2, q2) {
				g.Fatalf("SPOCKVerify modified a proof argument")
			}
			ok2, err := crypto.SPOCKVerify(k2, q2, k1, q1)
			if err != nil || ok2 != w {
				g.Fatalf("SPOCKVerify with the two pairs swapped (%s, %s) = (%v, %v), expected %v", kind, what, ok2, err, w)
			}
		}
		check(pk1, p1, pk2, p2, want, "as built")
		// mutations of the first proof: everything that is not the canonical encoding of a G1 point is rejected
		for _, c := range sigCandidates(g, P1, "c") {
			if bytes.Equal(c.b, p1) {
				continue
			}
			w := false
			if pt, err := bls381.G1Decompress(c.b); err == nil && pt.InSubgroup() && sameBase {
				// another G1 point: accepted iff it still satisfies the equation; it is k·B only for known constructions
				switch c.kind {
				case "negated":
					w = new(big.Int).Mod(new(big.Int).Mul(new(big.Int).Sub(blsR, a), x2), blsR).Cmp(new(big.Int).Mod(new(big.Int).Mul(b, x1), blsR)) == 0
				case "infinity":
					w = new(big.Int).Mod(new(big.Int).Mul(b, x1), blsR).Sign() == 0
				default:
					continue // relation to B unknown (random G1 point, s + k·G): verdict not predicted
				}
			} else if err == nil && pt.InSubgroup() {
				continue
			}
			check(pk1, c.b, pk2, p2, w, "first proof replaced by "+c.kind)
		}
		// both proofs changed together
		{
			seed := g.Bytes("pairTorsionSeed", 1, 4)
			var T bls381.G1
			switch g.Int("pairTorsionKind", 0, 2) {
			case 0:
				T, _ = bls381.G1SmallOrderPoint(3, seed)
			case 1:
				T, _ = bls381.G1SmallOrderPoint(11, seed)
			default:
				T = bls381.G1TorsionPoint(seed)
			}
			if !T.Inf {
				// components outside G1 that cancel in p1 + p2 (or are equal): neither proof is a G1 element
				check(pk1, bls381.G1Compress(P1.Add(T)), pk2, bls381.G1Compress(P2.Add(T.Neg())), false, "proofs p1+T and p2-T (opposite torsion components)")
				check(pk1, bls381.G1Compress(P1.Add(T)), pk2, bls381.G1Compress(P2.Add(T)), false, "proofs p1+T and p2+T (equal torsion components)")
				check(pk1, bls381.G1Compress(P1.Add(T)), pk2, bls381.G1Compress(P1.Add(T).Neg()), false, "proofs p1+T and -(p1+T)")
				g.Class("pair:torsionBoth")
			}
			// G1-preserving joint transformations keep the verdict: (−p1, −p2) and (c·p1, c·p2)
			check(pk1, bls381.G1Compress(P1.Neg()), pk2, bls381.G1Compress(P2.Neg()), want, "both proofs negated")
			c := big.NewInt(int64(g.Int("pairScale", 2, 1<<16)))
			check(pk1, bls381.G1Compress(P1.Mul(c)), pk2, bls381.G1Compress(P2.Mul(c)), want, "both proofs scaled by the same factor")
			// negating one key and its own proof... e(p1, -pk2) = e(-p1, pk2): verdict for (pk1, -p1, -pk2, p2) is unchanged
			if x2.Sign() != 0 {
				npk2 := decodeSK(g, new(big.Int).Sub(blsR, x2)).PublicKey()
				check(pk1, bls381.G1Compress(P1.Neg()), npk2, p2, want, "first proof and second key negated")
			}
		}
		// identity keys reject
		for i, idk := range identityKeys(g, blsKey{x: x1, pk: pk1}) {
			if ok, err := crypto.SPOCKVerify(idk, p1, pk2, p2); ok || err != nil {
				g.Fatalf("SPOCKVerify with identity key #%d as pk1 = (%v, %v)", i, ok, err)
			}
			if ok, err := crypto.SPOCKVerify(pk1, p1, idk, p2); ok || err != nil {
				g.Fatalf("SPOCKVerify with identity key #%d as pk2 = (%v, %v)", i, ok, err)
			}
			idp := bls381.G1Compress(bls381.G1Infinity())
			if ok, err := crypto.SPOCKVerify(idk, idp, idk, idp); ok || err != nil {
				g.Fatalf("SPOCKVerify(identity key, identity proof, identity key, identity proof) = (%v, %v)", ok, err)
			}
		}
		// SPOCKVerifyAgainstData == Verify
		for _, q := range [][]byte{p1, pr1} {
			v1, e1 := crypto.SPOCKVerifyAgainstData(pk1, q, data, h)
			v2, e2 := pk1.Verify(q, data, h)
			if v1 != v2 || (e1 == nil) != (e2 == nil) {
				g.Fatalf("SPOCKVerifyAgainstData = (%v, %v) but Verify = (%v, %v)", v1, e1, v2, e2)
			}
		}
		g.Class("ab:" + kind)
		g.Class(fmt.Sprintf("verdict=%v", want))
		if (want && kind != "honest") || (!want && !P1.Inf && !P2.Inf) {
			g.NonTrivial()
		}
	})
}

func TestC17_NonBLS(t *testing.T) {
	gen.Run(t, "C17", func(g *gen.G) {
		ek := ecdsaKey(g)
		k := drawKey(g, "key")
		h := crypto.NewExpandMsgXOFKMAC128("t")
		pr, _ := crypto.SPOCKProve(k.sk, []byte("d"), h)
		// "refuse non-BLS keys with the not-a-BLS-key error" has no condition on the other arguments: the hasher that comes
		// with such a key is often the wrong one as well (nil, SHA2/SHA3 for an ECDSA key, a KMAC of another size)
		var eh hash.Hasher = h
		ehKind := g.Int("hasherWithNonBLSKey", 0, 4)
		switch ehKind {
		case 1:
			eh = nil
		case 2:
			eh = hash.NewSHA2_256()
		case 3:
			eh = hash.NewSHA3_256()
		case 4:
			eh, _ = hash.NewKMAC_128([]byte("0123456789abcdef"), nil, 64)
		}
		epr := pr
		if g.Bool("shortProofWithNonBLSKey") {
			epr = pr[:g.Int("proofLen", 0, 47)]
		}
		if p, err := crypto.SPOCKProve(ek, []byte("d"), eh); p != nil || !crypto.IsNotBLSKeyError(err) {
			g.Fatalf("SPOCKProve(ECDSA key, hasher kind %d) = (%x, %v), the not-a-BLS-key error is documented", ehKind, []byte(p), err)
		}
		if ok, err := crypto.SPOCKVerifyAgainstData(ek.PublicKey(), epr, []byte("d"), eh); ok || !crypto.IsNotBLSKeyError(err) {
			g.Fatalf("SPOCKVerifyAgainstData(ECDSA key, %d-byte proof, hasher kind %d) = (%v, %v), the not-a-BLS-key error is documented", len(epr), ehKind, ok, err)
		}
		g.Class(fmt.Sprintf("nonBLSKey:hasherKind%d", ehKind))
		if ok, err := crypto.SPOCKVerify(ek.PublicKey(), pr, k.pk, pr); ok || !crypto.IsNotBLSKeyError(err) {
			g.Fatalf("SPOCKVerify(ECDSA key first) = (%v, %v)", ok, err)
		}
		if ok, err := crypto.SPOCKVerify(k.pk, pr, ek.PublicKey(), pr); ok || !crypto.IsNotBLSKeyError(err) {
			g.Fatalf("SPOCKVerify(ECDSA key second) = (%v, %v)", ok, err)
		}
		// nil / wrong-size hashers
		if p, err := crypto.SPOCKProve(k.sk, []byte("d"), nil); p != nil || !crypto.IsNilHasherError(err) {
			g.Fatalf("SPOCKProve(nil hasher) = (%x, %v)", []byte(p), err)
		}
		if ok, err := crypto.SPOCKVerifyAgainstData(k.pk, pr, []byte("d"), nil); ok || !crypto.IsNilHasherError(err) {
			g.Fatalf("SPOCKVerifyAgainstData(nil hasher) = (%v, %v)", ok, err)
		}
		g.NonTrivial()
	})
}
