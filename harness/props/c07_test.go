package props

// C07 — DKG: honest participants agree on the verdict and on consistent keys.
// C08 — DKG qualification is fair: honest never blamed, bad dealing never accepted.
// Both are decided by the network simulator in harness/sim.

import (
	"bytes"
	"fmt"
	"math/big"
	"sort"
	"strings"
	"testing"

	"github.com/onflow/crypto"

	"verifharness/gen"
	"verifharness/oracle/bls381"
	"verifharness/oracle/fr"
	"verifharness/sim"
)

// dkgScenario draws and runs one scenario of a Qual-based protocol.
func dkgScenario(g *gen.G) *sim.Sim {
	proto := sim.FeldmanVSSQual
	if g.Bool("jointFeldman") {
		proto = sim.JointFeldman
	}
	maxN := 5
	if thorough() {
		maxN = 7
		if g.Chance("n10", 1, 40) {
			maxN = 10
		}
	}
	n := g.Int("n", 2, maxN)
	if n < 4 && maxN >= 5 && g.Chance("atLeastFour", 1, 2) {
		n = 4 + g.Int("nExtra", 0, maxN-4) // three honest participants and a Byzantine one need n >= 4: half of the small networks are enlarged
	}
	t := g.Int("t", 1, n-1)
	if dkgLarge {
		// groups at and next to the maximum size (participant indices fill a byte); thresholds stay small because every
		// participant evaluates the dealer's polynomial at every index
		if proto == sim.JointFeldman {
			n = []int{24, 33, 40}[g.Pick("nLargeJoint", 3)]
		} else {
			n = []int{129, 200, 253, 254}[g.Pick("nLarge", 4)]
		}
		t = g.Int("tLarge", 1, 3)
		g.Class(fmt.Sprintf("largeNetwork:%v:n=%d", proto, n))
	}
	nbyz := g.Int("byzantine", 0, min(t, n-1))
	byz := g.Perm("byzSet", n)[:nbyz]
	dealer := g.Pick("dealer", n)
	if nbyz > 0 && proto == sim.FeldmanVSSQual && g.Chance("byzDealer", 2, 3) {
		dealer = byz[0]
	}
	s := sim.New(g, proto, n, t, dealer, byz, mustSwapped(g))
	s.KnownF5 = knownActive("F5")
	// one scenario in three uses the "one victim, one wildcard" template: a Byzantine dealer mistreats the share of exactly
	// one honest participant and is otherwise honest except at one generated fault point (where anything may happen)
	if nbyz > 0 && nbyz < n && g.Chance("template", 1, 3) {
		var hon []int
		for i := 0; i < n; i++ {
			isB := false
			for _, b := range byz {
				if b == i {
					isB = true
				}
			}
			if !isB {
				hon = append(hon, i)
			}
		}
		s.Template, s.Victim, s.Wildcard = true, hon[g.Pick("victim", len(hon))], g.Int("wildcard", 0, 3*n+8)
		if dkgLarge && g.Bool("victimAtTheTop") {
			s.Victim = hon[len(hon)-1-g.Int("victimFromTop", 0, min(2, len(hon)-1))] // the last indices of a large group
		}
		g.Class("template:oneVictimOneWildcard")
		if !s.KnownF5 && g.Chance("victimEarlyAnswer", 1, 3) {
			s.VictimEarlyAnswer, s.EarlyAnswerRound = 1+g.Int("earlyAnswerWrong", 0, 1), g.Int("earlyAnswerRound", 1, 2)
			s.VectorLast = g.Chance("vectorLast", 1, 3)
			g.Class("template:dealerAnswersForVictimUnasked")
		}
	}
	// accuse template: Byzantine participants raise groundless complaints against honest dealers at generated points of
	// rounds 1 and 2 (what an honest dealer under accusation may be blamed for is the subject of C08)
	accuseNum := 1
	if s.Template && proto == sim.JointFeldman {
		accuseNum = 2 // a Byzantine dealer that mistreats a victim and accuses an honest dealer right after its own answer
	}
	if nbyz > 0 && nbyz < n && (proto == sim.JointFeldman || !s.Nodes[dealer].Byz) && g.Chance("accuse", accuseNum, 4) {
		s.Accuse = true
		g.Class("template:accuseHonestDealer")
	}
	// accomplice template (needs two Byzantine participants): the Byzantine dealer and an accomplice exchange an answer
	// and a complaint at generated points, around the dealer's treatment of the honest victim
	if s.Template && nbyz >= 2 && g.Chance("accomplice", 1, 2) {
		dl := dealer
		if proto == sim.JointFeldman || !s.Nodes[dealer].Byz {
			dl = byz[0]
		}
		if s.Nodes[dl].Byz && (proto == sim.JointFeldman || dl == dealer) {
			for _, b := range byz {
				if b != dl {
					s.AccDealer, s.Accomplice = dl, b
					g.Class("template:accomplice")
					break
				}
			}
		}
	}
	s.Run()
	g.Note("%v n=%d t=%d dealer=%d byzantine=%v", proto, n, t, dealer, byz)
	return s
}

func dkgTrace(s *sim.Sim) string { return strings.Join(s.Trace, "\n") }

func honest(s *sim.Sim) []*sim.Node {
	var out []*sim.Node
	for _, nd := range s.Nodes {
		if !nd.Byz {
			out = append(out, nd)
		}
	}
	return out
}

// disqSet is the set of dealers a participant disqualified (Joint-Feldman: the
// targets of its Disqualify callbacks; single-dealer protocols: the dealer iff End failed).
func disqSet(s *sim.Sim, nd *sim.Node) string {
	set := map[int]bool{}
	if s.Proto == sim.JointFeldman {
		for _, e := range nd.Events {
			if e.Disqualify {
				set[e.Target] = true
			}
		}
	} else if nd.Err != nil {
		set[s.Dealer] = true
	}
	var l []int
	for k := range set {
		l = append(l, k)
	}
	sort.Ints(l)
	return fmt.Sprint(l)
}

func outcome(nd *sim.Node) string {
	if nd.Err != nil {
		if crypto.IsDKGFailureError(nd.Err) {
			return "dkg-failure"
		}
		return "unexpected-error: " + nd.Err.Error()
	}
	h := fmt.Sprintf("group=%x", nd.GPK.Encode())
	for _, pk := range nd.PKs {
		h += fmt.Sprintf("/%x", pk.Encode()[:8])
	}
	return h
}

func checkC07(g *gen.G, s *sim.Sim, deep bool) {
	hs := honest(s)
	if len(hs) == 0 {
		return
	}
	for _, nd := range hs {
		if nd.Err != nil && !crypto.IsDKGFailureError(nd.Err) {
			g.Fatalf("honest node %d: End returned an error that is not a DKG failure: %v\n%s", nd.Idx, nd.Err, dkgTrace(s))
		}
	}
	// (a) same set of disqualified dealers, (b) same verdict and the same public keys
	for _, nd := range hs[1:] {
		if a, b := disqSet(s, hs[0]), disqSet(s, nd); a != b {
			g.Fatalf("%v n=%d t=%d: honest nodes %d and %d disagree on the disqualified dealers: %s vs %s\n%s", s.Proto, s.N, s.T, hs[0].Idx, nd.Idx, a, b, dkgTrace(s))
		}
		if a, b := outcome(hs[0]), outcome(nd); a != b {
			g.Fatalf("%v n=%d t=%d: honest nodes %d and %d leave End with different results:\n  %s\n  %s\n%s", s.Proto, s.N, s.T, hs[0].Idx, nd.Idx, a, b, dkgTrace(s))
		}
	}
	checkComposition(g, s, deep)
	if hs[0].Err != nil {
		g.Class("outcome:failure")
		return
	}
	g.Class("outcome:keys")
	// (c) each honest private share matches its public share
	for _, nd := range hs {
		if len(nd.PKs) != s.N {
			g.Fatalf("node %d: End returned %d public key shares for n=%d", nd.Idx, len(nd.PKs), s.N)
		}
		if !nd.SK.PublicKey().Equals(nd.PKs[nd.Idx]) {
			g.Fatalf("%v: honest node %d: private share does not match public share %d\n%s", s.Proto, nd.Idx, nd.Idx, dkgTrace(s))
		}
		x := new(big.Int).SetBytes(nd.SK.Encode())
		if deep {
			if want := bls381.G2Compress(bls381.G2Generator().Mul(x), s.Swapped); !bytes.Equal(nd.PKs[nd.Idx].Encode(), want) {
				g.Fatalf("%v: honest node %d: public share %x is not sk·g2 (%x)", s.Proto, nd.Idx, nd.PKs[nd.Idx].Encode(), want)
			}
		}
	}
	// all public shares and the group key lie on one polynomial of degree ≤ t (Lagrange in the exponent)
	if deep {
		pts := make([]bls381.G2, s.N)
		for i, pk := range hs[0].PKs {
			p, err := bls381.G2Decompress(pk.Encode(), s.Swapped)
			if err != nil || !p.InSubgroup() {
				g.Fatalf("public key share %d is not a canonical G2 element: %v", i, err)
			}
			pts[i] = p
		}
		gp, err := bls381.G2Decompress(hs[0].GPK.Encode(), s.Swapped)
		if err != nil {
			g.Fatalf("group key is not canonical: %v", err)
		}
		nodes := make([]int64, s.T+1)
		for i := range nodes {
			nodes[i] = int64(i + 1)
		}
		interp := func(at int64) bls381.G2 {
			l := fr.LagrangeAt(nodes, at)
			acc := bls381.G2Infinity()
			for j := range l {
				acc = acc.Add(pts[j].Mul(l[j]))
			}
			return acc
		}
		if !interp(0).Equal(gp) {
			g.Fatalf("%v n=%d t=%d: the group public key is not the value at 0 of the degree-%d polynomial through public shares 0..%d\n%s", s.Proto, s.N, s.T, s.T, s.T, dkgTrace(s))
		}
		for i := s.T + 1; i < s.N; i++ {
			if !interp(int64(i + 1)).Equal(pts[i]) {
				g.Fatalf("%v n=%d t=%d: public share %d is not on the degree-%d polynomial through shares 0..%d\n%s", s.Proto, s.N, s.T, i, s.T, s.T, dkgTrace(s))
			}
		}
		g.Class("polynomialCheckedInG2")
	}
	// (d) any t+1 honest participants produce a threshold signature valid under the group key
	if len(hs) >= s.T+1 {
		msg := []byte("dkg-threshold-check")
		h := crypto.NewExpandMsgXOFKMAC128("c07")
		first := g.Int("signersFrom", 0, len(hs)-s.T-1)
		var shares []crypto.Signature
		var signers []int
		for _, nd := range hs[first : first+s.T+1] {
			sh, err := nd.SK.Sign(msg, h)
			if err != nil {
				g.Fatalf("Sign: %v", err)
			}
			if ok, _ := nd.PKs[nd.Idx].Verify(sh, msg, h); !ok {
				g.Fatalf("signature share of honest node %d does not verify under its public share", nd.Idx)
			}
			shares = append(shares, sh)
			signers = append(signers, nd.Idx)
		}
		sig, err := crypto.BLSReconstructThresholdSignature(s.N, s.T, shares, signers)
		if err != nil {
			g.Fatalf("threshold reconstruction from honest DKG shares failed: %v", err)
		}
		if ok, err := hs[0].GPK.Verify(sig, msg, h); !ok || err != nil {
			g.Fatalf("%v n=%d t=%d: the threshold signature of honest participants %v is not valid under the DKG group key\n%s", s.Proto, s.N, s.T, signers, dkgTrace(s))
		}
		g.Class("thresholdSignatureChecked")
	}
}

// calledDisqualified is the set of dealers an honest participant reported through its Disqualify callback.
func calledDisqualified(nd *sim.Node) map[int]bool {
	set := map[int]bool{}
	for _, e := range nd.Events {
		if e.Disqualify {
			set[e.Target] = true
		}
	}
	return set
}

// checkComposition ties the Disqualify callbacks to what End returns ("the overall group key is derived from all chunks
// of qualified dealers"; "Disqualify flags that ... they got disqualified from the protocol"): at an honest participant
// whose End succeeded, the group key is the sum of the constant terms A_0 of the verification vectors of exactly the
// dealers it did not report as disqualified, and (deep) every public key share i is the sum of those dealers'
// polynomials evaluated at i+1 in the exponent.  In the single-dealer protocol a reported dealer means End fails.
func checkComposition(g *gen.G, s *sim.Sim, deep bool) {
	type dealt struct {
		ok  bool
		pts []bls381.G2
	}
	cache := map[int]*dealt{}
	dealing := func(d int) *dealt { // the first vector of dealer d, decoded once per scenario
		if c, ok := cache[d]; ok {
			return c
		}
		c := &dealt{}
		cache[d] = c
		v, ok := s.FirstVector[d]
		if !ok || s.FirstVectorRound[d] != 1 || len(v) != 96*(s.T+1) {
			return c
		}
		for k := 0; k <= s.T; k++ {
			p, err := bls381.G2Decompress(v[96*k:96*k+96], s.Swapped)
			if err != nil || !p.InSubgroup() {
				return c
			}
			c.pts = append(c.pts, p)
		}
		c.ok = true
		return c
	}
	for _, nd := range honest(s) {
		D := calledDisqualified(nd)
		if s.Proto == sim.FeldmanVSSQual {
			if D[s.Dealer] && nd.Err == nil {
				g.Fatalf("%v n=%d t=%d: honest node %d reported dealer %d as disqualified, yet its End returned keys\n%s", s.Proto, s.N, s.T, nd.Idx, s.Dealer, dkgTrace(s))
			}
		}
		if nd.Err != nil {
			// a Joint-Feldman failure has a documented cause: the disqualified dealers exceeded the threshold (the code also
			// fails when no more than t dealers stay qualified); a failure with fewer reported dealers than either rule
			// needs is unexplained (identity keys aside, which the generated dealings cannot produce by sum)
			if s.Proto == sim.JointFeldman && crypto.IsDKGFailureError(nd.Err) && len(D) <= s.T && s.N-len(D) > s.T && !strings.Contains(nd.Err.Error(), "identity") {
				g.Fatalf("%v n=%d t=%d: End of honest node %d failed (%v) although it reported only %d dealers as disqualified (%v)\n%s", s.Proto, s.N, s.T, nd.Idx, nd.Err, len(D), D, dkgTrace(s))
			}
			continue
		}
		var dealers []int
		if s.Proto == sim.JointFeldman {
			for d := 0; d < s.N; d++ {
				if !D[d] {
					dealers = append(dealers, d)
				}
			}
			if len(D) > s.T {
				g.Fatalf("%v n=%d t=%d: honest node %d reported %d dealers as disqualified (more than t), yet its End returned keys\n%s", s.Proto, s.N, s.T, nd.Idx, len(D), dkgTrace(s))
			}
		} else {
			dealers = []int{s.Dealer}
		}
		vecs := make([][]bls381.G2, 0, len(dealers))
		sumA0 := bls381.G2Infinity()
		for _, d := range dealers {
			dl := dealing(d)
			if !dl.ok {
				g.Fatalf("%v n=%d t=%d: honest node %d returned keys with dealer %d qualified, although the first verification vector of that dealer is missing, late or invalid\n%s", s.Proto, s.N, s.T, nd.Idx, d, dkgTrace(s))
			}
			vecs = append(vecs, dl.pts)
			sumA0 = sumA0.Add(dl.pts[0])
		}
		if want := bls381.G2Compress(sumA0, s.Swapped); !bytes.Equal(nd.GPK.Encode(), want) {
			g.Fatalf("%v n=%d t=%d: honest node %d: the group public key %x is not the sum of A_0 over the dealers it left qualified %v (%x); it reported %v as disqualified\n%s", s.Proto, s.N, s.T, nd.Idx, nd.GPK.Encode()[:12], dealers, want[:12], D, dkgTrace(s))
		}
		g.Class("groupKeyIsSumOfQualifiedDealers")
		if !deep {
			continue
		}
		for i := 0; i < s.N; i++ {
			x := big.NewInt(int64(i + 1))
			acc := bls381.G2Infinity()
			for _, pts := range vecs {
				e := pts[s.T]
				for k := s.T - 1; k >= 0; k-- { // Horner in the exponent
					e = e.Mul(x).Add(pts[k])
				}
				acc = acc.Add(e)
			}
			if want := bls381.G2Compress(acc, s.Swapped); !bytes.Equal(nd.PKs[i].Encode(), want) {
				g.Fatalf("%v n=%d t=%d: honest node %d: public key share %d is not the sum over the qualified dealers %v of their polynomial at %d in the exponent\n%s", s.Proto, s.N, s.T, nd.Idx, i, dealers, i+1, dkgTrace(s))
			}
		}
		g.Class("publicSharesAreSumOfQualifiedDealers")
	}
}

func vectorValid(s *sim.Sim, v []byte) bool {
	if len(v) != 96*(s.T+1) {
		return false
	}
	for o := 0; o < len(v); o += 96 {
		p, err := bls381.G2Decompress(v[o:o+96], s.Swapped)
		if err != nil || !p.InSubgroup() {
			return false
		}
	}
	return true
}

func checkC08(g *gen.G, s *sim.Sim) {
	hs := honest(s)
	// (e) no honest participant is ever disqualified or flagged by an honest participant
	for _, nd := range hs {
		for _, e := range nd.Events {
			if !s.Nodes[e.Target].Byz {
				what := "flagged"
				if e.Disqualify {
					what = "disqualified"
				}
				g.Fatalf("%v n=%d t=%d: honest node %d %s honest node %d in round %d (%s)\n%s", s.Proto, s.N, s.T, nd.Idx, what, e.Target, e.Round, e.Log, dkgTrace(s))
			}
		}
	}
	// (f) converse: bad dealing by a Byzantine dealer is disqualified by every honest participant
	disqualifiedBy := func(nd *sim.Node, d int) bool {
		if s.Proto == sim.JointFeldman {
			for _, e := range nd.Events {
				if e.Disqualify && e.Target == d {
					return true
				}
			}
			return false
		}
		return nd.Err != nil && crypto.IsDKGFailureError(nd.Err)
	}
	for b, di := range s.Dealers {
		var reasons []string
		switch di.VectorFault {
		case "omitted", "late", "wrongSize", "badEncoding":
			reasons = append(reasons, "verification vector "+di.VectorFault)
		case "offCurve", "notInG2", "smallOrder":
			if !vectorValid(s, di.VectorSent) {
				reasons = append(reasons, "verification vector "+di.VectorFault)
			}
		}
		complainers := 0
		for k, r := range s.AllComplaints {
			if k[1] == b && k[0] != b && r <= 2 {
				complainers++
			}
		}
		if complainers > s.T {
			reasons = append(reasons, fmt.Sprintf("%d complaints > t", complainers))
		}
		for k, r := range s.HonestComplaints {
			if k[1] != b || r > 2 {
				continue
			}
			ans, ok := s.Answers[[2]int{b, k[0]}]
			if !ok {
				reasons = append(reasons, fmt.Sprintf("complaint of honest %d never answered", k[0]))
				continue
			}
			var want []byte
			switch di.VectorFault {
			case "", "duplicated":
				want = di.Honest[k[0]]
			case "alt":
				want = di.Alt[k[0]]
			}
			if want != nil && !bytes.Equal(ans, want) {
				reasons = append(reasons, fmt.Sprintf("complaint of honest %d answered with a value that does not match the vector", k[0]))
			}
		}
		if len(reasons) == 0 {
			continue
		}
		g.Class("converseTrigger")
		for _, nd := range hs {
			if !disqualifiedBy(nd, b) {
				g.Fatalf("%v n=%d t=%d: Byzantine dealer %d (%s) is not disqualified by honest node %d\n%s", s.Proto, s.N, s.T, b, strings.Join(reasons, "; "), nd.Idx, dkgTrace(s))
			}
		}
	}
}

func dkgClasses(g *gen.G, s *sim.Sim) bool {
	byzActed := false
	for c := range s.Classes {
		g.Class(c)
		if c != "nonFIFODelivery" {
			byzActed = true
		}
	}
	for k := range s.Excluded {
		g.Class("excluded:" + k)
	}
	g.Class("proto:" + s.Proto.String())
	return byzActed && s.Reordered()
}

func TestC07_Agreement(t *testing.T) {
	gen.Run(t, "C07", func(g *gen.G) {
		s := dkgScenario(g)
		checkC07(g, s, thorough() || g.Chance("deepCheck", 1, 5))
		if dkgClasses(g, s) {
			g.NonTrivial()
		}
	})
}

// dkgLarge makes dkgScenario draw groups at and next to the maximum size (set by the large-network jobs only).
var dkgLarge bool

// TestC07_LargeNetwork / TestC08_LargeNetwork: the same scenarios and oracles on groups of 129 … 254 participants
// (Feldman-VSS-Qual) and 24 … 40 (Joint-Feldman): the victims, complainers and Byzantine participants are drawn from the
// whole index range, so indices above 127 and the last index take part in complaints and answers.
func TestC07_LargeNetwork(t *testing.T) {
	dkgLarge = true
	defer func() { dkgLarge = false }()
	gen.Run(t, "C07", func(g *gen.G) {
		s := dkgScenario(g)
		checkC07(g, s, true)
		dkgClasses(g, s)
		g.NonTrivial()
	})
}

func TestC08_LargeNetwork(t *testing.T) {
	dkgLarge = true
	defer func() { dkgLarge = false }()
	gen.Run(t, "C08", func(g *gen.G) {
		s := dkgScenario(g)
		checkC08(g, s)
		checkComposition(g, s, false)
		dkgClasses(g, s)
		g.NonTrivial()
	})
}

func TestC08_Fairness(t *testing.T) {
	gen.Run(t, "C08", func(g *gen.G) {
		s := dkgScenario(g)
		checkC08(g, s)
		checkComposition(g, s, false) // a dealer reported as disqualified contributes nothing to the keys
		if dkgClasses(g, s) {
			g.NonTrivial()
		}
	})
}
