package props

// TestMakeCorpus writes the seed corpora of the libFuzzer targets (hostile
// constants and valid encodings built by the oracle) to $VERIF_MKCORPUS/<target>/.
// It is a generator, not a check: it is skipped unless the variable is set.

import (
	"fmt"
	"math/big"
	"os"
	"path/filepath"
	"testing"

	"verifharness/oracle/bls381"
)

func TestMakeCorpus(t *testing.T) {
	dir := os.Getenv("VERIF_MKCORPUS")
	if dir == "" {
		t.Skip("VERIF_MKCORPUS not set")
	}
	swapped, err := g2Swapped()
	if err != nil {
		t.Fatal(err)
	}
	n := 0
	put := func(target string, sel byte, parts ...[]byte) {
		d := filepath.Join(dir, target)
		_ = os.MkdirAll(d, 0o755)
		var b []byte
		if sel != 0xEE {
			b = append(b, sel)
		}
		for _, p := range parts {
			b = append(b, p...)
		}
		n++
		if err := os.WriteFile(filepath.Join(d, fmt.Sprintf("seed-%03d", n)), b, 0o644); err != nil {
			t.Fatal(err)
		}
	}
	fp := func(x *big.Int, flags byte) []byte {
		b := make([]byte, 48)
		x.FillBytes(b)
		b[0] |= flags
		return b
	}
	one := big.NewInt(1)
	pm1 := new(big.Int).Sub(bls381.P, one)
	pp1 := new(big.Int).Add(bls381.P, one)
	g1 := [][]byte{
		bls381.G1Compress(bls381.G1Generator()), bls381.G1Compress(bls381.G1Generator().Neg()), bls381.G1Compress(bls381.G1Infinity()),
		bls381.G1Compress(bls381.G1Generator().Mul(big.NewInt(7))), bls381.G1Compress(bls381.G1CurvePoint([]byte{1})), bls381.G1Compress(bls381.G1TorsionPoint([]byte{2})),
		fp(bls381.P, 0x80), fp(pm1, 0x80), fp(pp1, 0xA0), fp(big.NewInt(0), 0x80), fp(big.NewInt(0), 0xE0), fp(big.NewInt(1), 0x40), fp(big.NewInt(2), 0x00),
	}
	dirty := bls381.G1Compress(bls381.G1Infinity())
	dirty[47] = 1
	g1 = append(g1, dirty)
	for _, e := range g1 {
		put("SER_E1", 1, e)
		put("SER_E1", 0, e[:47])
		put("SUM_VECTOR", 0xEE, e, g1[0])
		put("LAGRANGE", 1, []byte{1, 2}, g1[0], e)
		put("VERIFY", 0, make([]byte, 128), e, g1[0])
	}
	put("LAGRANGE", 9, []byte{1, 2, 3, 4, 5, 6, 7, 8, 9, 250}, g1[0], g1[1], g1[2], g1[3], g1[0], g1[1], g1[2], g1[3], g1[0], g1[1])
	g2 := [][]byte{
		bls381.G2Compress(bls381.G2Generator(), swapped), bls381.G2Compress(bls381.G2Generator().Neg(), swapped), bls381.G2Compress(bls381.G2Infinity(), swapped),
		bls381.G2Compress(bls381.G2CurvePoint([]byte{1}), swapped), bls381.G2Compress(bls381.G2TorsionPoint([]byte{2}), swapped),
		bls381.G2Compress(bls381.G2Generator(), !swapped),
		append(fp(bls381.P, 0x80), fp(one, 0)...), append(fp(one, 0x80), fp(bls381.P, 0)...), append(fp(pm1, 0xA0), fp(pm1, 0)...), append(fp(one, 0xC0), fp(one, 0)...),
	}
	d2 := bls381.G2Compress(bls381.G2Infinity(), swapped)
	d2[95] = 0x80
	g2 = append(g2, d2)
	for _, e := range g2 {
		put("SER_E2", 1, e)
		put("SER_E2", 0, e[:95])
		put("G2_VECTOR", 0xEE, g2[0], e)
	}
	r := bls381.R
	for _, v := range []*big.Int{big.NewInt(0), one, new(big.Int).Sub(r, one), r, new(big.Int).Add(r, one), new(big.Int).Sub(new(big.Int).Lsh(one, 256), one)} {
		b := make([]byte, 32)
		v.FillBytes(b)
		put("SER_FR", 1, b)
		put("SER_FR", 0, b[:31])
	}
	t.Logf("wrote %d corpus files", n)
}

// TestMakeCorpusExtra adds vectors whose entries are outside G2 by amounts that cancel in the sum of the entries (and
// at abscissa 1) to the G2_VECTOR corpus: every entry is a canonical E2 encoding, no partial sum test can tell.
func TestMakeCorpusExtra(t *testing.T) {
	dir := os.Getenv("VERIF_MKCORPUS")
	if dir == "" {
		t.Skip("VERIF_MKCORPUS not set")
	}
	swapped, err := g2Swapped()
	if err != nil {
		t.Fatal(err)
	}
	d := filepath.Join(dir, "G2_VECTOR")
	_ = os.MkdirAll(d, 0o755)
	g := bls381.G2Generator()
	t13, _ := bls381.G2SmallOrderPoint(13, []byte{1})
	tor := bls381.G2TorsionPoint([]byte{3})
	cp := bls381.G2CurvePoint([]byte{5})
	enc := func(p bls381.G2) []byte { return bls381.G2Compress(p, swapped) }
	k := func(n int64) bls381.G2 { return g.Mul(big.NewInt(n)) }
	vecs := [][]bls381.G2{
		{k(5).Add(t13), k(7).Add(t13.Neg())},
		{k(5), k(3).Add(tor), k(7).Add(tor.Neg())},
		{k(2).Add(cp), k(9).Add(cp.Neg()), k(4)},
		{k(1).Add(t13.Mul(big.NewInt(2))), k(6).Add(t13.Neg()), k(8).Add(t13.Neg())},
		{k(11), k(12)},
	}
	for i, v := range vecs {
		var b []byte
		for _, p := range v {
			b = append(b, enc(p)...)
		}
		if err := os.WriteFile(filepath.Join(d, fmt.Sprintf("cancel-%02d", i)), b, 0o644); err != nil {
			t.Fatal(err)
		}
	}
}
