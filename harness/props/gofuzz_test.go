package props

// The coverage-guided engine: Go's native fuzzer (go test -fuzz) drives the
// same property functions as the rapid search, through rapid.MakeFuzz.  One
// generic target; the property is selected by VERIF_FUZZ_TEST.  Used in the
// thorough tier only (a native fuzz campaign cannot be pinned to VERIF_SEED;
// the saved failing record is the reproducible unit).

import (
	"os"
	"testing"

	"verifharness/gen"
)

var fuzzable = map[string]func(*testing.T){
	"TestC05_ECDSAPublic":  TestC05_ECDSAPublic,
	"TestC05_ECDSAPrivate": TestC05_ECDSAPrivate,
	"TestC07_Agreement":    TestC07_Agreement,
	"TestC08_Fairness":     TestC08_Fairness,
	"TestC09_Calls":        TestC09_Calls,
	"TestC09_DKGNetwork":   TestC09_DKGNetwork,
	"TestC10_StateMachine": TestC10_StateMachine,
	"TestC11_Exact":        TestC11_Exact,
	"TestC13_History":      TestC13_History,
	"TestC14_Stream":       TestC14_Stream,
	"TestC06_BadShare":     TestC06_BadShare,
}

func FuzzProp(f *testing.F) {
	name := os.Getenv("VERIF_FUZZ_TEST")
	fn, ok := fuzzable[name]
	if !ok {
		f.Skip("VERIF_FUZZ_TEST does not name a fuzzable property")
	}
	c := gen.Capture(fn)
	if c.Prop == nil {
		f.Fatalf("%s did not register a property", name)
	}
	gen.Fuzz(f, name, c)
}
