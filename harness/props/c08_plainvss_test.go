package props

// C08 (g) — plain Feldman VSS: a participant whose share does not match the
// broadcast vector, or who received an invalid vector, gets a DKG-failure error
// from End(), never keys.  Every delivery order of (vector, share, one
// duplicate of each) × every kind of vector × every kind of share.

import (
	"bytes"
	"fmt"
	"math/big"
	"testing"

	"github.com/onflow/crypto"

	"verifharness/gen"
	"verifharness/oracle/bls381"
)

type vssRecorder struct {
	shares [][]byte
	vector []byte
	events []string
}

func (r *vssRecorder) PrivateSend(dest int, data []byte) { r.shares[dest] = append([]byte{}, data...) }
func (r *vssRecorder) Broadcast(data []byte)             { r.vector = append([]byte{}, data...) }
func (r *vssRecorder) Disqualify(i int, log string) {
	r.events = append(r.events, fmt.Sprintf("disqualify %d", i))
}
func (r *vssRecorder) FlagMisbehavior(i int, log string) {
	r.events = append(r.events, fmt.Sprintf("flag %d", i))
}

var vssVectorKinds = []string{"honest", "alt", "wrongSizeShort", "wrongSizeLong", "missingElement", "badEncoding", "offCurve", "notInG2", "smallOrderAnnihilated", "cancellingOutsideG2", "empty", "unknownTag"}
var vssShareKinds = []string{"honest", "alt", "plusOne", "zero", "geR", "wrongSize", "badTag", "empty", "plusR"}

func vssDeal(g *gen.G, n, t, dealer int, seed []byte) *vssRecorder {
	rec := &vssRecorder{shares: make([][]byte, n)}
	d, err := crypto.NewFeldmanVSS(n, t, dealer, rec, dealer)
	if err != nil {
		g.Fatalf("NewFeldmanVSS: %v", err)
	}
	if err := d.Start(seed); err != nil {
		g.Fatalf("dealer Start: %v", err)
	}
	return rec
}

func vssVector(g *gen.G, kind string, hon, alt *vssRecorder, t, me int, swapped bool) []byte {
	v := append([]byte{}, hon.vector...)
	last := 1 + 96*t
	switch kind {
	case "honest":
	case "alt":
		v = append([]byte{}, alt.vector...)
	case "wrongSizeShort":
		v = v[:len(v)-1]
	case "wrongSizeLong":
		v = append(v, 0)
	case "missingElement":
		v = v[:len(v)-96]
	case "badEncoding":
		v[last] &= 0x7F
	case "offCurve":
		for k := 0; k < 64; k++ {
			v[last+95]++
			if _, err := bls381.G2Decompress(v[last:last+96], swapped); err != nil {
				break
			}
		}
	case "notInG2":
		copy(v[last:last+96], bls381.G2Compress(bls381.G2CurvePoint([]byte{byte(me)}), swapped))
	case "smallOrderAnnihilated":
		// A_t + T with T of order 13: the receiver with abscissa 13 (index 12) sees (me+1)^t·T = O
		pt, err := bls381.G2Decompress(v[last:last+96], swapped)
		if err != nil {
			g.Fatalf("honest vector element does not decode: %v", err)
		}
		t13, _ := bls381.G2SmallOrderPoint(13, []byte{1})
		copy(v[last:last+96], bls381.G2Compress(pt.Add(t13), swapped))
	case "cancellingOutsideG2":
		// A_0 + x·T and A_1 − T with T in E2 outside G2 and x the receiver's abscissa: both entries are canonical points
		// outside G2, their contributions cancel in the receiver's own public share (so its honest share still matches),
		// and every test of a sum of entries at abscissa x passes; the vector is invalid all the same
		a0, e0 := bls381.G2Decompress(v[1:97], swapped)
		a1, e1 := bls381.G2Decompress(v[97:193], swapped)
		if e0 != nil || e1 != nil {
			g.Fatalf("honest vector element does not decode: %v %v", e0, e1)
		}
		tp := bls381.G2TorsionPoint([]byte{byte(me), 7})
		copy(v[1:97], bls381.G2Compress(a0.Add(tp.Mul(big.NewInt(int64(me+1)))), swapped))
		copy(v[97:193], bls381.G2Compress(a1.Add(tp.Neg()), swapped))
	case "empty":
		v = []byte{}
	case "unknownTag":
		v[0] = 2
	}
	return v
}

func vssShare(kind string, hon, alt *vssRecorder, me int) []byte {
	sh := append([]byte{}, hon.shares[me]...)
	switch kind {
	case "honest":
	case "alt":
		sh = append([]byte{}, alt.shares[me]...)
	case "plusOne":
		x := new(big.Int).SetBytes(sh[1:])
		x.Add(x, one).Mod(x, blsR)
		if x.Sign() == 0 {
			x.SetInt64(1)
		}
		copy(sh[1:], scalarBytes(x))
	case "plusR": // the right residue in a non-canonical encoding (x + r still fits in 32 bytes): not a valid share
		x := new(big.Int).SetBytes(sh[1:])
		copy(sh[1:], x.Add(x, blsR).FillBytes(make([]byte, 32)))
	case "zero":
		copy(sh[1:], make([]byte, 32))
	case "geR":
		copy(sh[1:], scalarBytes(blsR))
	case "wrongSize":
		sh = sh[:len(sh)-1]
	case "badTag":
		sh[0] = 1
	case "empty":
		sh = []byte{}
	}
	return sh
}

func TestC08_PlainVSS(t *testing.T) {
	gen.Run(t, "C08", func(g *gen.G) {
		swapped := mustSwapped(g)
		n := g.Int("n", 2, 6)
		me := g.Pick("me", n)
		if g.Chance("abscissa13", 1, 3) {
			n, me = 13+g.Int("extra", 0, 2), 12
		}
		th := g.Int("t", 1, min(n-1, 3))
		dealer := g.Pick("dealer", n)
		if dealer == me {
			dealer = (me + 1) % n
		}
		seed := g.Bytes("seed", 32, 32)
		hon := vssDeal(g, n, th, dealer, seed)
		if g.Chance("smallShare", 4, 5) {
			// a dealer chooses its polynomial: look for one whose share for this receiver is small enough for x + r to
			// fit in 255 bits (the width scalar arithmetic is exact for), about one seed in ten
			limit := new(big.Int).Sub(new(big.Int).Lsh(one, 255), blsR)
			for try := 0; try < 60 && new(big.Int).SetBytes(hon.shares[me][1:]).Cmp(limit) >= 0; try++ {
				seed = append([]byte{}, seed...)
				seed[31]++
				seed[30] ^= byte(try)
				hon = vssDeal(g, n, th, dealer, seed)
			}
			if new(big.Int).SetBytes(hon.shares[me][1:]).Cmp(limit) < 0 {
				g.Class("plainVSS:share+r fits in 255 bits")
			}
		}
		alt := vssDeal(g, n, th, dealer, g.Bytes("seed2", 32, 32))
		if bytes.Equal(hon.vector, alt.vector) {
			g.Skip("equal seeds")
		}
		dupV := vssVectorKinds[g.Pick("dupVectorKind", len(vssVectorKinds))]
		dupS := vssShareKinds[g.Pick("dupShareKind", len(vssShareKinds))]
		// 0 = V, 1 = S, 2 = V' (second vector-channel message), 3 = S' (second share): every order of {V,S}, {V,S,V'}, {V,S,S'}, {V,S,V',S'}
		var perms [][]int
		for _, items := range [][]int{{0, 1}, {0, 1, 2}, {0, 1, 3}, {0, 1, 2, 3}} {
			perms = append(perms, permutations(items)...)
		}
		var cnt, nt int64
		for _, vk := range vssVectorKinds {
			for _, sk := range vssShareKinds {
				for _, p := range perms {
					rec := &vssRecorder{shares: make([][]byte, n)}
					inst, err := crypto.NewFeldmanVSS(n, th, me, rec, dealer)
					if err != nil {
						g.Fatalf("NewFeldmanVSS: %v", err)
					}
					if err := inst.Start(nil); err != nil {
						g.Fatalf("non-dealer Start: %v", err)
					}
					firstV, firstS := "", ""
					order := ""
					for _, item := range p {
						var err error
						switch item {
						case 0, 2:
							k := vk
							if item == 2 {
								k = dupV
							}
							if firstV == "" && k != "empty" && k != "unknownTag" {
								// an empty broadcast or one with an unknown tag is not a verification
								// vector in the wire format: it is noise that must not change the outcome
								firstV = k
							}
							order += "V(" + k + ") "
							err = inst.HandleBroadcastMsg(dealer, vssVector(g, k, hon, alt, th, me, swapped))
						default:
							k := sk
							if item == 3 {
								k = dupS
							}
							if firstS == "" {
								firstS = k
							}
							order += "S(" + k + ") "
							err = inst.HandlePrivateMsg(dealer, vssShare(k, hon, alt, me))
						}
						if err != nil {
							g.Fatalf("plain Feldman VSS (n=%d t=%d me=%d): handler error %v in %s", n, th, me, err, order)
						}
					}
					x, gpk, pks, err := inst.End()
					expectKeys := (firstV == "honest" && firstS == "honest") || (firstV == "alt" && firstS == "alt")
					cnt++
					if !expectKeys {
						nt++
					}
					if expectKeys && len(p) > 2 && err != nil && crypto.IsDKGFailureError(err) {
						// with a second vector or share delivered, keys are not demanded (the statement lists a duplicated vector
						// among the invalid ones); what is demanded is that keys, if returned, belong to the first vector and share
						continue
					}
					if expectKeys {
						src := hon
						if firstV == "alt" {
							src = alt
						}
						if err != nil {
							g.Fatalf("plain Feldman VSS (n=%d t=%d me=%d) order %s: End failed (%v) although the first vector is valid and the first share matches it", n, th, me, order, err)
						}
						if !bytes.Equal(x.Encode(), src.shares[me][1:]) || !bytes.Equal(gpk.Encode(), src.vector[1:97]) || len(pks) != n || !x.PublicKey().Equals(pks[me]) {
							g.Fatalf("plain Feldman VSS order %s: End returned keys that do not correspond to the first vector / share", order)
						}
						continue
					}
					if err == nil {
						g.Fatalf("plain Feldman VSS (n=%d t=%d me=%d dealer=%d) order %s: End returned keys (private %x, group %x) although the first vector is %s and the first share is %s; callbacks: %v",
							n, th, me, dealer, order, x.Encode(), gpk.Encode(), firstV, firstS, rec.events)
					}
					if !crypto.IsDKGFailureError(err) || x != nil || gpk != nil || pks != nil {
						g.Fatalf("plain Feldman VSS order %s: End returned (%v) instead of a DKG-failure error", order, err)
					}
				}
			}
		}
		gen.Count(cnt, nt)
		g.Class("plainVSS:allOrders")
		if me == 12 {
			g.Class("plainVSS:abscissa13")
		}
		g.NonTrivial()
	})
	gen.Exhaustive("C08(g): for the drawn (n, t, receiver, seeds): every order of {V,S}, {V,S,V'}, {V,S,S'}, {V,S,V',S'} (38 orders) × 12 kinds of vector-channel message × 9 kinds of share")
}
