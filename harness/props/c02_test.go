package props

// C02 — aggregate BLS verification equals the pairing-product definition.

import (
	"bytes"
	"fmt"
	"math/big"
	"testing"

	"github.com/onflow/crypto"
	"github.com/onflow/crypto/hash"

	"verifharness/gen"
	"verifharness/oracle/bls381"
)

type c02Msg struct {
	m []byte
	h hash.Hasher
	H bls381.G1
	d string
}

func ecdsaKey(g *gen.G) crypto.PrivateKey {
	sk, err := crypto.GeneratePrivateKey(crypto.ECDSAP256, bytes.Repeat([]byte{7}, 32))
	if err != nil {
		g.Fatalf("ECDSA key generation failed: %v", err)
	}
	return sk
}

func TestC02_ManyMessages(t *testing.T) {
	gen.Run(t, "C02", func(g *gen.G) {
		maxN := 12
		if thorough() && g.Chance("large", 1, 8) {
			maxN = 40
		}
		n := g.Int("n", 1, maxN)
		shape := g.Int("shape", 0, 7)
		k, m := n, n
		switch shape {
		case 0: // all distinct
		case 1: // all equal
			k, m = 1, 1
		case 2: // few messages, many keys  => one pairing per distinct message
			m = g.Int("m", 1, max(1, n/3))
		case 3: // few keys, many messages   => one pairing per distinct key
			k = g.Int("k", 1, max(1, n/3))
		case 4: // tie
			k = g.Int("k", 1, n)
			m = k
		default:
			k = g.Int("k", 1, n)
			m = g.Int("m", 1, n)
		}
		// key pool
		xs := make([]*big.Int, k)
		for i := range xs {
			xs[i], _ = drawScalar(g, fmt.Sprintf("sk%d", i))
		}
		if shape == 7 && k >= 2 { // (sk, r-sk) pair
			xs[1] = new(big.Int).Sub(blsR, xs[0])
		}
		totalCancel := shape == 7 && k >= 2 && g.Chance("totalCancel", 1, 2) // exactly pk and -pk on one message: Σ sk_i·H_i is the identity
		if totalCancel {
			n, k, m = 2, 2, 1
			xs = xs[:2]
		}
		// message pool
		msgs := make([]c02Msg, m)
		for i := range msgs {
			mm := g.Bytes(fmt.Sprintf("msg%d", i), 0, 40)
			if i > 0 && g.Chance("sameMessageOtherHasher", 1, 4) {
				mm = msgs[g.Pick("sameMessageAs", i)].m // the same message bytes under another hasher / tag
				g.Class("sameMessageDifferentHasher")
			}
			h, d := drawHasher(g, fmt.Sprintf("h%d", i))
			msgs[i] = c02Msg{m: mm, h: h, H: hashToG1(g, mm, h), d: d}
		}
		// assignment of pool entries to positions
		ki, mi := make([]int, n), make([]int, n)
		for i := 0; i < n; i++ {
			switch {
			case shape == 0:
				ki[i], mi[i] = i, i
			case shape == 6 && i > 0 && g.Bool("dup"):
				ki[i], mi[i] = ki[i-1], mi[i-1] // duplicated (key, message) pair
			case shape == 7 && i < 2 && k >= 2:
				ki[i], mi[i] = i, 0 // pk and -pk on one message
			default:
				if i < k {
					ki[i] = i
				} else {
					ki[i] = g.Pick("ki", k)
				}
				if i < m {
					mi[i] = i
				} else {
					mi[i] = g.Pick("mi", m)
				}
			}
		}
		perm := g.Perm("order", n)
		pks := make([]crypto.PublicKey, n)
		ms := make([][]byte, n)
		hs := make([]hash.Hasher, n)
		sigs := make([]crypto.Signature, n)
		keyObjs := map[int]crypto.PrivateKey{}
		sumPerMsg := make([]*big.Int, m)
		for i := range sumPerMsg {
			sumPerMsg[i] = new(big.Int)
		}
		for pos := 0; pos < n; pos++ {
			i := perm[pos]
			sk, ok := keyObjs[ki[i]]
			if !ok || g.Chance("freshKeyObject", 1, 6) { // same point held in a separately decoded object
				if ok {
					g.Class("samePointTwoObjects")
				}
				sk = decodeSK(g, xs[ki[i]])
				keyObjs[ki[i]] = sk
			}
			pks[pos] = sk.PublicKey()
			if g.Chance("redecodedPk", 1, 8) {
				pk2, err := crypto.DecodePublicKey(crypto.BLSBLS12381, pks[pos].Encode())
				if err != nil {
					g.Fatalf("DecodePublicKey(Encode()) failed: %v", err)
				}
				pks[pos] = pk2
				g.Class("redecodedPublicKey")
			}
			pks[pos] = pkVariant(g, "pkVia", blsKey{pk: pks[pos], x: xs[ki[i]]}) // e.g. the un-normalised result of RemoveBLSPublicKeys
			ms[pos], hs[pos] = msgs[mi[i]].m, msgs[mi[i]].h
			s, err := sk.Sign(ms[pos], hs[pos])
			if err != nil {
				g.Fatalf("Sign failed: %v", err)
			}
			sigs[pos] = s
			sumPerMsg[mi[i]].Add(sumPerMsg[mi[i]], xs[ki[i]])
		}
		// oracle: Σ sk_i·H_i
		sum := bls381.G1Infinity()
		for j := range msgs {
			sum = sum.Add(msgs[j].H.Mul(new(big.Int).Mod(sumPerMsg[j], blsR)))
		}
		expected := bls381.G1Compress(sum)
		agg, err := crypto.AggregateBLSSignatures(sigs)
		if err != nil {
			g.Fatalf("AggregateBLSSignatures failed: %v", err)
		}
		if !bytes.Equal(agg, expected) {
			g.Fatalf("aggregate of the %d individual signatures is %x, oracle Σ sk_i·H_i is %x", n, []byte(agg), expected)
		}
		cands := sigCandidates(g, sum, "c")
		if sum.Inf {
			// the aggregate is the identity: its only accepted encoding is C0 00…00; an infinity encoding with a stray byte
			// at any of the 47 positions is another string and must be rejected
			for pos := 1; pos <= 47; pos++ {
				b := bls381.G1Compress(bls381.G1Infinity())
				b[pos] = []byte{0x01, 0x80, 0xff}[g.Pick("dirtyByte", 3)]
				cands = append(cands, cand{b, fmt.Sprintf("infinityDirtyAt%d", pos), false})
			}
		}
		injectIdentity := g.Chance("identityKeyAt", 1, 10)
		idPos := 0
		if injectIdentity {
			idPos = g.Pick("identityPos", n)
			pks[idPos] = identityKeys(g, blsKey{x: xs[0], pk: decodeSK(g, xs[0]).PublicKey()})[g.Pick("identityKind", numIdentityKinds)]
			g.Class("identityKeyInList")
		}
		for _, c := range cands {
			want := bytes.Equal(c.b, expected) && !injectIdentity
			var first bool
			for rep := 0; rep < 3; rep++ { // Go map iteration order inside the implementation differs per call
				in := append([]byte{}, c.b...)
				ok, err := crypto.VerifyBLSSignatureManyMessages(pks, in, ms, hs)
				if err != nil {
					g.Fatalf("VerifyBLSSignatureManyMessages(%s candidate) returned error %v", c.kind, err)
				}
				if rep == 0 {
					first = ok
				} else if ok != first {
					g.Fatalf("VerifyBLSSignatureManyMessages gave different verdicts on identical calls (%s candidate %x)", c.kind, c.b)
				}
				if ok != want {
					g.Fatalf("VerifyBLSSignatureManyMessages(n=%d, %d distinct keys, %d distinct messages, shape %d, %s candidate %x) = %v, expected %v (Σ sk_i·H_i = %x, identity key injected: %v)",
						n, k, m, shape, c.kind, c.b, ok, want, expected, injectIdentity)
				}
			}
		}
		// metamorphic: another order of the triples, same verdict for the exact signature
		perm2 := g.Perm("order2", n)
		pks2, ms2, hs2 := make([]crypto.PublicKey, n), make([][]byte, n), make([]hash.Hasher, n)
		for i, p := range perm2 {
			pks2[i], ms2[i], hs2[i] = pks[p], ms[p], hs[p]
		}
		ok, err := crypto.VerifyBLSSignatureManyMessages(pks2, expected, ms2, hs2)
		if err != nil || ok != !injectIdentity {
			g.Fatalf("VerifyBLSSignatureManyMessages on a permutation of the triples = (%v, %v), expected %v", ok, err, !injectIdentity)
		}
		g.Class(fmt.Sprintf("shape%d", shape))
		switch {
		case m < k:
			g.Class("fewerMessagesThanKeys")
		case k < m:
			g.Class("fewerKeysThanMessages")
		default:
			g.Class("tie")
		}
		if sum.Inf {
			g.Class("sumIsIdentity")
		}
		if n >= 2 && (k < n || m < n) {
			g.NonTrivial()
		}
	})
}

func TestC02_OneMessage(t *testing.T) {
	gen.Run(t, "C02", func(g *gen.G) {
		n := g.Int("n", 1, 10)
		msg := drawMsg(g, "msg")
		h, _ := drawHasher(g, "hasher")
		H := hashToG1(g, msg, h)
		xs := make([]*big.Int, n)
		pks := make([]crypto.PublicKey, n)
		sum := new(big.Int)
		cancel := n >= 2 && g.Chance("cancelAll", 1, 8)
		for i := range xs {
			switch {
			case i > 0 && g.Chance("dupKey", 1, 5):
				xs[i] = xs[g.Pick("dupOf", i)]
			case i > 0 && g.Chance("negKey", 1, 6):
				xs[i] = new(big.Int).Sub(blsR, xs[g.Pick("negOf", i)])
			default:
				xs[i], _ = drawScalar(g, fmt.Sprintf("sk%d", i))
			}
			if cancel && i == n-1 {
				xs[i] = new(big.Int).Sub(blsR, sum)
				if xs[i].Cmp(blsR) == 0 || xs[i].Sign() == 0 {
					xs[i] = big.NewInt(1)
				}
			}
			pks[i] = decodeSK(g, xs[i]).PublicKey()
			if g.Chance("pkOtherRoute", 1, 4) {
				pks[i] = pkVariant(g, fmt.Sprintf("pkVia%d", i), blsKey{pk: pks[i], x: xs[i]})
			}
			sum.Add(sum, xs[i])
			sum.Mod(sum, blsR)
		}
		S := H.Mul(sum)
		expected := bls381.G1Compress(S)
		aggPk, err := crypto.AggregateBLSPublicKeys(pks)
		if err != nil {
			g.Fatalf("AggregateBLSPublicKeys failed: %v", err)
		}
		for _, c := range sigCandidates(g, S, "c") {
			want := bytes.Equal(c.b, expected) && sum.Sign() != 0
			ok, err := crypto.VerifyBLSSignatureOneMessage(pks, c.b, msg, h)
			ok2, err2 := aggPk.Verify(c.b, msg, h)
			if err != nil || err2 != nil {
				g.Fatalf("VerifyBLSSignatureOneMessage error %v / Verify error %v", err, err2)
			}
			if ok != ok2 || ok != want {
				g.Fatalf("VerifyBLSSignatureOneMessage(%d keys, %s candidate %x) = %v, Verify under the aggregated key = %v, oracle expects %v (Σsk = %x)", n, c.kind, c.b, ok, ok2, want, scalarBytes(sum))
			}
		}
		// order independence
		p := g.Perm("order", n)
		pks2 := make([]crypto.PublicKey, n)
		for i := range p {
			pks2[i] = pks[p[i]]
		}
		if ok, err := crypto.VerifyBLSSignatureOneMessage(pks2, expected, msg, h); err != nil || ok != (sum.Sign() != 0) {
			g.Fatalf("VerifyBLSSignatureOneMessage on permuted keys = (%v,%v)", ok, err)
		}
		if sum.Sign() == 0 {
			g.Class("keysCancel")
		}
		if n >= 2 {
			g.NonTrivial()
		}
	})
}

// TestC02_Errors: single-fault invalid inputs give the documented typed errors.
func TestC02_Errors(t *testing.T) {
	gen.Run(t, "C02", func(g *gen.G) {
		n := g.Int("n", 1, 6)
		pks := make([]crypto.PublicKey, n)
		ms := make([][]byte, n)
		hs := make([]hash.Hasher, n)
		sigs := make([]crypto.Signature, n)
		for i := 0; i < n; i++ {
			x, _ := drawScalar(g, fmt.Sprintf("sk%d", i))
			sk := decodeSK(g, x)
			pks[i] = sk.PublicKey()
			ms[i] = g.Bytes(fmt.Sprintf("m%d", i), 0, 10)
			hs[i] = crypto.NewExpandMsgXOFKMAC128("t")
			sigs[i], _ = sk.Sign(ms[i], hs[i])
		}
		agg, _ := crypto.AggregateBLSSignatures(sigs)
		fault := g.Int("fault", 0, 6)
		at := g.Pick("at", n)
		var ok bool
		var err error
		var pred func(error) bool
		name := ""
		switch fault {
		case 0:
			name, pred = "fewer messages", crypto.IsInvalidInputsError
			ok, err = crypto.VerifyBLSSignatureManyMessages(pks, agg, ms[:n-1], hs)
			if n == 1 { // messages empty, keys not
				pred = crypto.IsInvalidInputsError
			}
		case 1:
			name, pred = "more hashers", crypto.IsInvalidInputsError
			ok, err = crypto.VerifyBLSSignatureManyMessages(pks, agg, ms, append(append([]hash.Hasher{}, hs...), hs[0]))
		case 2:
			name, pred = "empty lists", crypto.IsBLSAggregateEmptyListError
			if g.Bool("oneMessageAPI") {
				ok, err = crypto.VerifyBLSSignatureOneMessage(nil, agg, ms[0], hs[0])
			} else {
				ok, err = crypto.VerifyBLSSignatureManyMessages(nil, agg, nil, nil)
			}
		case 3:
			name, pred = "nil hasher", crypto.IsNilHasherError
			if g.Bool("oneMessageAPI") {
				ok, err = crypto.VerifyBLSSignatureOneMessage(pks, agg, ms[0], nil)
			} else {
				hs[at] = nil
				ok, err = crypto.VerifyBLSSignatureManyMessages(pks, agg, ms, hs)
			}
		case 4:
			name, pred = "wrong-size hasher", crypto.IsInvalidHasherSizeError
			sz := g.Int("size", 0, 200)
			if sz == 128 {
				sz = 64
			}
			bad, _ := hash.NewKMAC_128([]byte("0123456789abcdef"), nil, sz)
			if g.Bool("oneMessageAPI") {
				ok, err = crypto.VerifyBLSSignatureOneMessage(pks, agg, ms[0], bad)
			} else {
				hs[at] = bad
				ok, err = crypto.VerifyBLSSignatureManyMessages(pks, agg, ms, hs)
			}
		case 5:
			name, pred = "non-BLS key", crypto.IsNotBLSKeyError
			pks[at] = ecdsaKey(g).PublicKey()
			if g.Bool("oneMessageAPI") {
				ok, err = crypto.VerifyBLSSignatureOneMessage(pks, agg, ms[0], hs[0])
			} else {
				ok, err = crypto.VerifyBLSSignatureManyMessages(pks, agg, ms, hs)
			}
		default:
			name, pred = "fewer keys", crypto.IsInvalidInputsError
			if n == 1 {
				pred = crypto.IsBLSAggregateEmptyListError
			}
			ok, err = crypto.VerifyBLSSignatureManyMessages(pks[:n-1], agg, ms, hs)
		}
		if ok || err == nil || !pred(err) {
			g.Fatalf("%s (n=%d, index %d): got (%v, %v), expected false and the documented typed error", name, n, at, ok, err)
		}
		g.Class("fault:" + name)
		g.NonTrivial(fmt.Sprintf("%s/%d/%d", name, n, at))
	})
}

// TestC02_LargeLists: the same oracles on lists far longer than the unit tests use.  The implementation may sum
// points by batches (hashes of one key, keys of one message), so the sizes sit around the powers of two a batch length
// would be: many (message, hasher) entries under one to three keys (one pairing per distinct key), and many keys,
// among them keys held in projective form, under one or two messages (one pairing per distinct message).
func TestC02_LargeLists(t *testing.T) {
	gen.Run(t, "C02", func(g *gen.G) {
		around := []int{15, 16, 17, 31, 32, 33, 63, 64, 65, 66, 127, 128, 129, 130, 200}
		perKeyShape := g.Bool("manyMessagesPerKey")
		groups := g.Int("groups", 1, 3)
		sizes := make([]int, groups)
		n := 0
		for j := range sizes {
			sizes[j] = around[g.Pick(fmt.Sprintf("size%d", j), len(around))]
			if j > 0 && g.Bool("smallGroup") {
				sizes[j] = g.Int("smallSize", 1, 5)
			}
			n += sizes[j]
		}
		tag := "c02-large"
		h := crypto.NewExpandMsgXOFKMAC128(tag)
		prefix := g.Bytes("msgPrefix", 0, 8)
		hashPoint := func(m []byte) bls381.G1 { // H(m) as the signature of scalar 1 (membership is checked by TestC02_ManyMessages)
			s, err := decodeSK(g, one).Sign(m, crypto.NewExpandMsgXOFKMAC128(tag))
			if err != nil {
				g.Fatalf("Sign with scalar 1 failed: %v", err)
			}
			pt, err := bls381.G1Decompress(s)
			if err != nil || pt.Inf {
				g.Fatalf("signature of scalar 1 is not a canonical encoding of a non-identity point: %x (%v)", []byte(s), err)
			}
			return pt
		}
		var pks []crypto.PublicKey
		var ms [][]byte
		var hs []hash.Hasher
		sum := bls381.G1Infinity()
		partial := bls381.G1Infinity() // Σ over the entries after the first 64 of each group only: what a lost batch would leave
		base, _ := drawScalar(g, "base")
		mkKey := func(label string, x *big.Int) crypto.PublicKey {
			return pkVariant(g, label, blsKey{pk: decodeSK(g, x).PublicKey(), x: x})
		}
		for j, c := range sizes {
			if perKeyShape {
				// one key object, c distinct messages
				x := new(big.Int).Add(base, big.NewInt(int64(j)))
				x.Mod(x, blsR)
				if x.Sign() == 0 {
					x.SetInt64(5)
				}
				pk := mkKey(fmt.Sprintf("pkVia%d", j), x)
				hsum, hpart := bls381.G1Infinity(), bls381.G1Infinity()
				for i := 0; i < c; i++ {
					m := append(append([]byte{}, prefix...), []byte(fmt.Sprintf("key %d message %d", j, i))...)
					pks, ms, hs = append(pks, pk), append(ms, m), append(hs, h)
					H := hashPoint(m)
					hsum = hsum.Add(H)
					if i >= 64 {
						hpart = hpart.Add(H)
					}
				}
				sum = sum.Add(hsum.Mul(x))
				partial = partial.Add(hpart.Mul(x))
			} else {
				// one message, c distinct key objects
				m := append(append([]byte{}, prefix...), []byte(fmt.Sprintf("message %d", j))...)
				H := hashPoint(m)
				xsum, xpart := new(big.Int), new(big.Int)
				for i := 0; i < c; i++ {
					x := new(big.Int).Add(base, big.NewInt(int64(1000*j+i)))
					x.Mod(x, blsR)
					if x.Sign() == 0 {
						x.SetInt64(5)
					}
					pks, ms, hs = append(pks, mkKey(fmt.Sprintf("pkVia%d_%d", j, i), x)), append(ms, m), append(hs, h)
					xsum.Add(xsum, x)
					if i >= 16 {
						xpart.Add(xpart, x)
					}
				}
				sum = sum.Add(H.Mul(xsum.Mod(xsum, blsR)))
				partial = partial.Add(H.Mul(xpart.Mod(xpart, blsR)))
			}
		}
		perm := g.Perm("order", n)
		pks2, ms2, hs2 := make([]crypto.PublicKey, n), make([][]byte, n), make([]hash.Hasher, n)
		for i, p := range perm {
			pks2[i], ms2[i], hs2[i] = pks[p], ms[p], hs[p]
		}
		expected := bls381.G1Compress(sum)
		for rep := 0; rep < 2; rep++ {
			if ok, err := crypto.VerifyBLSSignatureManyMessages(pks2, append([]byte{}, expected...), ms2, hs2); err != nil || !ok {
				g.Fatalf("VerifyBLSSignatureManyMessages(%d entries in groups %v, manyMessagesPerKey=%v, Σ sk_i·H_i = %x) = (%v, %v), expected true", n, sizes, perKeyShape, expected, ok, err)
			}
		}
		if !partial.Equal(sum) {
			if ok, err := crypto.VerifyBLSSignatureManyMessages(pks2, bls381.G1Compress(partial), ms2, hs2); err != nil || ok {
				g.Fatalf("VerifyBLSSignatureManyMessages(%d entries in groups %v) accepted the sum over a part of the entries only: (%v, %v)", n, sizes, ok, err)
			}
		}
		if !perKeyShape && groups == 1 {
			// all keys on one message: the one-message verification and the aggregated key agree with the oracle as well
			if ok, err := crypto.VerifyBLSSignatureOneMessage(pks2, expected, ms2[0], h); err != nil || !ok {
				g.Fatalf("VerifyBLSSignatureOneMessage over %d keys = (%v, %v), expected true", n, ok, err)
			}
			if ok, err := crypto.VerifyBLSSignatureOneMessage(pks2, bls381.G1Compress(partial), ms2[0], h); err != nil || ok {
				g.Fatalf("VerifyBLSSignatureOneMessage over %d keys accepted the sum over a part of the keys: (%v, %v)", n, ok, err)
			}
		}
		g.Class(fmt.Sprintf("largeLists:manyMessagesPerKey=%v", perKeyShape))
		for _, c := range sizes {
			switch {
			case c > 64:
				g.Class("largeLists:group>64")
			case c >= 16:
				g.Class("largeLists:group16..64")
			}
		}
		g.NonTrivial()
	})
}
