package props

// C05 — serialization is canonical and validating for every key and signature type.

import (
	"bytes"
	"fmt"
	"math/big"
	"testing"

	"github.com/onflow/crypto"

	"verifharness/gen"
	"verifharness/oracle/bls381"
	"verifharness/oracle/wecdsa"
)

// c05G2Swapped returns the coefficient order the C05 oracle uses for G2.  The
// property demands the ZCash order (false).  While finding F1 is listed as
// known, the library's swapped order is used instead — that exclusion is
// counted — so that every other deviation from the format is still searched.
func c05G2Swapped(g *gen.G) bool {
	if knownActive("F1") {
		if mustSwapped(g) {
			g.Class("excluded:F1-coefficient-order")
			return true
		}
	}
	return false
}

var fieldSpecials = func(mod *big.Int, bits uint) []*big.Int {
	return []*big.Int{
		big.NewInt(0), big.NewInt(1), big.NewInt(2),
		new(big.Int).Sub(mod, one), new(big.Int).Set(mod), new(big.Int).Add(mod, one),
		new(big.Int).Sub(new(big.Int).Lsh(one, bits-3), one), // 2^(bits-3)-1 (2^381-1 for 48-byte fields)
		new(big.Int).Sub(new(big.Int).Lsh(one, bits), one),   // all ones
	}
}

// mutate derives a near-valid string from a valid encoding made of nf fields
// of fl bytes (plus an optional 1-byte prefix).  hasFlags: the top three bits of
// byte 0 are ZCash flags.
func mutate(g *gen.G, valid []byte, prefix, fl, nf int, mod *big.Int, hasFlags bool) ([]byte, string) {
	b := append([]byte{}, valid...)
	switch g.Int("mut", 0, 11) {
	case 0:
		return b, "asIs"
	case 1:
		pos := g.Int("bit", 0, len(b)*8-1)
		b[pos/8] ^= 0x80 >> uint(pos%8)
		return b, "bitflip"
	case 2:
		if hasFlags {
			b[0] = (b[0] & 0x1F) | byte(g.Int("flags", 0, 7)<<5)
			return b, "flags"
		}
		if prefix == 1 {
			b[0] = byte(g.Int("prefix", 0, 255))
			return b, "prefixByte"
		}
		b[0] ^= 0x80
		return b, "bitflip"
	case 3, 4: // a field replaced by a special value
		f := g.Pick("field", nf)
		sp := fieldSpecials(mod, uint(fl*8))
		v := sp[g.Pick("special", len(sp))]
		fb := make([]byte, fl)
		v.FillBytes(fb)
		flags := b[0] & 0xE0
		copy(b[prefix+f*fl:], fb)
		if hasFlags && f == 0 && g.Bool("keepFlags") {
			b[0] = (b[0] & 0x1F) | flags
		}
		return b, "fieldSpecial"
	case 5: // field + modulus (non-reduced alias of the same value)
		f := g.Pick("field", nf)
		off := prefix + f*fl
		fb := append([]byte{}, b[off:off+fl]...)
		var flags byte
		if hasFlags && f == 0 {
			flags = fb[0] & 0xE0
			fb[0] &= 0x1F
		}
		v := new(big.Int).SetBytes(fb)
		v.Add(v, mod)
		if v.BitLen() <= fl*8 {
			v.FillBytes(fb)
			if hasFlags && f == 0 && fb[0]&0xE0 == 0 {
				fb[0] |= flags
			}
			copy(b[off:], fb)
			return b, "fieldPlusModulus"
		}
		return b, "asIs"
	case 6:
		L := g.Int("truncLen", 0, len(b)-1)
		return b[:L], "truncated"
	case 7:
		ext := g.Int("extLen", 1, 200-len(b))
		if g.Bool("extZero") {
			return append(b, make([]byte, ext)...), "zeroExtended"
		}
		return append(b, g.Expand("extData", ext)...), "extended"
	case 8:
		return g.Expand("random", len(b)), "randomSameLength"
	case 9:
		return g.Bytes("randomAnyLength", 0, 200), "randomAnyLength"
	case 10: // all-zero / all-ones bodies
		v := byte(0)
		if g.Bool("ones") {
			v = 0xff
		}
		for i := range b {
			b[i] = v
		}
		return b, "constantBytes"
	default: // two bit flips
		for k := 0; k < 2; k++ {
			pos := g.Int("bit2", 0, len(b)*8-1)
			b[pos/8] ^= 0x80 >> uint(pos%8)
		}
		return b, "twoBitflips"
	}
}

// ---------------------------------------------------------------------------
// BLS private keys

func blsPrivAccepts(b []byte) bool {
	if len(b) != 32 {
		return false
	}
	v := new(big.Int).SetBytes(b)
	return v.Sign() > 0 && v.Cmp(blsR) < 0
}

func c05CheckPriv(g *gen.G, algo crypto.SigningAlgorithm, b []byte, want bool, kind string) {
	in := append([]byte{}, b...)
	sk, err := crypto.DecodePrivateKey(algo, in)
	if !bytes.Equal(in, b) {
		g.Fatalf("DecodePrivateKey modified its input")
	}
	if want {
		if err != nil {
			g.Fatalf("DecodePrivateKey(%s, %s input %x) rejected a scalar in [1, order-1]: %v", algo, kind, b, err)
		}
		if enc := sk.Encode(); !bytes.Equal(enc, b) {
			g.Fatalf("DecodePrivateKey(%s, %x) accepted but re-encodes to %x", algo, b, enc)
		}
		sk2, err := crypto.DecodePrivateKey(algo, sk.Encode())
		if err != nil || !sk2.Equals(sk) || !sk.Equals(sk2) {
			g.Fatalf("re-decoding the encoding of an accepted %s private key does not give an Equal key", algo)
		}
		return
	}
	if err == nil {
		g.Fatalf("DecodePrivateKey(%s, %s input %x of %d bytes) accepted a string outside the accepted set; re-encodes to %x", algo, kind, b, len(b), sk.Encode())
	}
	if !crypto.IsInvalidInputsError(err) || sk != nil {
		g.Fatalf("DecodePrivateKey(%s, %s input %x) rejected with (%v, %v): expected nil key and an invalid-inputs error", algo, kind, b, sk, err)
	}
}

func scalarSpecials(order *big.Int) []*big.Int {
	return []*big.Int{big.NewInt(0), big.NewInt(1), new(big.Int).Sub(order, one), new(big.Int).Set(order), new(big.Int).Add(order, one),
		new(big.Int).Sub(new(big.Int).Lsh(one, 256), one), new(big.Int).Lsh(one, 255)}
}

func TestC05_BLSPrivate(t *testing.T) {
	gen.Run(t, "C05", func(g *gen.G) {
		x, _ := drawScalar(g, "sk")
		var b []byte
		kind := ""
		if g.Chance("special", 1, 3) {
			sp := scalarSpecials(blsR)
			b = scalarBytes(sp[g.Pick("which", len(sp))])
			kind = "specialScalar"
		} else {
			b, kind = mutate(g, scalarBytes(x), 0, 32, 1, blsR, false)
		}
		if len(b) == 0 && knownActive("F8") {
			g.Class("excluded:F8-empty-input")
			b = []byte{0}
		}
		want := blsPrivAccepts(b)
		c05CheckPriv(g, crypto.BLSBLS12381, b, want, kind)
		g.Class("blsPriv:" + kind)
		g.Class(fmt.Sprintf("blsPriv:accepted=%v", want))
		if kind != "randomAnyLength" {
			g.NonTrivial(fmt.Sprintf("blspriv:%x", b))
		}
	})
}

// ---------------------------------------------------------------------------
// BLS public keys

func c05CheckBLSPub(g *gen.G, b []byte, swapped bool, kind string) bool {
	pt, derr := bls381.G2Decompress(b, swapped)
	want := derr == nil && pt.InSubgroup()
	for api := 0; api < 2; api++ {
		in := append([]byte{}, b...)
		var pk crypto.PublicKey
		var err error
		name := "DecodePublicKey"
		if api == 0 {
			pk, err = crypto.DecodePublicKey(crypto.BLSBLS12381, in)
		} else {
			name = "DecodePublicKeyCompressed"
			pk, err = crypto.DecodePublicKeyCompressed(crypto.BLSBLS12381, in)
		}
		if !bytes.Equal(in, b) {
			g.Fatalf("%s modified its input", name)
		}
		if want {
			if err != nil {
				g.Fatalf("%s(BLS, %s input %x) rejected the canonical compressed encoding of a G2 element: %v", name, kind, b, err)
			}
			if enc := pk.Encode(); !bytes.Equal(enc, b) {
				g.Fatalf("%s(BLS, %x) accepted but Encode() gives %x", name, b, enc)
			}
			if enc := pk.EncodeCompressed(); !bytes.Equal(enc, b) {
				g.Fatalf("%s(BLS, %x) accepted but EncodeCompressed() gives %x", name, b, enc)
			}
			if pt.Inf != pk.Equals(crypto.IdentityBLSPublicKey()) {
				g.Fatalf("decoded key Equals(identity) = %v for input %x", !pt.Inf, b)
			}
			continue
		}
		if err == nil {
			why := "not a canonical encoding"
			if derr == nil {
				why = "a curve point outside G2"
			}
			g.Fatalf("%s(BLS, %s input %x of %d bytes) accepted %s (oracle: %v); re-encodes to %x", name, kind, b, len(b), why, derr, pk.Encode())
		}
		if !crypto.IsInvalidInputsError(err) || pk != nil {
			g.Fatalf("%s(BLS, %s input %x) rejected with (%v, %v): expected nil key and an invalid-inputs error", name, kind, b, pk, err)
		}
	}
	return want
}

// g2Encode writes x (and the flags) in the chosen coefficient order without
// requiring the point to be on the curve: used for raw coordinate mutations.
func g2Raw(c0, c1 *big.Int, flags byte, swapped bool) []byte {
	b := make([]byte, 96)
	first, second := c1, c0
	if swapped {
		first, second = c0, c1
	}
	first.FillBytes(b[:48])
	second.FillBytes(b[48:])
	b[0] |= flags
	return b
}

func TestC05_BLSPublic(t *testing.T) {
	gen.Run(t, "C05", func(g *gen.G) {
		swapped := c05G2Swapped(g)
		var b []byte
		kind := ""
		seed := g.Bytes("ptSeed", 1, 3)
		switch g.Int("src", 0, 9) {
		case 0, 1, 2: // mutation of a library-produced key
			k := drawKey(g, "key")
			b, kind = mutate(g, k.pk.Encode(), 0, 48, 2, blsP, true)
		case 3: // oracle-built canonical encodings of chosen points
			switch g.Int("ptKind", 0, 5) {
			case 0:
				b, kind = bls381.G2Compress(bls381.G2SubgroupPoint(seed), swapped), "oracleSubgroupPoint"
			case 1:
				b, kind = bls381.G2Compress(bls381.G2CurvePoint(seed), swapped), "curvePointOutsideG2"
			case 2:
				b, kind = bls381.G2Compress(bls381.G2TorsionPoint(seed), swapped), "torsionPoint"
			case 3:
				pt, _ := bls381.G2SmallOrderPoint([]int64{13, 23}[g.Pick("ord", 2)], seed)
				b, kind = bls381.G2Compress(pt, swapped), "smallOrderPoint"
			case 4:
				b, kind = bls381.G2Compress(bls381.G2SubgroupPoint(seed).Add(bls381.G2TorsionPoint(seed)), swapped), "subgroupPlusTorsion"
			default:
				b, kind = bls381.G2Compress(bls381.G2Infinity(), swapped), "infinity"
			}
			if g.Chance("thenMutate", 1, 3) {
				var k2 string
				b, k2 = mutate(g, b, 0, 48, 2, blsP, true)
				kind += "+" + k2
			}
		case 4: // infinity with one dirty byte at every position
			b = bls381.G2Compress(bls381.G2Infinity(), swapped)
			pos := g.Int("infPos", 0, 95)
			v := []byte{0x01, 0x80, 0xff, 0x20, 0x40}[g.Pick("infVal", 5)]
			if pos == 0 {
				b[0] ^= v
			} else {
				b[pos] = v
			}
			kind = "infinityDirty"
		case 5: // x with x^3+b a non-residue (oracle search), flags canonical
			c0 := new(big.Int).SetBytes(g.Bytes("c0", 47, 47))
			c1 := new(big.Int).SetBytes(g.Bytes("c1", 47, 47))
			for i := 0; i < 64; i++ {
				cand := g2Raw(c0, c1, 0x80, swapped)
				if _, err := bls381.G2Decompress(cand, swapped); err != nil {
					b = cand
					break
				}
				c0.Add(c0, one)
			}
			if b == nil {
				b = g2Raw(c0, c1, 0x80, swapped)
			}
			kind = "nonResidueX"
		case 6: // raw coordinates from the special values
			sp := fieldSpecials(blsP, 384)
			b = g2Raw(sp[g.Pick("c0s", len(sp))], sp[g.Pick("c1s", len(sp))], 0, swapped)
			b[0] = (b[0] & 0x1F) | byte(g.Int("flags", 4, 7)<<5)
			kind = "specialCoordinates"
		case 7: // the other coefficient order of a valid key (finding F1's shape)
			k := drawKey(g, "key")
			pt, err := bls381.G2Decompress(k.pk.Encode(), mustSwapped(g))
			if err != nil {
				g.Fatalf("library key %x does not decode with the calibrated codec: %v", k.pk.Encode(), err)
			}
			b, kind = bls381.G2Compress(pt, !swapped), "otherCoefficientOrder"
		default:
			b, kind = g.Bytes("random", 0, 200), "randomAnyLength"
			if g.Bool("len96") {
				b, kind = g.Expand("random96", 96), "random96"
				b[0] |= 0x80
			}
		}
		accepted := c05CheckBLSPub(g, b, swapped, kind)
		g.Class("blsPub:" + kind)
		g.Class(fmt.Sprintf("blsPub:accepted=%v", accepted))
		if kind != "randomAnyLength" {
			g.NonTrivial(fmt.Sprintf("blspub:%x", b))
		}
	})
}

// ---------------------------------------------------------------------------
// BLS signatures as parsed by aggregation and verification

func c05CheckBLSSig(g *gen.G, b []byte, kind string, pk crypto.PublicKey, exact []byte) bool {
	_, derr := bls381.G1Decompress(b)
	want := derr == nil
	in := append([]byte{}, b...)
	agg, err := crypto.AggregateBLSSignatures([]crypto.Signature{in})
	if !bytes.Equal(in, b) {
		g.Fatalf("AggregateBLSSignatures modified its input")
	}
	if want {
		if err != nil {
			g.Fatalf("AggregateBLSSignatures rejected the canonical E1 encoding %x (%s): %v", b, kind, err)
		}
		if !bytes.Equal(agg, b) {
			g.Fatalf("AggregateBLSSignatures([%x]) (%s) re-encodes to %x", b, kind, []byte(agg))
		}
	} else {
		if err == nil {
			g.Fatalf("signature parsing (AggregateBLSSignatures) accepted the non-canonical %s string %x of %d bytes (oracle: %v); re-encodes to %x", kind, b, len(b), derr, []byte(agg))
		}
		if !crypto.IsInvalidSignatureError(err) || agg != nil {
			g.Fatalf("AggregateBLSSignatures(%s string %x) rejected with (%x, %v): expected the invalid-signature error", kind, b, []byte(agg), err)
		}
		// a non-canonical string next to a valid one must be rejected as well
		if _, err := crypto.AggregateBLSSignatures([]crypto.Signature{exact, in}); !crypto.IsInvalidSignatureError(err) {
			g.Fatalf("AggregateBLSSignatures([valid, %s string %x]) = %v: expected the invalid-signature error", kind, b, err)
		}
		if _, err := crypto.AggregateBLSSignatures([]crypto.Signature{in, exact}); !crypto.IsInvalidSignatureError(err) {
			g.Fatalf("AggregateBLSSignatures([%s string %x, valid]) = %v: expected the invalid-signature error", kind, b, err)
		}
		if _, err := crypto.AggregateBLSSignatures([]crypto.Signature{exact, in, exact}); !crypto.IsInvalidSignatureError(err) {
			g.Fatalf("AggregateBLSSignatures([valid, %s string %x, valid]) = %v: expected the invalid-signature error", kind, b, err)
		}
	}
	// verification: only the exact signature is accepted, everything else (false, nil)
	ok, verr := pk.Verify(b, []byte("c05"), crypto.NewExpandMsgXOFKMAC128("c05"))
	if verr != nil || ok != bytes.Equal(b, exact) {
		g.Fatalf("Verify(%s string %x) = (%v, %v), exact signature %x", kind, b, ok, verr, exact)
	}
	return want
}

func TestC05_BLSSignature(t *testing.T) {
	gen.Run(t, "C05", func(g *gen.G) {
		k := drawKey(g, "key")
		exact, err := k.sk.Sign([]byte("c05"), crypto.NewExpandMsgXOFKMAC128("c05"))
		if err != nil {
			g.Fatalf("Sign: %v", err)
		}
		var b []byte
		kind := ""
		seed := g.Bytes("ptSeed", 1, 3)
		switch g.Int("src", 0, 7) {
		case 0, 1, 2:
			b, kind = mutate(g, exact, 0, 48, 1, blsP, true)
		case 3:
			switch g.Int("ptKind", 0, 3) {
			case 0:
				b, kind = bls381.G1Compress(bls381.G1CurvePoint(seed)), "curvePointOutsideG1"
			case 1:
				b, kind = bls381.G1Compress(bls381.G1TorsionPoint(seed)), "torsionPoint"
			case 2:
				b, kind = bls381.G1Compress(bls381.G1SubgroupPoint(seed)), "oracleSubgroupPoint"
			default:
				b, kind = bls381.G1Compress(bls381.G1Infinity()), "infinity"
			}
		case 4:
			b = bls381.G1Compress(bls381.G1Infinity())
			pos := g.Int("infPos", 0, 47)
			v := []byte{0x01, 0x80, 0xff, 0x20, 0x40}[g.Pick("infVal", 5)]
			if pos == 0 {
				b[0] ^= v
			} else {
				b[pos] = v
			}
			kind = "infinityDirty"
		case 5:
			x := new(big.Int).SetBytes(g.Bytes("x", 47, 47))
			for i := 0; i < 64; i++ {
				cand := make([]byte, 48)
				x.FillBytes(cand)
				cand[0] |= 0x80
				if _, err := bls381.G1Decompress(cand); err != nil {
					b = cand
					break
				}
				x.Add(x, one)
			}
			kind = "nonResidueX"
		case 6:
			sp := fieldSpecials(blsP, 384)
			b = make([]byte, 48)
			sp[g.Pick("xs", len(sp))].FillBytes(b)
			b[0] = (b[0] & 0x1F) | byte(g.Int("flags", 0, 7)<<5)
			kind = "specialCoordinate"
		default:
			b, kind = g.Bytes("random", 0, 200), "randomAnyLength"
		}
		accepted := c05CheckBLSSig(g, b, kind, k.pk, exact)
		g.Class("blsSig:" + kind)
		g.Class(fmt.Sprintf("blsSig:parsed=%v", accepted))
		if kind != "randomAnyLength" {
			g.NonTrivial(fmt.Sprintf("blssig:%x", b))
		}
	})
}

// ---------------------------------------------------------------------------
// ECDSA

type c05Curve struct {
	algo crypto.SigningAlgorithm
	c    *wecdsa.Curve
}

func c05Curves() []c05Curve {
	return []c05Curve{{crypto.ECDSAP256, wecdsa.P256()}, {crypto.ECDSASecp256k1, wecdsa.Secp256k1()}}
}

func c05DrawScalar(g *gen.G, n *big.Int) *big.Int {
	switch g.Int("dKind", 0, 5) {
	case 0:
		return big.NewInt(1)
	case 1:
		return big.NewInt(2)
	case 2:
		return new(big.Int).Sub(n, one)
	case 3:
		return big.NewInt(int64(g.Int("dSmall", 3, 1<<20)))
	case 4:
		nz := g.Int("dLeadingZeros", 1, 20)
		x := new(big.Int).SetBytes(g.Bytes("dLow", 32-nz, 32-nz))
		if x.Sign() == 0 {
			x.SetInt64(9)
		}
		return x
	default:
		x := new(big.Int).SetBytes(g.Bytes("dRand", 32, 32))
		x.Mod(x, new(big.Int).Sub(n, one))
		return x.Add(x, one)
	}
}

func TestC05_ECDSAPrivate(t *testing.T) {
	cs := c05Curves()
	gen.Run(t, "C05", func(g *gen.G) {
		c := cs[g.Pick("curve", 2)]
		var b []byte
		kind := ""
		if g.Chance("special", 1, 3) {
			sp := scalarSpecials(c.c.N)
			b, kind = scalarBytes(sp[g.Pick("which", len(sp))]), "specialScalar"
		} else {
			b, kind = mutate(g, scalarBytes(c05DrawScalar(g, c.c.N)), 0, 32, 1, c.c.N, false)
		}
		v := new(big.Int).SetBytes(b)
		want := len(b) == 32 && v.Sign() > 0 && v.Cmp(c.c.N) < 0
		c05CheckPriv(g, c.algo, b, want, kind)
		g.Class("ecdsaPriv:" + kind)
		g.Class(fmt.Sprintf("ecdsaPriv:accepted=%v", want))
		if kind != "randomAnyLength" {
			g.NonTrivial(fmt.Sprintf("ecpriv:%s:%x", c.c.Name, b))
		}
	})
}

func TestC05_ECDSAPublic(t *testing.T) {
	cs := c05Curves()
	gen.Run(t, "C05", func(g *gen.G) {
		c := cs[g.Pick("curve", 2)]
		d := c05DrawScalar(g, c.c.N)
		Q := c.c.ScalarBaseMult(d)
		raw := make([]byte, 64)
		Q.X.FillBytes(raw[:32])
		Q.Y.FillBytes(raw[32:])
		comp := c.c.CompressPoint(Q.X, Q.Y)
		compressed := g.Bool("compressed")
		var b []byte
		kind := ""
		switch {
		case compressed && g.Chance("nonResidue", 1, 8):
			x := new(big.Int).SetBytes(g.Bytes("x", 31, 31))
			for i := 0; i < 64; i++ {
				cand := make([]byte, 33)
				cand[0] = byte(2 + g.Int("parity", 0, 1))
				x.FillBytes(cand[1:])
				if _, _, ok := c.c.DecompressPoint(cand); !ok {
					b = cand
					break
				}
				x.Add(x, one)
			}
			kind = "nonResidueX"
		case compressed && g.Chance("otherSEC1Form", 1, 8): // the uncompressed / hybrid SEC1 forms offered to the compressed decoder
			pre := []byte{0x04, 0x06, 0x07, 0x02, 0x03}[g.Pick("sec1Prefix", 5)]
			b, kind = append([]byte{pre}, raw...), "sec1UncompressedOrHybridForm"
		case compressed:
			b, kind = mutate(g, comp, 1, 32, 1, c.c.P, false)
		case g.Chance("otherCurvePoint", 1, 8): // a point of the other curve
			o := cs[1-g.Pick("curveAgain", 1)]
			if o.algo == c.algo {
				o = cs[1]
				if c.algo == cs[1].algo {
					o = cs[0]
				}
			}
			Q2 := o.c.ScalarBaseMult(d)
			b = make([]byte, 64)
			Q2.X.FillBytes(b[:32])
			Q2.Y.FillBytes(b[32:])
			kind = "pointOfOtherCurve"
		default:
			b, kind = mutate(g, raw, 0, 32, 2, c.c.P, false)
		}
		in := append([]byte{}, b...)
		var pk crypto.PublicKey
		var err error
		var want bool
		name := "DecodePublicKey"
		if compressed {
			name = "DecodePublicKeyCompressed"
			_, _, want = c.c.DecompressPoint(b)
			pk, err = crypto.DecodePublicKeyCompressed(c.algo, in)
		} else {
			want = len(b) == 64 && c.c.IsOnCurve(new(big.Int).SetBytes(b[:32]), new(big.Int).SetBytes(b[32:]))
			pk, err = crypto.DecodePublicKey(c.algo, in)
		}
		if !bytes.Equal(in, b) {
			g.Fatalf("%s modified its input", name)
		}
		if want {
			if err != nil {
				g.Fatalf("%s(%s, %s input %x) rejected an on-curve point with reduced coordinates: %v", name, c.algo, kind, b, err)
			}
			var enc []byte
			if compressed {
				enc = pk.EncodeCompressed()
				x, y, _ := c.c.DecompressPoint(b)
				full := make([]byte, 64)
				x.FillBytes(full[:32])
				y.FillBytes(full[32:])
				if !bytes.Equal(pk.Encode(), full) {
					g.Fatalf("%s(%s, %x): Encode() = %x, oracle decompression gives %x", name, c.algo, b, pk.Encode(), full)
				}
			} else {
				enc = pk.Encode()
				if ec := pk.EncodeCompressed(); !bytes.Equal(ec, c.c.CompressPoint(new(big.Int).SetBytes(b[:32]), new(big.Int).SetBytes(b[32:]))) {
					g.Fatalf("%s(%s, %x): EncodeCompressed() = %x differs from X9.62", name, c.algo, b, ec)
				}
			}
			if !bytes.Equal(enc, b) {
				g.Fatalf("%s(%s, %x) accepted but re-encodes to %x", name, c.algo, b, enc)
			}
			pk2, err := crypto.DecodePublicKey(c.algo, pk.Encode())
			if err != nil || !pk2.Equals(pk) || !pk.Equals(pk2) {
				g.Fatalf("re-decoding Encode() of an accepted %s key does not give an Equal key (%v)", c.algo, err)
			}
		} else {
			if err == nil {
				g.Fatalf("%s(%s, %s input %x of %d bytes) accepted a string outside the accepted set; re-encodes to %x / %x", name, c.algo, kind, b, len(b), pk.Encode(), pk.EncodeCompressed())
			}
			if !crypto.IsInvalidInputsError(err) || pk != nil {
				g.Fatalf("%s(%s, %s input %x) rejected with (%v, %v): expected nil key and an invalid-inputs error", name, c.algo, kind, b, pk, err)
			}
		}
		cl := "ecdsaPubRaw:"
		if compressed {
			cl = "ecdsaPubCompressed:"
		}
		g.Class(cl + kind)
		g.Class(fmt.Sprintf("%saccepted=%v", cl, want))
		if kind != "randomAnyLength" {
			g.NonTrivial(fmt.Sprintf("%s%s:%x", cl, c.c.Name, b))
		}
	})
}

// TestC05_Produced: every object the package produces encodes to bytes that decode back to an Equal object.
func TestC05_Produced(t *testing.T) {
	cs := c05Curves()
	gen.Run(t, "C05", func(g *gen.G) {
		swapped := mustSwapped(g)
		switch g.Int("what", 0, 4) {
		case 4:
			// keys produced by a DKG run: a plain Feldman VSS participant that is dealt either the honest vector or a vector
			// whose first two entries were moved outside G2 by amounts that cancel at the participant's abscissa (its
			// share still matches).  Whatever End returns must be canonical G2 elements that decode back.
			n := g.Int("n", 2, 5)
			th := g.Int("t", 1, n-1)
			me := g.Pick("me", n)
			dealer := (me + 1 + g.Pick("dealerOffset", n-1)) % n
			hon := vssDeal(g, n, th, dealer, g.Bytes("seed", 32, 32))
			kind := []string{"honest", "cancellingOutsideG2", "smallOrderAnnihilated", "notInG2"}[g.Pick("vectorKind", 4)]
			rec := &vssRecorder{shares: make([][]byte, n)}
			inst, err := crypto.NewFeldmanVSS(n, th, me, rec, dealer)
			if err != nil {
				g.Fatalf("NewFeldmanVSS: %v", err)
			}
			_ = inst.Start(nil)
			v, sh := vssVector(g, kind, hon, hon, th, me, swapped), vssShare("honest", hon, hon, me)
			if g.Bool("shareFirst") {
				_ = inst.HandlePrivateMsg(dealer, sh)
				_ = inst.HandleBroadcastMsg(dealer, v)
			} else {
				_ = inst.HandleBroadcastMsg(dealer, v)
				_ = inst.HandlePrivateMsg(dealer, sh)
			}
			x, gpk, pks, err := inst.End()
			if err == nil {
				if sk2, e := crypto.DecodePrivateKey(crypto.BLSBLS12381, x.Encode()); e != nil || !sk2.Equals(x) {
					g.Fatalf("DKG private share does not round-trip: %v", e)
				}
				for i, pk := range append(append([]crypto.PublicKey{}, pks...), gpk) {
					pk2, e := crypto.DecodePublicKey(crypto.BLSBLS12381, pk.Encode())
					if e != nil || !pk2.Equals(pk) {
						g.Fatalf("public key #%d returned by a Feldman VSS End (vector kind %s) does not decode back: %x: %v", i, kind, pk.Encode(), e)
					}
					if pt, e := bls381.G2Decompress(pk.Encode(), swapped); e != nil || !pt.InSubgroup() {
						g.Fatalf("public key #%d returned by a Feldman VSS End (vector kind %s) is not a G2 element: %x", i, kind, pk.Encode())
					}
				}
				g.Class("produced:dkgKeys:" + kind)
			} else {
				g.Class("produced:dkgRefused:" + kind)
			}
		case 0: // BLS keys: generated / decoded / aggregated
			k := drawKey(g, "key")
			if k.x.Sign() != 0 {
				sk2, err := crypto.DecodePrivateKey(crypto.BLSBLS12381, k.sk.Encode())
				if err != nil || !sk2.Equals(k.sk) || !bytes.Equal(k.sk.Encode(), scalarBytes(k.x)) {
					g.Fatalf("%s BLS private key does not round-trip: %v", k.how, err)
				}
			}
			pk2, err := crypto.DecodePublicKey(crypto.BLSBLS12381, k.pk.Encode())
			if err != nil || !pk2.Equals(k.pk) || !bytes.Equal(pk2.Encode(), k.pk.Encode()) {
				g.Fatalf("%s BLS public key %x does not round-trip: %v", k.how, k.pk.Encode(), err)
			}
			if pt, err := bls381.G2Decompress(k.pk.Encode(), swapped); err != nil || !pt.InSubgroup() {
				g.Fatalf("%s BLS public key %x is not a canonical G2 encoding (%v)", k.how, k.pk.Encode(), err)
			}
			g.Class("produced:blsKey:" + k.how)
		case 1: // aggregated / removed public keys, identity included
			n := g.Int("n", 1, 5)
			pks := make([]crypto.PublicKey, n)
			for i := range pks {
				pks[i] = drawKey(g, fmt.Sprintf("k%d", i)).pk
			}
			agg, _ := crypto.AggregateBLSPublicKeys(pks)
			rem, _ := crypto.RemoveBLSPublicKeys(agg, pks[:g.Int("remove", 0, n)])
			for _, pk := range []crypto.PublicKey{agg, rem, crypto.IdentityBLSPublicKey()} {
				pk2, err := crypto.DecodePublicKey(crypto.BLSBLS12381, pk.Encode())
				if err != nil || !pk2.Equals(pk) || !bytes.Equal(pk2.Encode(), pk.Encode()) {
					g.Fatalf("aggregated/removed BLS public key %x does not round-trip: %v", pk.Encode(), err)
				}
				if pt, err := bls381.G2Decompress(pk.Encode(), swapped); err != nil || !pt.InSubgroup() {
					g.Fatalf("aggregated BLS public key %x is not a canonical G2 encoding (%v)", pk.Encode(), err)
				}
			}
			g.Class("produced:blsAggregatedKey")
		case 2: // signatures and threshold key shares
			k := drawKey(g, "key")
			msg := g.Bytes("msg", 0, 50)
			s, _ := k.sk.Sign(msg, crypto.NewExpandMsgXOFKMAC128("p"))
			pt, err := bls381.G1Decompress(s)
			if err != nil || !pt.InSubgroup() || !bytes.Equal(bls381.G1Compress(pt), s) {
				g.Fatalf("signature %x is not a canonical G1 encoding (%v)", []byte(s), err)
			}
			n := g.Int("n", 2, 6)
			sks, pks, gpk, err := crypto.BLSThresholdKeyGen(n, g.Int("t", 1, n-1), g.Bytes("seed", 32, 32))
			if err != nil {
				g.Fatalf("BLSThresholdKeyGen: %v", err)
			}
			for i := range sks {
				sk2, err := crypto.DecodePrivateKey(crypto.BLSBLS12381, sks[i].Encode())
				if err != nil || !sk2.Equals(sks[i]) {
					g.Fatalf("threshold private share %d does not round-trip: %v", i, err)
				}
			}
			for _, pk := range append(pks, gpk) {
				pk2, err := crypto.DecodePublicKey(crypto.BLSBLS12381, pk.Encode())
				if err != nil || !pk2.Equals(pk) {
					g.Fatalf("threshold public key %x does not round-trip: %v", pk.Encode(), err)
				}
			}
			g.Class("produced:blsSignatureAndThresholdKeys")
		default: // ECDSA
			c := cs[g.Pick("curve", 2)]
			sk, err := crypto.GeneratePrivateKey(c.algo, g.Bytes("seed", 32, 64))
			if err != nil {
				g.Fatalf("GeneratePrivateKey: %v", err)
			}
			sk2, err := crypto.DecodePrivateKey(c.algo, sk.Encode())
			if err != nil || !sk2.Equals(sk) || len(sk.Encode()) != 32 {
				g.Fatalf("generated %s private key does not round-trip: %v", c.algo, err)
			}
			pk := sk.PublicKey()
			pk2, err := crypto.DecodePublicKey(c.algo, pk.Encode())
			pk3, err3 := crypto.DecodePublicKeyCompressed(c.algo, pk.EncodeCompressed())
			if err != nil || err3 != nil || !pk2.Equals(pk) || !pk3.Equals(pk) || len(pk.Encode()) != 64 || len(pk.EncodeCompressed()) != 33 {
				g.Fatalf("generated %s public key does not round-trip: %v %v", c.algo, err, err3)
			}
			g.Class("produced:ecdsaKey")
		}
		g.NonTrivial()
	})
}

// TestC05_Enumerations: the finite families the quantifier lists explicitly.
func TestC05_Enumerations(t *testing.T) {
	cs := c05Curves()
	gen.Run(t, "C05", func(g *gen.G) {
		swapped := c05G2Swapped(g)
		var n, nt int64
		k := drawKey(g, "key")
		exact, _ := k.sk.Sign([]byte("c05"), crypto.NewExpandMsgXOFKMAC128("c05"))
		// every single-bit flip of a valid signature
		for pos := 0; pos < 384; pos++ {
			b := append([]byte{}, exact...)
			b[pos/8] ^= 0x80 >> uint(pos%8)
			c05CheckBLSSig(g, b, fmt.Sprintf("bitflip@%d", pos), k.pk, exact)
			n++
			nt++
		}
		// every infinity position × {0x01, 0x80, 0xff}; every length 0..200
		for pos := 1; pos < 48; pos++ {
			for _, v := range []byte{0x01, 0x80, 0xff} {
				b := bls381.G1Compress(bls381.G1Infinity())
				b[pos] = v
				c05CheckBLSSig(g, b, fmt.Sprintf("infinityDirty@%d", pos), k.pk, exact)
				n++
				nt++
			}
		}
		for L := 0; L <= 200; L++ {
			b := make([]byte, L)
			copy(b, exact)
			c05CheckBLSSig(g, b, fmt.Sprintf("length%d", L), k.pk, exact)
			if L != 0 || !knownActive("F8") {
				c05CheckPriv(g, crypto.BLSBLS12381, b[:min(L, len(b))], blsPrivAccepts(b), fmt.Sprintf("length%d", L))
			}
			n += 2
			nt++
		}
		// public key: infinity positions, and (thorough) every single-bit flip
		for pos := 1; pos < 96; pos++ {
			for _, v := range []byte{0x01, 0x80, 0xff} {
				b := bls381.G2Compress(bls381.G2Infinity(), swapped)
				b[pos] = v
				c05CheckBLSPub(g, b, swapped, fmt.Sprintf("infinityDirty@%d", pos))
				n++
				nt++
			}
		}
		step := 7
		if thorough() {
			step = 1
		}
		pkb := k.pk.Encode()
		for pos := g.Int("flipPhase", 0, step-1); pos < 768; pos += step {
			b := append([]byte{}, pkb...)
			b[pos/8] ^= 0x80 >> uint(pos%8)
			c05CheckBLSPub(g, b, swapped, fmt.Sprintf("bitflip@%d", pos))
			n++
			nt++
		}
		for L := 0; L <= 200; L++ {
			b := make([]byte, L)
			copy(b, pkb)
			c05CheckBLSPub(g, b, swapped, fmt.Sprintf("length%d", L))
			n++
		}
		// ECDSA: every compressed prefix byte, every length
		for _, c := range cs {
			d := c05DrawScalar(g, c.c.N)
			Q := c.c.ScalarBaseMult(d)
			comp := c.c.CompressPoint(Q.X, Q.Y)
			for p := 0; p < 256; p++ {
				b := append([]byte{}, comp...)
				b[0] = byte(p)
				_, _, want := c.c.DecompressPoint(b)
				pk, err := crypto.DecodePublicKeyCompressed(c.algo, b)
				if want != (err == nil) || (err == nil && !bytes.Equal(pk.EncodeCompressed(), b)) || (err != nil && !crypto.IsInvalidInputsError(err)) {
					g.Fatalf("DecodePublicKeyCompressed(%s, prefix %#x || X): err=%v, oracle accepts=%v", c.algo, p, err, want)
				}
				n++
				nt++
			}
			for L := 0; L <= 200; L++ {
				b := make([]byte, L)
				copy(b, comp)
				_, _, want := c.c.DecompressPoint(b)
				if _, err := crypto.DecodePublicKeyCompressed(c.algo, b); want != (err == nil) || (err != nil && !crypto.IsInvalidInputsError(err)) {
					g.Fatalf("DecodePublicKeyCompressed(%s, %d bytes): err=%v", c.algo, L, err)
				}
				raw := make([]byte, L)
				full := make([]byte, 64)
				Q.X.FillBytes(full[:32])
				Q.Y.FillBytes(full[32:])
				copy(raw, full)
				if _, err := crypto.DecodePublicKey(c.algo, raw); (L == 64) != (err == nil) || (err != nil && !crypto.IsInvalidInputsError(err)) {
					g.Fatalf("DecodePublicKey(%s, %d bytes): err=%v", c.algo, L, err)
				}
				c05CheckPriv(g, c.algo, raw[:min(L, len(raw))], L == 32 && new(big.Int).SetBytes(raw).Cmp(c.c.N) < 0 && new(big.Int).SetBytes(raw).Sign() > 0, fmt.Sprintf("length%d", L))
				n += 3
			}
		}
		gen.Count(n, nt)
		g.Class("enumerations")
		g.NonTrivial()
	})
	gen.Exhaustive("C05: for the drawn keys — every single-bit flip of a signature (384), of a BLS public key (768 in thorough, every 7th in quick), every dirty-infinity position × {0x01,0x80,0xff} for G1 and G2, every length 0..200 for every decoder, every compressed ECDSA prefix byte 0x00..0xff on both curves")
}

// TestKF_F1 probes known finding F1 (G2 coefficient order).
func TestKF_F1(t *testing.T) {
	swapped, err := g2Swapped()
	if err != nil {
		t.Fatalf("calibration failed: %v", err)
	}
	std := bls381.G2Compress(bls381.G2Generator(), false)
	_, derr := crypto.DecodePublicKey(crypto.BLSBLS12381, std)
	if swapped && derr != nil {
		t.Logf("KF-REPRODUCES F1: Encode(sk=1) uses c0||c1 and the ZCash encoding of the G2 generator %x is rejected (%v)", std, derr)
	} else if !swapped && derr == nil {
		t.Logf("KF-GONE F1")
	} else {
		t.Logf("KF-REPRODUCES F1 (partially): swapped=%v, standard generator decode error=%v", swapped, derr)
	}
}
