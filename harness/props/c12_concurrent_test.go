package props

// C12 (cached consistently): concurrent first PublicKey() calls on one private key object all return the
// key of the private scalar.  The plain build is used: the lazy initialisation is unsynchronised in the
// library by design of its documentation (keys are not documented as thread-safe), so the race detector is
// not the oracle here; the oracle is that no caller ever observes a key different from scalar·g2.

import (
	"bytes"
	"fmt"
	"runtime"
	"sync"
	"testing"

	"github.com/onflow/crypto"

	"verifharness/gen"
	"verifharness/oracle/bls381"
)

func TestC12_ConcurrentPublicKey(t *testing.T) {
	gen.Run(t, "C12", func(g *gen.G) {
		swapped := mustSwapped(g)
		x, how := drawScalar(g, "sk")
		want := bls381.G2Compress(bls381.G2Generator().Mul(x), swapped)
		G := g.Int("goroutines", 2, 16)
		defer runtime.GOMAXPROCS(runtime.GOMAXPROCS(0))
		runtime.GOMAXPROCS([]int{2, 4, 16}[g.Pick("procs", 3)])
		for rep := 0; rep < 8; rep++ {
			sk := decodeSK(g, x) // a fresh object: the public key is not computed yet
			got := make([][]byte, G)
			start := make(chan struct{})
			var wg sync.WaitGroup
			for i := 0; i < G; i++ {
				wg.Add(1)
				go func(i int) {
					defer wg.Done()
					<-start
					for spin := 0; spin < i%4*200; spin++ { // stagger the callers inside the first computation
						runtime.Gosched()
					}
					got[i] = sk.PublicKey().Encode()
				}(i)
			}
			close(start)
			wg.Wait()
			for i := range got {
				if !bytes.Equal(got[i], want) {
					g.Fatalf("PublicKey() of a %s BLS private key %x called concurrently by %d goroutines returned %x to caller %d, the key is %x", how, scalarBytes(x), G, got[i], i, want)
				}
			}
			if !bytes.Equal(sk.PublicKey().Encode(), want) || !sk.PublicKey().Equals(sk.PublicKey()) {
				g.Fatalf("cached public key differs after concurrent first calls")
			}
		}
		// ECDSA keys likewise
		for _, a := range []crypto.SigningAlgorithm{crypto.ECDSAP256, crypto.ECDSASecp256k1} {
			sk, err := crypto.GeneratePrivateKey(a, g.Bytes(fmt.Sprintf("seed%d", a), 32, 32))
			if err != nil {
				g.Fatalf("keygen: %v", err)
			}
			ref := sk.PublicKey().Encode()
			sk2, _ := crypto.DecodePrivateKey(a, sk.Encode())
			got := make([][]byte, G)
			var wg sync.WaitGroup
			for i := 0; i < G; i++ {
				wg.Add(1)
				go func(i int) { defer wg.Done(); got[i] = sk2.PublicKey().Encode() }(i)
			}
			wg.Wait()
			for i := range got {
				if !bytes.Equal(got[i], ref) {
					g.Fatalf("%s PublicKey() called concurrently returned %x, expected %x", a, got[i], ref)
				}
			}
		}
		g.Class("concurrentFirstPublicKey")
		g.NonTrivial(fmt.Sprintf("%x/%d", scalarBytes(x), G))
	})
}
