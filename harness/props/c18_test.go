package props

// C18 — the stateful threshold-signature object is linearizable under concurrent use.

import (
	"bytes"
	"fmt"
	"runtime"
	"sort"
	"strings"
	"sync"
	"sync/atomic"
	"testing"
	"time"

	"github.com/anishathalye/porcupine"
	"github.com/onflow/crypto"

	"verifharness/gen"
)

type c18Op struct {
	kind  string // trustedAdd, verifyAndAdd, hasShare, enough, verifyShare, verifyThreshold, signShare, thresholdSignature
	idx   int
	share string // "good", "other", "malformed", "short"  (validity is relative to idx)
	sig   string // for verifyThreshold: "good" / "bad"
}

func (o c18Op) String() string {
	switch o.kind {
	case "trustedAdd", "verifyAndAdd", "verifyShare":
		return fmt.Sprintf("%s(%d,%s)", o.kind, o.idx, o.share)
	case "hasShare":
		return fmt.Sprintf("hasShare(%d)", o.idx)
	case "verifyThreshold":
		return "verifyThreshold(" + o.sig + ")"
	}
	return o.kind + "()"
}

// sequential model (DESIGN appendix C): state = retained signers with the kind of their share, cache flag
type c18State struct {
	shares string // sorted "idx:kind," list
	cached bool
}

type c18Cfg struct{ n, t int }

func (st c18State) parse() map[int]string {
	m := map[int]string{}
	for _, e := range strings.Split(st.shares, ",") {
		if e == "" {
			continue
		}
		var i int
		var k string
		fmt.Sscanf(e, "%d:%s", &i, &k)
		m[i] = k
	}
	return m
}

func c18Encode(m map[int]string, cached bool) c18State {
	var ks []int
	for k := range m {
		ks = append(ks, k)
	}
	sort.Ints(ks)
	var sb strings.Builder
	for _, k := range ks {
		fmt.Fprintf(&sb, "%d:%s,", k, m[k])
	}
	return c18State{sb.String(), cached}
}

// c18Step returns the output the sequential semantics prescribe and the next state.
func c18Step(cfg c18Cfg, st c18State, op c18Op) (string, c18State) {
	m := st.parse()
	enough := len(m) == cfg.t+1
	inRange := op.idx >= 0 && op.idx < cfg.n
	switch op.kind {
	case "hasShare":
		if !inRange {
			return "false,input", st
		}
		_, ok := m[op.idx]
		return fmt.Sprintf("%v,nil", ok), st
	case "enough":
		return fmt.Sprint(enough), st
	case "trustedAdd":
		if !inRange {
			return "false,input", st
		}
		if _, ok := m[op.idx]; ok {
			return "false,dup", st
		}
		if enough {
			return "true,nil", st
		}
		m[op.idx] = op.share
		return fmt.Sprintf("%v,nil", len(m) == cfg.t+1), c18Encode(m, st.cached)
	case "verifyAndAdd":
		if !inRange {
			return "false,false,input", st
		}
		if _, ok := m[op.idx]; ok {
			return "false,false,dup", st
		}
		v := op.share == "good"
		if v && !enough {
			m[op.idx] = op.share
		}
		return fmt.Sprintf("%v,%v,nil", v, len(m) == cfg.t+1), c18Encode(m, st.cached)
	case "verifyShare":
		if !inRange {
			return "false,input", st
		}
		return fmt.Sprintf("%v,nil", op.share == "good"), st
	case "verifyThreshold":
		return fmt.Sprint(op.sig == "good"), st
	case "signShare":
		return "ownShare", st
	case "thresholdSignature":
		if st.cached {
			return "signature", st
		}
		if !enough {
			return "notEnough", st
		}
		undec, wrong := false, false
		for _, k := range m {
			if k == "malformed" || k == "short" {
				undec = true
			}
			if k == "other" {
				wrong = true
			}
		}
		if undec {
			return "invalidSignature", st
		}
		if wrong {
			return "input", st
		}
		return "signature", c18State{st.shares, true}
	}
	return "?", st
}

type c18Input struct {
	op  c18Op
	cfg c18Cfg
}

var c18Model = porcupine.Model{
	Init: func() interface{} { return c18State{} },
	Step: func(state, input, output interface{}) (bool, interface{}) {
		in := input.(c18Input)
		want, next := c18Step(in.cfg, state.(c18State), in.op)
		return want == output.(string), next
	},
	Equal: func(a, b interface{}) bool { return a.(c18State) == b.(c18State) },
	DescribeOperation: func(input, output interface{}) string {
		return fmt.Sprintf("%v -> %v", input.(c18Input).op, output)
	},
}

// spinBarrier releases all goroutines of a run at (nearly) the same instant: each arrival is counted, the last phase is
// a spin on one flag.  Windows of a few instructions (a lazily normalised key, a buffer patched in place for the
// duration of a parse) need starts that are closer together than a closed channel gives.
type spinBarrier struct {
	n, arrived, release int32
}

func (b *spinBarrier) wait() {
	atomic.AddInt32(&b.arrived, 1)
	for i := 0; atomic.LoadInt32(&b.release) == 0; i++ {
		if i%256 == 255 {
			runtime.Gosched()
		}
	}
}

func (b *spinBarrier) open() {
	for atomic.LoadInt32(&b.arrived) < b.n {
		runtime.Gosched()
	}
	atomic.StoreInt32(&b.release, 1)
}

func c18ErrClass(err error) string {
	switch {
	case err == nil:
		return "nil"
	case crypto.IsInvalidInputsError(err):
		return "input"
	case crypto.IsDuplicatedSignerError(err):
		return "dup"
	case crypto.IsNotEnoughSharesError(err):
		return "notEnough"
	case crypto.IsInvalidSignatureError(err):
		return "invalidSignature"
	}
	return "other:" + err.Error()
}

func TestC18_Linearizable(t *testing.T) {
	gen.Run(t, "C18", func(g *gen.G) {
		n := g.Int("n", 2, 6)
		th := g.Int("t", 1, min(3, n-1))
		cfg := c18Cfg{n, th}
		msg := []byte("c18")
		seedBytes := g.Bytes("seed", 32, 32)
		sks, _, _, err := crypto.BLSThresholdKeyGen(n, th, seedBytes)
		if err != nil {
			g.Fatalf("BLSThresholdKeyGen: %v", err)
		}
		h := crypto.NewExpandMsgXOFKMAC128("c18")
		good := make([]crypto.Signature, n)
		for i := range good {
			good[i], _ = sks[i].Sign(msg, h)
		}
		// the unique group signature (reconstructed once, sequentially)
		expected, err := crypto.BLSReconstructThresholdSignature(n, th, good[:th+1], identityPerm(th+1))
		if err != nil {
			g.Fatalf("reference reconstruction: %v", err)
		}
		me := g.Pick("me", n)
		shareBytes := func(o c18Op) crypto.Signature {
			i := o.idx
			if i < 0 || i >= n {
				i = 0
			}
			switch o.share {
			case "good":
				return good[i]
			case "other":
				return good[(i+1)%n]
			case "malformed":
				return crypto.BLSInvalidSignature()
			default:
				return good[i][:47]
			}
		}
		// program: goroutines × operations
		G := g.Int("goroutines", 2, 8)
		if g.Chance("manyGoroutines", 1, 5) {
			G = g.Int("goroutinesMany", 9, 16)
		}
		prog := make([][]c18Op, G)
		mutating := 0
		idxPool := []int{-1, n, 255}
		for gi := range prog {
			k := g.Int("opsPerGoroutine", 1, 6)
			for j := 0; j < k; j++ {
				op := c18Op{idx: g.Pick("idx", n), share: "good", sig: "good"}
				if g.Chance("badIdx", 1, 12) {
					op.idx = idxPool[g.Pick("badIdxWhich", len(idxPool))]
				}
				switch g.Int("shareKind", 0, 7) {
				case 0:
					op.share = "other"
				case 1:
					op.share = "malformed"
				case 2:
					op.share = "short"
				}
				if n == 1 || (op.share == "other" && bytes.Equal(good[(op.idx+n)%n], good[(op.idx+n+1)%n])) {
					op.share = "malformed"
				}
				switch g.Int("opKind", 0, 11) {
				case 0, 1, 2:
					op.kind = "trustedAdd"
					mutating++
				case 3, 4, 5:
					op.kind = "verifyAndAdd"
					mutating++
				case 6:
					op.kind = "hasShare"
				case 7:
					op.kind = "enough"
				case 8:
					op.kind = "verifyShare"
				case 9:
					op.kind = "verifyThreshold"
					if g.Bool("badSig") {
						op.sig = "bad"
					}
				case 10:
					op.kind = "signShare"
				default:
					op.kind = "thresholdSignature"
					mutating++
				}
				prog[gi] = append(prog[gi], op)
			}
		}
		if g.Chance("stampede", 1, 3) {
			// every goroutine starts with the same call on the same signer and the same share buffer: first use of the
			// signer's key object and of the buffer by all of them at once
			first := c18Op{idx: g.Pick("stampedeIdx", n), share: "good", sig: "good", kind: []string{"verifyShare", "verifyShare", "verifyAndAdd", "trustedAdd"}[g.Pick("stampedeKind", 4)]}
			for gi := range prog {
				prog[gi] = append([]c18Op{first}, prog[gi]...)
			}
			if first.kind != "verifyShare" {
				mutating += len(prog)
			}
			g.Class("stampede:" + first.kind)
		}
		runs := 10
		if thorough() {
			runs = 20
		}
		if g.Replaying() {
			runs = 200
		}
		procs := []int{2, 4, 16}
		defer runtime.GOMAXPROCS(runtime.GOMAXPROCS(0))
		for run := 0; run < runs; run++ {
			runtime.GOMAXPROCS(procs[run%len(procs)])
			// fresh key objects for every run (same seed, same keys): whatever the first use of a key object does happens
			// inside the concurrent phase of every run, not once in the first
			sksR, pksR, gpkR, err := crypto.BLSThresholdKeyGen(n, th, seedBytes)
			if err != nil {
				g.Fatalf("BLSThresholdKeyGen: %v", err)
			}
			ins, err := crypto.NewBLSThresholdSignatureParticipant(gpkR, pksR, th, me, sksR[me], msg, "c18")
			if err != nil {
				g.Fatalf("NewBLSThresholdSignatureParticipant: %v", err)
			}
			var clock int64
			var mu sync.Mutex
			var history []porcupine.Operation
			var sigs [][]byte
			start := &spinBarrier{n: int32(len(prog))}
			var wg sync.WaitGroup
			for gi := range prog {
				wg.Add(1)
				go func(gi int) {
					defer wg.Done()
					start.wait()
					for _, op := range prog[gi] {
						sh := shareBytes(op)
						call := atomic.AddInt64(&clock, 1)
						out := ""
						var sig []byte
						switch op.kind {
						case "trustedAdd":
							e, err := ins.TrustedAdd(op.idx, sh)
							out = fmt.Sprintf("%v,%s", e, c18ErrClass(err))
						case "verifyAndAdd":
							v, e, err := ins.VerifyAndAdd(op.idx, sh)
							out = fmt.Sprintf("%v,%v,%s", v, e, c18ErrClass(err))
						case "hasShare":
							b, err := ins.HasShare(op.idx)
							out = fmt.Sprintf("%v,%s", b, c18ErrClass(err))
						case "enough":
							out = fmt.Sprint(ins.EnoughShares())
						case "verifyShare":
							b, err := ins.VerifyShare(op.idx, sh)
							out = fmt.Sprintf("%v,%s", b, c18ErrClass(err))
						case "verifyThreshold":
							s := expected
							if op.sig == "bad" {
								s = good[0]
							}
							b, _ := ins.VerifyThresholdSignature(s)
							out = fmt.Sprint(b)
						case "signShare":
							s, err := ins.SignShare()
							if err == nil && bytes.Equal(s, good[me]) {
								out = "ownShare"
							} else {
								out = fmt.Sprintf("wrongShare:%x:%v", []byte(s), err)
							}
						default:
							s, err := ins.ThresholdSignature()
							if err == nil {
								out, sig = "signature", s
							} else {
								out = c18ErrClass(err)
							}
						}
						ret := atomic.AddInt64(&clock, 1)
						mu.Lock()
						history = append(history, porcupine.Operation{ClientId: gi, Input: c18Input{op, cfg}, Call: call, Output: out, Return: ret})
						if sig != nil {
							sigs = append(sigs, sig)
						}
						mu.Unlock()
					}
				}(gi)
			}
			start.open()
			wg.Wait()
			describe := func() string {
				sort.Slice(history, func(i, j int) bool { return history[i].Call < history[j].Call })
				var sb strings.Builder
				for _, o := range history {
					fmt.Fprintf(&sb, "  g%-2d [%3d,%3d] %v -> %v\n", o.ClientId, o.Call, o.Return, o.Input.(c18Input).op, o.Output)
				}
				return sb.String()
			}
			// direct invariants after quiescence
			for _, s := range sigs {
				if !bytes.Equal(s, expected) {
					g.Fatalf("ThresholdSignature() returned %x, the group signature is %x (n=%d t=%d, run %d)\n%s", s, expected, n, th, run, describe())
				}
			}
			held := 0
			for i := 0; i < n; i++ {
				if b, _ := ins.HasShare(i); b {
					held++
				}
			}
			if held > th+1 {
				g.Fatalf("%d shares retained with t+1 = %d (n=%d, run %d)\n%s", held, th+1, n, run, describe())
			}
			if ins.EnoughShares() != (held == th+1) {
				g.Fatalf("EnoughShares() = %v with %d shares retained, t+1 = %d\n%s", ins.EnoughShares(), held, th+1, describe())
			}
			// linearizability against the sequential model
			res, _ := porcupine.CheckOperationsVerbose(c18Model, history, 10*time.Second)
			switch res {
			case porcupine.Illegal:
				g.Fatalf("history is not linearizable w.r.t. the documented sequential semantics (n=%d t=%d, GOMAXPROCS=%d, run %d):\n%s", n, th, procs[run%len(procs)], run, describe())
			case porcupine.Unknown:
				g.Class("porcupineTimeout(inconclusive)")
			}
		}
		g.Class(fmt.Sprintf("goroutines:%d", (G+3)/4*4))
		if mutating >= 2 && G >= 2 {
			g.NonTrivial()
		}
	})
}
