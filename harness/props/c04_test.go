package props

// C04 — key and signature aggregation are mutually consistent group homomorphisms.

import (
	"bytes"
	"fmt"
	"math/big"
	"testing"

	"github.com/onflow/crypto"

	"verifharness/gen"
	"verifharness/oracle/bls381"
)

// nestAgg aggregates items through a generated binary nesting: the list is cut
// at generated points, each part aggregated recursively, then the partial
// results are aggregated.
func nestAgg[T any](g *gen.G, label string, items []T, agg func([]T) T, depth int) (T, int) {
	if len(items) <= 1 || depth >= 3 || !g.Chance(label+"split", 2, 3) {
		return agg(items), depth
	}
	cut := g.Int(label+"cut", 1, len(items)-1)
	a, da := nestAgg(g, label, items[:cut], agg, depth+1)
	b, db := nestAgg(g, label, items[cut:], agg, depth+1)
	return agg([]T{a, b}), max(da, db)
}

func TestC04_Homomorphism(t *testing.T) {
	gen.Run(t, "C04", func(g *gen.G) {
		swapped := mustSwapped(g)
		n := g.Int("n", 1, 10)
		xs := make([]*big.Int, n)
		sum := new(big.Int)
		dup, inv := false, false
		zero := n >= 2 && g.Chance("sumZero", 1, 5)
		for i := range xs {
			switch {
			case i > 0 && g.Chance("dup", 1, 5):
				xs[i] = xs[g.Pick("dupOf", i)]
				dup = true
			case i > 0 && g.Chance("inverse", 1, 5):
				xs[i] = new(big.Int).Sub(blsR, xs[g.Pick("invOf", i)])
				inv = true
			default:
				xs[i], _ = drawScalar(g, fmt.Sprintf("sk%d", i))
			}
			if zero && i == n-1 && sum.Sign() != 0 {
				xs[i] = new(big.Int).Sub(blsR, sum)
			}
			sum.Add(sum, xs[i])
			sum.Mod(sum, blsR)
		}
		msg := drawMsg(g, "msg")
		h, _ := drawHasher(g, "hasher")
		H := hashToG1(g, msg, h)
		sks := make([]crypto.PrivateKey, n)
		pks := make([]crypto.PublicKey, n)
		sigs := make([]crypto.Signature, n)
		for i := range xs {
			sks[i] = decodeSK(g, xs[i])
			pks[i] = sks[i].PublicKey()
			if g.Chance("pkOtherRoute", 1, 4) {
				// the same point through another constructor, in particular the projective result of RemoveBLSPublicKeys:
				// aggregation and removal must accept every key object the package hands out
				pks[i] = pkVariant(g, fmt.Sprintf("pkVia%d", i), blsKey{pk: pks[i], x: xs[i]})
			}
			s, err := sks[i].Sign(msg, h)
			if err != nil {
				g.Fatalf("Sign: %v", err)
			}
			sigs[i] = s
		}
		// oracle values
		wantSk := scalarBytes(sum)
		wantPk := bls381.G2Compress(bls381.G2Generator().Mul(sum), swapped)
		wantSig := bls381.G1Compress(H.Mul(sum))

		aggSk, err := crypto.AggregateBLSPrivateKeys(sks)
		if err != nil {
			g.Fatalf("AggregateBLSPrivateKeys: %v", err)
		}
		if !bytes.Equal(aggSk.Encode(), wantSk) {
			g.Fatalf("AggregateBLSPrivateKeys of %d keys encodes to %x, Σ mod r = %x", n, aggSk.Encode(), wantSk)
		}
		aggPk, err := crypto.AggregateBLSPublicKeys(pks)
		if err != nil {
			g.Fatalf("AggregateBLSPublicKeys: %v", err)
		}
		if !bytes.Equal(aggPk.Encode(), wantPk) {
			g.Fatalf("AggregateBLSPublicKeys of %d keys = %x, oracle (Σsk)·g2 = %x", n, aggPk.Encode(), wantPk)
		}
		if pk := aggSk.PublicKey(); !pk.Equals(aggPk) || !aggPk.Equals(pk) || !bytes.Equal(pk.Encode(), wantPk) {
			g.Fatalf("public key of the aggregated private key (%x) differs from the aggregated public key (%x)", pk.Encode(), aggPk.Encode())
		}
		{
			// history independence: fresh private key objects, a generated subset of which has already been asked for its
			// public key (lazily computed and cached), aggregate to a key with the same scalar and the same public key
			cold := make([]crypto.PrivateKey, n)
			for i := range xs {
				cold[i] = decodeSK(g, xs[i])
			}
			warmKeys(g, "warm", cold)
			aggCold, err := crypto.AggregateBLSPrivateKeys(cold)
			if err != nil {
				g.Fatalf("AggregateBLSPrivateKeys: %v", err)
			}
			if !bytes.Equal(aggCold.Encode(), wantSk) || !bytes.Equal(aggCold.PublicKey().Encode(), wantPk) || !aggCold.PublicKey().Equals(aggPk) {
				g.Fatalf("aggregating %d private keys of which some had their public key cached: Encode %x (want %x), PublicKey %x (want %x)", n, aggCold.Encode(), wantSk, aggCold.PublicKey().Encode(), wantPk)
			}
			if !aggCold.Equals(aggSk) || !aggSk.Equals(aggCold) {
				g.Fatalf("two aggregations of the same scalars are not Equal")
			}
		}
		aggSig, err := crypto.AggregateBLSSignatures(sigs)
		if err != nil {
			g.Fatalf("AggregateBLSSignatures: %v", err)
		}
		if !bytes.Equal(aggSig, wantSig) {
			g.Fatalf("AggregateBLSSignatures of %d signatures = %x, oracle (Σsk)·H(m) = %x", n, []byte(aggSig), wantSig)
		}
		if s2, err := aggSk.Sign(msg, h); err != nil || !bytes.Equal(s2, wantSig) {
			g.Fatalf("signature by the aggregated private key = %x (%v), expected %x", []byte(s2), err, wantSig)
		}
		// identity handling
		isZero := sum.Sign() == 0
		if crypto.IsBLSSignatureIdentity(aggSig) != isZero {
			g.Fatalf("IsBLSSignatureIdentity(%x) = %v with Σsk zero: %v", []byte(aggSig), crypto.IsBLSSignatureIdentity(aggSig), isZero)
		}
		if aggPk.Equals(crypto.IdentityBLSPublicKey()) != isZero || crypto.IdentityBLSPublicKey().Equals(aggPk) != isZero {
			g.Fatalf("aggregated key Equals(identity) is %v with Σsk zero: %v", !isZero, isZero)
		}
		if isZero {
			if ok, err := aggPk.Verify(aggSig, msg, h); ok || err != nil {
				g.Fatalf("identity aggregated key verified the identity signature: (%v, %v)", ok, err)
			}
			g.Class("sumIsIdentity")
		} else if ok, err := aggPk.Verify(aggSig, msg, h); !ok || err != nil {
			g.Fatalf("aggregated signature does not verify under the aggregated key: (%v, %v)", ok, err)
		}
		// order and nesting independence
		p := g.Perm("order", n)
		sks2, pks2, sigs2 := make([]crypto.PrivateKey, n), make([]crypto.PublicKey, n), make([]crypto.Signature, n)
		for i := range p {
			sks2[i], pks2[i], sigs2[i] = sks[p[i]], pks[p[i]], sigs[p[i]]
		}
		nSk, d1 := nestAgg(g, "nsk", sks2, func(l []crypto.PrivateKey) crypto.PrivateKey {
			r, err := crypto.AggregateBLSPrivateKeys(l)
			if err != nil {
				g.Fatalf("nested AggregateBLSPrivateKeys: %v", err)
			}
			return r
		}, 0)
		nPk, d2 := nestAgg(g, "npk", pks2, func(l []crypto.PublicKey) crypto.PublicKey {
			r, err := crypto.AggregateBLSPublicKeys(l)
			if err != nil {
				g.Fatalf("nested AggregateBLSPublicKeys: %v", err)
			}
			return r
		}, 0)
		nSig, d3 := nestAgg(g, "nsig", sigs2, func(l []crypto.Signature) crypto.Signature {
			r, err := crypto.AggregateBLSSignatures(l)
			if err != nil {
				g.Fatalf("nested AggregateBLSSignatures: %v", err)
			}
			return r
		}, 0)
		if !bytes.Equal(nSk.Encode(), wantSk) || !nSk.Equals(aggSk) {
			g.Fatalf("nested/permuted private-key aggregation gives %x, flat gives %x", nSk.Encode(), wantSk)
		}
		if !bytes.Equal(nPk.Encode(), wantPk) || !nPk.Equals(aggPk) {
			g.Fatalf("nested/permuted public-key aggregation gives %x, flat gives %x", nPk.Encode(), wantPk)
		}
		if !bytes.Equal(nSig, wantSig) {
			g.Fatalf("nested/permuted signature aggregation gives %x, flat gives %x", []byte(nSig), wantSig)
		}
		if !bytes.Equal(nSk.PublicKey().Encode(), wantPk) {
			g.Fatalf("public key of nested aggregated private key differs")
		}
		// removal: Remove(Agg(A ⊎ B), B) == Agg(A)
		cut := g.Int("removeFrom", 0, n)
		A, B := pks2[:cut], pks2[cut:]
		sumA := new(big.Int)
		for i := 0; i < cut; i++ {
			sumA.Add(sumA, xs[p[i]])
		}
		sumA.Mod(sumA, blsR)
		rem, err := crypto.RemoveBLSPublicKeys(aggPk, B)
		if err != nil {
			g.Fatalf("RemoveBLSPublicKeys: %v", err)
		}
		wantA := bls381.G2Compress(bls381.G2Generator().Mul(sumA), swapped)
		if !bytes.Equal(rem.Encode(), wantA) {
			g.Fatalf("RemoveBLSPublicKeys(Agg(A+B), B) with |A|=%d |B|=%d = %x, oracle Agg(A) = %x", cut, n-cut, rem.Encode(), wantA)
		}
		// removal in two steps: the key handed to the second call is the (un-normalised) result of the first
		if len(B) >= 2 {
			split := g.Int("removeSplit", 1, len(B)-1)
			rem1, err := crypto.RemoveBLSPublicKeys(aggPk, B[:split])
			if err != nil {
				g.Fatalf("RemoveBLSPublicKeys (first step): %v", err)
			}
			rem2, err := crypto.RemoveBLSPublicKeys(rem1, B[split:])
			if err != nil || !bytes.Equal(rem2.Encode(), wantA) {
				g.Fatalf("RemoveBLSPublicKeys in two steps (|A|=%d, then %d and %d keys removed) = %x (%v), oracle Agg(A) = %x", cut, split, len(B)-split, rem2.Encode(), err, wantA)
			}
			g.Class("removal:twoSteps")
		}
		// removal from what another constructor returned for the same point (decoded, one-element aggregate, removal)
		if via := pkVariant(g, "aggVia", blsKey{pk: aggPk, x: new(big.Int).SetBytes(wantSk)}); via != aggPk && len(B) > 0 {
			rem3, err := crypto.RemoveBLSPublicKeys(via, B)
			if err != nil || !bytes.Equal(rem3.Encode(), wantA) {
				g.Fatalf("RemoveBLSPublicKeys(another object for Agg(A+B), B) = %x (%v), oracle Agg(A) = %x", rem3.Encode(), err, wantA)
			}
		}
		// removal from the identity left after removing everything: −pk
		if n >= 1 && g.Chance("removeFromLeftoverIdentity", 1, 3) {
			leftover, err := crypto.RemoveBLSPublicKeys(aggPk, pks2)
			if err != nil {
				g.Fatalf("RemoveBLSPublicKeys(all): %v", err)
			}
			j := g.Pick("removeOneMore", n)
			neg, err := crypto.RemoveBLSPublicKeys(leftover, pks2[j:j+1])
			want := bls381.G2Compress(bls381.G2Generator().Mul(new(big.Int).Sub(blsR, xs[p[j]])), swapped)
			if err != nil || !bytes.Equal(neg.Encode(), want) {
				g.Fatalf("RemoveBLSPublicKeys(identity left after removing all keys, one key) = %x (%v), oracle −pk = %x", neg.Encode(), err, want)
			}
			g.Class("removal:fromLeftoverIdentity")
		}
		if cut > 0 {
			aggA, _ := crypto.AggregateBLSPublicKeys(A)
			if !aggA.Equals(rem) || !rem.Equals(aggA) {
				g.Fatalf("RemoveBLSPublicKeys result not Equal to Agg(A)")
			}
		} else if !rem.Equals(crypto.IdentityBLSPublicKey()) {
			g.Fatalf("removing every key does not give the identity key: %x", rem.Encode())
		}
		if sumA.Sign() == 0 {
			// identity keys reject everything
			if ok, _ := rem.Verify(wantSig, msg, h); ok {
				g.Fatalf("identity key obtained by removal verified a signature")
			}
		}
		depth := max(d1, max(d2, d3))
		if dup {
			g.Class("duplicate")
		}
		if inv {
			g.Class("inversePair")
		}
		if depth >= 2 {
			g.Class("nestingDepth>=2")
		}
		if n >= 3 && (dup || inv || depth >= 2 || isZero) {
			g.NonTrivial()
		}
	})
}

// TestC04_NonG1: AggregateBLSSignatures is the plain E1 sum (no subgroup check by design).
func TestC04_NonG1(t *testing.T) {
	gen.Run(t, "C04", func(g *gen.G) {
		n := g.Int("n", 1, 6)
		long := g.Chance("longList", 1, 3)
		if long { // bulk summation routines switch algorithm with the number of operands
			n = []int{15, 16, 17, 18, 31, 32, 33, 34, 63, 64, 65}[g.Pick("nLong", 11)]
			g.Class("nonG1:longList")
		}
		sum := bls381.G1Infinity()
		sigs := make([]crypto.Signature, n)
		nonG1 := 0
		for i := range sigs {
			var pt bls381.G1
			seed := g.Bytes(fmt.Sprintf("seed%d", i), 1, 3)
			kind := g.Int("ptKind", 0, 5)
			if long {
				// cheap operands for long lists: the special points next to each other are what matters
				switch g.Int("ptKindLong", 0, 9) {
				case 0, 1:
					kind = 2
				case 2, 3:
					kind = 3
				case 4:
					kind = 4
				case 5:
					kind = 6
				case 6:
					kind = 0
				default:
					kind = 7
				}
			}
			switch kind {
			case 6: // the previous operand again (doubling inside the sum)
				if i > 0 {
					pt, _ = bls381.G1Decompress(sigs[i-1])
				} else {
					pt = bls381.G1Generator()
				}
			case 7:
				pt = bls381.G1Generator().Mul(big.NewInt(int64(1 + g.Int("smallMultiple", 0, 50))))
			case 0:
				pt = bls381.G1CurvePoint(seed)
				nonG1++
			case 1:
				pt = bls381.G1TorsionPoint(seed)
				nonG1++
			case 2:
				pt, _ = bls381.G1SmallOrderPoint(3, seed)
				nonG1++
			case 3:
				pt = bls381.G1Infinity()
			case 4:
				if i > 0 {
					prev, _ := bls381.G1Decompress(sigs[i-1])
					pt = prev.Neg()
				} else {
					pt = bls381.G1Generator()
				}
			default:
				pt = bls381.G1SubgroupPoint(seed)
			}
			sigs[i] = bls381.G1Compress(pt)
			sum = sum.Add(pt)
		}
		agg, err := crypto.AggregateBLSSignatures(sigs)
		if err != nil {
			g.Fatalf("AggregateBLSSignatures of canonical E1 encodings failed: %v", err)
		}
		if want := bls381.G1Compress(sum); !bytes.Equal(agg, want) {
			g.Fatalf("AggregateBLSSignatures of %d E1 points (%d outside G1) = %x, oracle sum = %x", n, nonG1, []byte(agg), want)
		}
		if crypto.IsBLSSignatureIdentity(agg) != sum.Inf {
			g.Fatalf("IsBLSSignatureIdentity(%x) wrong", []byte(agg))
		}
		if nonG1 > 0 {
			g.Class("nonG1Operand")
		}
		if sum.Inf {
			g.Class("sumIsIdentity")
		}
		if n >= 2 {
			g.NonTrivial()
		}
	})
}

// TestC04_Errors: empty lists, malformed signatures and non-BLS keys give the documented errors.
func TestC04_Errors(t *testing.T) {
	gen.Run(t, "C04", func(g *gen.G) {
		n := g.Int("n", 1, 5)
		at := g.Pick("at", n)
		sks := make([]crypto.PrivateKey, n)
		pks := make([]crypto.PublicKey, n)
		sigs := make([]crypto.Signature, n)
		h := crypto.NewExpandMsgXOFKMAC128("c04")
		for i := range sks {
			x, _ := drawScalar(g, fmt.Sprintf("sk%d", i))
			sks[i] = decodeSK(g, x)
			pks[i] = sks[i].PublicKey()
			sigs[i], _ = sks[i].Sign([]byte("m"), h)
		}
		name := ""
		switch g.Int("fault", 0, 4) {
		case 0:
			name = "empty"
			if _, err := crypto.AggregateBLSSignatures(nil); !crypto.IsBLSAggregateEmptyListError(err) {
				g.Fatalf("AggregateBLSSignatures(empty): %v", err)
			}
			if _, err := crypto.AggregateBLSPrivateKeys(nil); !crypto.IsBLSAggregateEmptyListError(err) {
				g.Fatalf("AggregateBLSPrivateKeys(empty): %v", err)
			}
			if _, err := crypto.AggregateBLSPublicKeys([]crypto.PublicKey{}); !crypto.IsBLSAggregateEmptyListError(err) {
				g.Fatalf("AggregateBLSPublicKeys(empty): %v", err)
			}
			if r, err := crypto.RemoveBLSPublicKeys(pks[0], nil); err != nil || !r.Equals(pks[0]) {
				g.Fatalf("RemoveBLSPublicKeys(pk, empty) = %v", err)
			}
		case 1:
			name = "malformedSignature"
			exact, _ := bls381.G1Decompress(sigs[at])
			cs := sigCandidates(g, exact, "c")
			c := cs[g.Pick("cand", len(cs))]
			_, derr := bls381.G1Decompress(c.b)
			sigs[at] = c.b
			r, err := crypto.AggregateBLSSignatures(sigs)
			if derr != nil { // not a canonical E1 encoding
				if r != nil || !crypto.IsInvalidSignatureError(err) {
					g.Fatalf("AggregateBLSSignatures with a %s signature %x at index %d: (%x, %v), expected the invalid-signature error", c.kind, c.b, at, []byte(r), err)
				}
				name += ":" + c.kind
			} else if err != nil {
				g.Fatalf("AggregateBLSSignatures rejected a canonical E1 encoding (%s): %v", c.kind, err)
			}
		case 2:
			name = "nonBLSPrivateKey"
			sks[at] = ecdsaKey(g)
			if r, err := crypto.AggregateBLSPrivateKeys(sks); r != nil || !crypto.IsNotBLSKeyError(err) {
				g.Fatalf("AggregateBLSPrivateKeys with an ECDSA key: %v", err)
			}
		case 3:
			name = "nonBLSPublicKey"
			pks[at] = ecdsaKey(g).PublicKey()
			if r, err := crypto.AggregateBLSPublicKeys(pks); r != nil || !crypto.IsNotBLSKeyError(err) {
				g.Fatalf("AggregateBLSPublicKeys with an ECDSA key: %v", err)
			}
		default:
			name = "removeNonBLS"
			good, _ := crypto.AggregateBLSPublicKeys(pks)
			bad := append([]crypto.PublicKey{}, pks...)
			bad[at] = ecdsaKey(g).PublicKey()
			if r, err := crypto.RemoveBLSPublicKeys(good, bad); r != nil || !crypto.IsNotBLSKeyError(err) {
				g.Fatalf("RemoveBLSPublicKeys with an ECDSA key in the list: %v", err)
			}
			if r, err := crypto.RemoveBLSPublicKeys(ecdsaKey(g).PublicKey(), pks); r != nil || !crypto.IsNotBLSKeyError(err) {
				g.Fatalf("RemoveBLSPublicKeys from an ECDSA key: %v", err)
			}
		}
		g.Class("fault:" + name)
		g.NonTrivial(fmt.Sprintf("%s/%d/%d", name, n, at))
	})
}

// TestC04_LargeLists: the aggregation functions on lists whose length crosses the usual internal batch sizes (64, 128,
// 256): the results still equal the oracle's sums (one scalar sum, one multiplication per group).
func TestC04_LargeLists(t *testing.T) {
	gen.Run(t, "C04", func(g *gen.G) {
		swapped := mustSwapped(g)
		n := []int{63, 64, 65, 127, 128, 129, 130, 255, 256, 257, 300}[g.Pick("n", 11)]
		msg := g.Bytes("msg", 0, 40)
		h := crypto.NewExpandMsgXOFKMAC128("c04-large")
		H := hashToG1(g, msg, h)
		base, _ := drawScalar(g, "base")
		sum := new(big.Int)
		sks := make([]crypto.PrivateKey, n)
		pks := make([]crypto.PublicKey, n)
		sigs := make([]crypto.Signature, n)
		idAt := -1
		if g.Bool("identityInside") {
			idAt = g.Pick("identityAt", n)
		}
		for i := 0; i < n; i++ {
			x := new(big.Int).Add(base, big.NewInt(int64(i*7919+1)))
			x.Mod(x, blsR)
			if x.Sign() == 0 {
				x.SetInt64(3)
			}
			sks[i] = decodeSK(g, x)
			pks[i] = sks[i].PublicKey()
			if g.Chance("pkOtherRoute", 1, 16) { // a few keys of the long list are held in projective form, or were decoded / aggregated
				pks[i] = pkVariant(g, fmt.Sprintf("pkVia%d", i), blsKey{pk: pks[i], x: x})
			}
			sigs[i], _ = sks[i].Sign(msg, h)
			sum.Add(sum, x)
		}
		sum.Mod(sum, blsR)
		list := sigs
		if idAt >= 0 { // an identity signature inside a long list changes nothing
			list = append(append(append([]crypto.Signature{}, sigs[:idAt]...), bls381.G1Compress(bls381.G1Infinity())), sigs[idAt:]...)
		}
		agg, err := crypto.AggregateBLSSignatures(list)
		if want := bls381.G1Compress(H.Mul(sum)); err != nil || !bytes.Equal(agg, want) {
			g.Fatalf("AggregateBLSSignatures of %d signatures = %x (%v), oracle (Σsk)·H(m) = %x", len(list), []byte(agg), err, want)
		}
		aggPk, err := crypto.AggregateBLSPublicKeys(pks)
		if want := bls381.G2Compress(bls381.G2Generator().Mul(sum), swapped); err != nil || !bytes.Equal(aggPk.Encode(), want) {
			g.Fatalf("AggregateBLSPublicKeys of %d keys = %x (%v), oracle (Σsk)·g2 = %x", n, aggPk.Encode(), err, want)
		}
		aggSk, err := crypto.AggregateBLSPrivateKeys(sks)
		if err != nil || !bytes.Equal(aggSk.Encode(), scalarBytes(sum)) {
			g.Fatalf("AggregateBLSPrivateKeys of %d keys = %x (%v), Σ mod r = %x", n, aggSk.Encode(), err, scalarBytes(sum))
		}
		if ok, err := crypto.VerifyBLSSignatureOneMessage(pks, agg, msg, h); sum.Sign() != 0 && (!ok || err != nil) {
			g.Fatalf("VerifyBLSSignatureOneMessage over %d keys = (%v, %v)", n, ok, err)
		}
		cut := g.Int("removeFrom", 1, n-1)
		rem, err := crypto.RemoveBLSPublicKeys(aggPk, pks[cut:])
		partial := new(big.Int)
		for i := 0; i < cut; i++ {
			partial.Add(partial, new(big.Int).SetBytes(sks[i].Encode()))
		}
		partial.Mod(partial, blsR)
		if want := bls381.G2Compress(bls381.G2Generator().Mul(partial), swapped); err != nil || !bytes.Equal(rem.Encode(), want) {
			g.Fatalf("RemoveBLSPublicKeys(aggregate of %d keys, the last %d) = %x (%v), oracle %x", n, n-cut, rem.Encode(), err, want)
		}
		g.Class(fmt.Sprintf("largeList:%d", n))
		g.NonTrivial()
	})
}
