package props

// C12 — key generation is a fixed, in-range, deterministic function of the seed;
// the public key of every private key is the private scalar times the generator.

import (
	"bytes"
	"fmt"
	"math/big"
	"testing"

	"github.com/onflow/crypto"

	"verifharness/gen"
	"verifharness/oracle/bls381"
	"verifharness/oracle/keygen"
)

type c12Algo struct {
	name  string
	algo  crypto.SigningAlgorithm
	order *big.Int
	cv    *wecCurve // nil for BLS
}

func c12Algos() []c12Algo {
	return []c12Algo{
		{"BLS12381", crypto.BLSBLS12381, blsR, nil},
		{"P256", crypto.ECDSAP256, wecCurveList[0].c.N, wecCurveList[0]},
		{"secp256k1", crypto.ECDSASecp256k1, wecCurveList[1].c.N, wecCurveList[1]},
	}
}

const (
	c12SeedMin = 32
	c12SeedMax = 256
)

// c12Expected is the documented derivation, by the oracle.
func c12Expected(a c12Algo, seed []byte) *big.Int {
	if a.cv == nil {
		return keygen.BLSKeyGen(seed)
	}
	return keygen.ECDSAKeyGen(seed, a.order)
}

// c12CheckSeed runs GeneratePrivateKey on the seed and checks everything the
// property says about the private key. It returns the key (nil when the seed
// length is out of range) and the expected scalar.
func c12CheckSeed(g *gen.G, a c12Algo, seed []byte) (crypto.PrivateKey, *big.Int) {
	in := append([]byte{}, seed...)
	if seed == nil {
		in = nil
	}
	sk, err := crypto.GeneratePrivateKey(a.algo, in)
	if !bytes.Equal(in, seed) {
		g.Fatalf("GeneratePrivateKey(%s) modified its %d-byte seed %x into %x", a.name, len(seed), seed, in)
	}
	if len(seed) < c12SeedMin || len(seed) > c12SeedMax {
		if err == nil || !crypto.IsInvalidInputsError(err) {
			g.Fatalf("GeneratePrivateKey(%s, %d-byte seed %x): error %v, want an invalid-inputs error (length outside 32..256)", a.name, len(seed), seed, err)
		}
		if sk != nil {
			g.Fatalf("GeneratePrivateKey(%s, %d-byte seed %x) returned a key together with the error %v", a.name, len(seed), seed, err)
		}
		return nil, nil
	}
	if err != nil || sk == nil {
		g.Fatalf("GeneratePrivateKey(%s, %d-byte seed %x) failed: key %v, error %v", a.name, len(seed), seed, sk, err)
	}
	want := c12Expected(a, seed)
	enc := sk.Encode()
	if !bytes.Equal(enc, scalarBytes(want)) {
		g.Fatalf("GeneratePrivateKey(%s, %d-byte seed %x) = %x, the documented derivation gives %x", a.name, len(seed), seed, enc, scalarBytes(want))
	}
	x := new(big.Int).SetBytes(enc)
	if x.Sign() == 0 || x.Cmp(a.order) >= 0 {
		g.Fatalf("GeneratePrivateKey(%s, %d-byte seed %x) = %x is not in [1, n-1]", a.name, len(seed), seed, enc)
	}
	if sk.Algorithm() != a.algo {
		g.Fatalf("GeneratePrivateKey(%s, ...) returned a key of algorithm %v", a.name, sk.Algorithm())
	}
	// identical on every call
	sk2, err := crypto.GeneratePrivateKey(a.algo, in)
	if err != nil || sk2 == nil {
		g.Fatalf("second GeneratePrivateKey(%s, %d-byte seed %x) failed: %v", a.name, len(seed), seed, err)
	}
	if !sk.Equals(sk2) || !sk2.Equals(sk) || !bytes.Equal(sk2.Encode(), enc) {
		g.Fatalf("GeneratePrivateKey(%s, %d-byte seed %x) is not deterministic: %x then %x (Equals = %v)", a.name, len(seed), seed, enc, sk2.Encode(), sk.Equals(sk2))
	}
	return sk, want
}

// c12CheckPublic checks the public key of sk against scalar·generator computed
// by the oracle, its caching and its encoding round trip.
func c12CheckPublic(g *gen.G, a c12Algo, sk crypto.PrivateKey, x *big.Int, origin string) {
	pk := sk.PublicKey()
	if pk == nil {
		g.Fatalf("%s %s key %x: PublicKey() is nil", a.name, origin, scalarBytes(x))
	}
	enc := pk.Encode()
	if a.cv == nil {
		want := bls381.G2Compress(bls381.G2Generator().Mul(x), mustSwapped(g))
		if !bytes.Equal(enc, want) {
			g.Fatalf("BLS %s key %x: PublicKey().Encode() = %x, the oracle computes x·G2 = %x", origin, scalarBytes(x), enc, want)
		}
	} else {
		_, raw, comp := wecPub(a.cv, x)
		if !bytes.Equal(enc, raw) {
			g.Fatalf("%s %s key %x: PublicKey().Encode() = %x, the oracle computes d·G = X‖Y = %x", a.name, origin, scalarBytes(x), enc, raw)
		}
		if c := pk.EncodeCompressed(); !bytes.Equal(c, comp) {
			g.Fatalf("%s %s key %x: PublicKey().EncodeCompressed() = %x, the oracle computes %x", a.name, origin, scalarBytes(x), c, comp)
		}
		if raw[0] == 0 || raw[32] == 0 {
			g.Class("leadingZeroPublicCoordinate")
		}
	}
	if pk.Algorithm() != a.algo {
		g.Fatalf("%s %s key %x: PublicKey().Algorithm() = %v", a.name, origin, scalarBytes(x), pk.Algorithm())
	}
	// cached consistently
	pk2 := sk.PublicKey()
	if pk2 == nil || !pk.Equals(pk2) || !pk2.Equals(pk) || !bytes.Equal(pk2.Encode(), enc) {
		g.Fatalf("%s %s key %x: a second PublicKey() call returns a different key (%x then %x)", a.name, origin, scalarBytes(x), enc, pk2.Encode())
	}
	if again := pk.Encode(); !bytes.Equal(again, enc) {
		g.Fatalf("%s %s key %x: Encode() of the same public key gives %x then %x", a.name, origin, scalarBytes(x), enc, again)
	}
	{
		// the caller owns what Encode() returns: wiping it must not change the key object (no cached slice handed out)
		w1, w2 := pk.Encode(), sk.Encode()
		for i := range w1 {
			w1[i] = 0x5A
		}
		for i := range w2 {
			w2[i] = 0x5A
		}
		if got := sk.PublicKey().Encode(); !bytes.Equal(got, enc) {
			g.Fatalf("%s %s key %x: after the caller overwrote the slice returned by PublicKey().Encode(), Encode() returns %x instead of %x", a.name, origin, scalarBytes(x), got, enc)
		}
		if got := sk.Encode(); !bytes.Equal(got, scalarBytes(x)) {
			g.Fatalf("%s %s key %x: after the caller overwrote the slice returned by the private key's Encode(), Encode() returns %x", a.name, origin, scalarBytes(x), got)
		}
		if a.cv != nil {
			c1 := pk.EncodeCompressed()
			keepC := append([]byte{}, c1...)
			for i := range c1 {
				c1[i] = 0x5A
			}
			if got := pk.EncodeCompressed(); !bytes.Equal(got, keepC) {
				g.Fatalf("%s %s key %x: EncodeCompressed() changed after the caller overwrote an earlier result", a.name, origin, scalarBytes(x))
			}
		}
	}
	dec, err := crypto.DecodePublicKey(a.algo, enc)
	if err != nil || dec == nil {
		g.Fatalf("%s %s key %x: DecodePublicKey of its own public key encoding %x failed: %v", a.name, origin, scalarBytes(x), enc, err)
	}
	if !dec.Equals(pk) || !pk.Equals(dec) {
		g.Fatalf("%s %s key %x: DecodePublicKey(%x) is not Equal to the public key", a.name, origin, scalarBytes(x), enc)
	}
	if scalarBytes(x)[0] == 0 {
		g.Class("leadingZeroScalar")
	}
}

func c12LenBucket(n int) string {
	switch {
	case n < c12SeedMin:
		return "seedLen:0-31"
	case n == c12SeedMin:
		return "seedLen:32"
	case n <= 64:
		return "seedLen:33-64"
	case n < c12SeedMax:
		return "seedLen:65-255"
	case n == c12SeedMax:
		return "seedLen:256"
	default:
		return "seedLen:257-300"
	}
}

// c12Contents builds the seed contents of the given kind.
func c12Contents(kind int, content uint64, n int) []byte {
	switch kind {
	case 0:
		return make([]byte, n)
	case 1:
		return bytes.Repeat([]byte{0xff}, n)
	default:
		return gen.ExpandSeed(content, n)
	}
}

// TestC12_Seed: generated algorithm, seed length 0..300 and contents.
func TestC12_Seed(t *testing.T) {
	algos := c12Algos()
	gen.Run(t, "C12", func(g *gen.G) {
		a := algos[g.Pick("algo", len(algos))]
		var n int
		switch g.Int("lenKind", 0, 9) {
		case 0, 1, 2, 3:
			n = g.Int("len", 32, 64)
		case 4, 5, 6:
			n = g.Int("lenLong", 65, 256)
		case 7:
			n = []int{31, 32, 33, 255, 256, 257}[g.Pick("lenBoundary", 6)]
		case 8:
			n = g.Int("lenShort", 0, 31)
		default:
			n = g.Int("lenHuge", 257, 300)
		}
		var seed []byte
		switch kind := g.Int("contents", 0, 4); {
		case kind <= 1:
			seed = c12Contents(kind, 0, n)
			g.Class([]string{"contents:zero", "contents:ff"}[kind])
		case n <= 64 && kind == 2:
			seed = g.Bytes("seed", n, n) // byte-wise generated (shrinks byte-wise)
			g.Class("contents:generated")
		default:
			seed = g.Expand("seedContent", n)
			g.Class("contents:generated")
		}
		if n == 0 && g.Bool("nilSeed") {
			seed = nil
		}
		sk, x := c12CheckSeed(g, a, seed)
		g.Class("algo:" + a.name)
		g.Class(c12LenBucket(n))
		if sk == nil {
			g.Class("rejected")
			return
		}
		c12CheckPublic(g, a, sk, x, "generated")
		g.NonTrivial(fmt.Sprintf("%s/%x", a.name, seed))
	})
}

// TestC12_EveryLength: every seed length 0..300 × {all-zero, all-0xff,
// generated contents} × the three algorithms (private key, range, determinism,
// rejection); the public key is compared at the two boundary lengths.
func TestC12_EveryLength(t *testing.T) {
	algos := c12Algos()
	gen.Run(t, "C12", func(g *gen.G) {
		content := g.Uint64("content")
		var n, nt int64
		for _, a := range algos {
			for L := 0; L <= 300; L++ {
				for kind := 0; kind < 3; kind++ {
					seed := c12Contents(kind, content+uint64(L), L)
					sk, x := c12CheckSeed(g, a, seed)
					n++
					if sk == nil {
						if L >= c12SeedMin && L <= c12SeedMax {
							g.Fatalf("harness error: no key for an in-range length %d", L)
						}
						continue
					}
					nt++
					if kind == 2 && (L == c12SeedMin || L == c12SeedMax) {
						c12CheckPublic(g, a, sk, x, fmt.Sprintf("generated (%d-byte seed)", L))
					}
				}
			}
			gen.CountClass("everyLength:"+a.name, 3*301)
		}
		gen.Count(n, nt)
		g.Class("enumeration")
		g.NonTrivial()
	})
	gen.Exhaustive("C12: every seed length 0..300 × contents {all-zero, all-0xff, one generated} × {BLS12381, P256, secp256k1}: derivation, range, determinism, rejection outside 32..256")
}

// c12BLSScalar extends the shared BLS pool with powers of two.
func c12BLSScalar(g *gen.G, label string) (*big.Int, string) {
	if g.Chance(label+"IsPow2", 1, 8) {
		return new(big.Int).Lsh(one, uint(g.Int(label+"Pow2", 2, 254))), "pow2"
	}
	return drawScalar(g, label)
}

// TestC12_PublicKey: decoded (all algorithms) and aggregated (BLS) private keys
// with known scalars.
func TestC12_PublicKey(t *testing.T) {
	algos := c12Algos()
	gen.Run(t, "C12", func(g *gen.G) {
		a := algos[g.Pick("algo", len(algos))]
		var sk crypto.PrivateKey
		var x *big.Int
		var origin, how string
		switch {
		case a.cv != nil:
			x, how = wecDrawScalar(g, "d", a.cv)
			sk = wecDecodeSK(g, a.cv, x)
			origin = "decoded"
		case g.Chance("aggregated", 1, 3):
			cnt := g.Int("aggN", 2, 3)
			sum := new(big.Int)
			sks := make([]crypto.PrivateKey, 0, cnt+1)
			var parts []string
			for i := 0; i < cnt; i++ {
				xi, _ := c12BLSScalar(g, fmt.Sprintf("agg%d", i))
				sks = append(sks, decodeSK(g, xi))
				parts = append(parts, fmt.Sprintf("%x", scalarBytes(xi)))
				sum.Add(sum, xi)
			}
			sum.Mod(sum, blsR)
			if sum.Sign() == 0 { // keep the sum non-zero
				xi := big.NewInt(7)
				sks = append(sks, decodeSK(g, xi))
				parts = append(parts, fmt.Sprintf("%x", scalarBytes(xi)))
				sum.Set(xi)
			}
			warmKeys(g, "warm", sks) // a generated subset of the inputs already had PublicKey() called (lazy cache)
			var err error
			sk, err = crypto.AggregateBLSPrivateKeys(sks)
			if err != nil || sk == nil {
				g.Fatalf("AggregateBLSPrivateKeys of the scalars %v failed: %v", parts, err)
			}
			x, how = sum, "aggregated"
			origin = fmt.Sprintf("aggregated (from %v)", parts)
		default:
			x, how = c12BLSScalar(g, "x")
			sk = decodeSK(g, x)
			origin = "decoded"
		}
		if enc := sk.Encode(); !bytes.Equal(enc, scalarBytes(x)) {
			g.Fatalf("%s %s private key: Encode() = %x, the known scalar is %x", a.name, origin, enc, scalarBytes(x))
		}
		c12CheckPublic(g, a, sk, x, origin)
		g.Class("algo:" + a.name)
		g.Class("scalar:" + how)
		g.NonTrivial(fmt.Sprintf("%s/%s/%x", a.name, origin, scalarBytes(x)))
	})
}
