package props

import (
	"os"
	"strconv"
	"strings"
	"testing"

	"verifharness/gen"
)

func TestMain(m *testing.M) { gen.Main(m) }

// thorough reports whether the driver asked for the thorough tier.
func thorough() bool { return os.Getenv("VERIF_TIER") == "thorough" }

// envN is the case/size budget the driver passed for enumeration jobs.
func envN(def int) int {
	if v, err := strconv.Atoi(os.Getenv("VERIF_N")); err == nil && v > 0 {
		return v
	}
	return def
}

func shard() (int, int) {
	s, _ := strconv.Atoi(os.Getenv("VERIF_SHARD"))
	n, _ := strconv.Atoi(os.Getenv("VERIF_SHARDS"))
	if n <= 0 {
		n = 1
	}
	return s, n
}

// knownActive reports whether the known finding with that id is listed as
// "known" (not fixed) in known_findings.json; the driver passes the list.
func knownActive(id string) bool {
	for _, k := range strings.Split(os.Getenv("VERIF_KNOWN"), ",") {
		if k == id {
			return true
		}
	}
	return false
}
