package props

// C09 — no exported function panics or corrupts memory on untrusted input.

import (
	"bytes"
	"errors"
	"fmt"
	"math"
	"math/big"
	"testing"
	"verifharness/oracle/fr"

	"github.com/onflow/crypto"
	"github.com/onflow/crypto/hash"
	"github.com/onflow/crypto/random"

	"verifharness/gen"
	"verifharness/sim"
)

// hostileBytes draws a byte slice around the expected length `exact`.
func hostileBytes(g *gen.G, label string, exact int, valid []byte) []byte {
	switch g.Int(label+"Kind", 0, 9) {
	case 0:
		return nil
	case 1:
		return []byte{}
	case 2:
		if exact > 0 {
			return g.Expand(label+"Short", exact-1)
		}
		return []byte{}
	case 3:
		return g.Expand(label+"Exact", exact)
	case 4:
		return g.Expand(label+"Long", exact+1)
	case 5:
		return g.Expand(label+"Huge", 10000)
	case 6:
		if valid != nil {
			return append([]byte{}, valid...)
		}
		return g.Expand(label+"Exact2", exact)
	case 7:
		if valid != nil && len(valid) > 0 { // valid with one byte changed / dropped / added
			b := append([]byte{}, valid...)
			switch g.Int(label+"Mut", 0, 2) {
			case 0:
				b[g.Pick(label+"At", len(b))] ^= byte(1 << uint(g.Int(label+"Bit", 0, 7)))
			case 1:
				b = b[:len(b)-1]
			default:
				b = append(b, 0)
			}
			return b
		}
		return make([]byte, exact)
	case 8:
		b := make([]byte, exact)
		for i := range b {
			b[i] = 0xff
		}
		return b
	default:
		return g.Bytes(label+"Any", 0, 200)
	}
}

func hostileInt(g *gen.G, label string, boundary int) int {
	vals := []int{-1, 0, 1, 2, boundary - 1, boundary, boundary + 1, 254, 255, 256, 257, 1 << 16, math.MaxInt32, math.MinInt32, math.MaxInt64, math.MinInt64}
	if g.Chance(label+"Free", 1, 4) {
		return g.Int(label+"Val", -3, 300)
	}
	if g.Chance(label+"Edge", 1, 3) { // off-by-one faults live next to the documented bound
		return boundary - 1 + g.Pick(label+"EdgePick", 3)
	}
	return vals[g.Pick(label+"Pick", len(vals))]
}

func hostileAlgo(g *gen.G, label string) crypto.SigningAlgorithm {
	return crypto.SigningAlgorithm(g.Int(label, -2, 10))
}

func hostileHasher(g *gen.G, label string) hash.Hasher {
	switch g.Int(label, 0, 8) {
	case 0:
		return nil
	case 1:
		return hash.NewSHA2_256()
	case 2:
		return hash.NewSHA3_384()
	case 3:
		return hash.NewKeccak_256()
	case 4:
		h, _ := hash.NewKMAC_128([]byte("0123456789abcdef"), nil, g.Int(label+"Size", 0, 300))
		return h
	case 5:
		return crypto.NewExpandMsgXOFKMAC128(string(g.Bytes(label+"Tag", 0, 300)))
	case 6:
		return hash.NewSHA2_384()
	default:
		return crypto.NewExpandMsgXOFKMAC128("t")
	}
}

type c09Keys struct {
	bls  crypto.PrivateKey
	p256 crypto.PrivateKey
	k1   crypto.PrivateKey
	sigB crypto.Signature
	sigE crypto.Signature
}

func c09MakeKeys(g *gen.G) *c09Keys {
	k := &c09Keys{}
	seed := g.Bytes("keySeed", 32, 32)
	var err error
	if k.bls, err = crypto.GeneratePrivateKey(crypto.BLSBLS12381, seed); err != nil {
		g.Fatalf("keygen: %v", err)
	}
	k.p256, _ = crypto.GeneratePrivateKey(crypto.ECDSAP256, seed)
	k.k1, _ = crypto.GeneratePrivateKey(crypto.ECDSASecp256k1, seed)
	k.sigB, _ = k.bls.Sign([]byte("m"), crypto.NewExpandMsgXOFKMAC128("t"))
	k.sigE, _ = k.p256.Sign([]byte("m"), hash.NewSHA2_256())
	return k
}

func mustSign(sk crypto.PrivateKey, msg []byte, h hash.Hasher) crypto.Signature {
	s, _ := sk.Sign(msg, h)
	return s
}

func (k *c09Keys) anySK(g *gen.G, label string) crypto.PrivateKey {
	return []crypto.PrivateKey{k.bls, k.p256, k.k1}[g.Pick(label, 3)]
}

func (k *c09Keys) anyPK(g *gen.G, label string) crypto.PublicKey {
	switch g.Int(label, 0, 3) {
	case 0:
		return k.bls.PublicKey()
	case 1:
		return k.p256.PublicKey()
	case 2:
		return k.k1.PublicKey()
	default:
		return crypto.IdentityBLSPublicKey()
	}
}

func (k *c09Keys) hostileSig(g *gen.G, label string) crypto.Signature {
	if g.Bool(label + "E") {
		return hostileBytes(g, label, 64, k.sigE)
	}
	return hostileBytes(g, label, 48, k.sigB)
}

func hostileSigList(g *gen.G, k *c09Keys, label string, n int) []crypto.Signature {
	if g.Chance(label+"Nil", 1, 10) {
		return nil
	}
	out := make([]crypto.Signature, n)
	for i := range out {
		out[i] = k.hostileSig(g, fmt.Sprintf("%s%d", label, i))
	}
	return out
}

func pkList(g *gen.G, k *c09Keys, label string, n int) []crypto.PublicKey {
	if g.Chance(label+"Nil", 1, 10) {
		return nil
	}
	out := make([]crypto.PublicKey, n)
	for i := range out {
		out[i] = k.anyPK(g, fmt.Sprintf("%s%d", label, i))
	}
	return out
}

// nopProc is a DKG processor that drops everything.
type nopProc struct{}

func (nopProc) PrivateSend(int, []byte)     {}
func (nopProc) Broadcast([]byte)            {}
func (nopProc) Disqualify(int, string)      {}
func (nopProc) FlagMisbehavior(int, string) {}

// TestC09_Calls: generated hostile calls of the exported surface.
func TestC09_Calls(t *testing.T) {
	gen.Run(t, "C09", func(g *gen.G) {
		k := c09MakeKeys(g)
		calls := g.Int("calls", 1, 8)
		for c := 0; c < calls; c++ {
			op := g.Int("op", 0, 33)
			name := ""
			invalid := false
			switch op {
			case 0:
				name = "GeneratePrivateKey"
				a, s := hostileAlgo(g, "algo"), hostileBytes(g, "seed", 32, nil)
				g.Journal(fmt.Sprintf("%s(%d, %d bytes)", name, int(a), len(s)))
				sk, err := crypto.GeneratePrivateKey(a, s)
				if err != nil && sk != nil {
					g.Fatalf("GeneratePrivateKey returned a key and an error")
				}
				invalid = err != nil
			case 1:
				name = "DecodePrivateKey"
				a := hostileAlgo(g, "algo")
				b := hostileBytes(g, "sk", 32, k.bls.Encode())
				g.Journal(fmt.Sprintf("%s(%d, %x)", name, int(a), b))
				_, err := crypto.DecodePrivateKey(a, b)
				invalid = err != nil
			case 2:
				name = "DecodePublicKey"
				a := hostileAlgo(g, "algo")
				var valid []byte
				exact := 64
				if a == crypto.BLSBLS12381 {
					valid, exact = k.bls.PublicKey().Encode(), 96
				} else {
					valid = k.p256.PublicKey().Encode()
				}
				b := hostileBytes(g, "pk", exact, valid)
				g.Journal(fmt.Sprintf("%s(%d, %x)", name, int(a), b))
				_, err := crypto.DecodePublicKey(a, b)
				invalid = err != nil
			case 3:
				name = "DecodePublicKeyCompressed"
				a := hostileAlgo(g, "algo")
				b := hostileBytes(g, "pk", 33, k.k1.PublicKey().EncodeCompressed())
				g.Journal(fmt.Sprintf("%s(%d, %x)", name, int(a), b))
				_, err := crypto.DecodePublicKeyCompressed(a, b)
				invalid = err != nil
			case 4:
				name = "SignatureFormatCheck"
				a := hostileAlgo(g, "algo")
				s := k.hostileSig(g, "sig")
				g.Journal(fmt.Sprintf("%s(%d, %x)", name, int(a), []byte(s)))
				ok, err := crypto.SignatureFormatCheck(a, s)
				invalid = !ok || err != nil
			case 5:
				name = "Sign"
				sk := k.anySK(g, "sk")
				h := hostileHasher(g, "hasher")
				d := hostileBytes(g, "data", 10, nil)
				g.Journal(name)
				_, err := sk.Sign(d, h)
				invalid = err != nil
			case 6:
				name = "Verify"
				pk := k.anyPK(g, "pk")
				s := k.hostileSig(g, "sig")
				h := hostileHasher(g, "hasher")
				g.Journal(fmt.Sprintf("%s(%x)", name, []byte(s)))
				ok, err := pk.Verify(s, hostileBytes(g, "data", 10, []byte("m")), h)
				invalid = !ok || err != nil
			case 7:
				name = "BLSGeneratePOP/BLSVerifyPOP"
				g.Journal(name)
				_, _ = crypto.BLSGeneratePOP(k.anySK(g, "sk"))
				ok, err := crypto.BLSVerifyPOP(k.anyPK(g, "pk"), k.hostileSig(g, "sig"))
				invalid = !ok || err != nil
			case 8:
				name = "SPOCK"
				g.Journal(name)
				_, _ = crypto.SPOCKProve(k.anySK(g, "sk"), hostileBytes(g, "data", 10, nil), hostileHasher(g, "hasher"))
				_, _ = crypto.SPOCKVerifyAgainstData(k.anyPK(g, "pk"), k.hostileSig(g, "sig"), hostileBytes(g, "data2", 10, nil), hostileHasher(g, "hasher2"))
				ok, err := crypto.SPOCKVerify(k.anyPK(g, "pk1"), k.hostileSig(g, "p1"), k.anyPK(g, "pk2"), k.hostileSig(g, "p2"))
				invalid = !ok || err != nil
			case 9:
				name = "AggregateBLSSignatures"
				l := hostileSigList(g, k, "sigs", g.Int("n", 0, 5))
				g.Journal(fmt.Sprintf("%s(%x)", name, l))
				_, err := crypto.AggregateBLSSignatures(l)
				invalid = err != nil
			case 10:
				name = "AggregateBLSPrivateKeys"
				n := g.Int("n", 0, 4)
				l := make([]crypto.PrivateKey, n)
				for i := range l {
					l[i] = k.anySK(g, fmt.Sprintf("sk%d", i))
				}
				g.Journal(name)
				_, err := crypto.AggregateBLSPrivateKeys(l)
				invalid = err != nil
			case 11:
				name = "AggregateBLSPublicKeys/RemoveBLSPublicKeys"
				g.Journal(name)
				_, err := crypto.AggregateBLSPublicKeys(pkList(g, k, "pks", g.Int("n", 0, 4)))
				_, err2 := crypto.RemoveBLSPublicKeys(k.anyPK(g, "agg"), pkList(g, k, "rm", g.Int("m", 0, 4)))
				invalid = err != nil || err2 != nil
			case 12:
				name = "VerifyBLSSignatureOneMessage"
				g.Journal(name)
				ok, err := crypto.VerifyBLSSignatureOneMessage(pkList(g, k, "pks", g.Int("n", 0, 4)), k.hostileSig(g, "sig"), hostileBytes(g, "msg", 5, nil), hostileHasher(g, "hasher"))
				invalid = !ok || err != nil
			case 13:
				name = "VerifyBLSSignatureManyMessages"
				n := g.Int("n", 0, 4)
				msgs := make([][]byte, g.Int("nMsgs", 0, 4))
				for i := range msgs {
					msgs[i] = hostileBytes(g, fmt.Sprintf("msg%d", i), 5, nil)
				}
				hs := make([]hash.Hasher, g.Int("nHashers", 0, 4))
				for i := range hs {
					hs[i] = hostileHasher(g, fmt.Sprintf("h%d", i))
				}
				g.Journal(name)
				ok, err := crypto.VerifyBLSSignatureManyMessages(pkList(g, k, "pks", n), k.hostileSig(g, "sig"), msgs, hs)
				invalid = !ok || err != nil
				// the same call with well-formed elements and only the list lengths off by one
				np, nm, nh := g.Int("lenKeys", 0, 3), g.Int("lenMsgs", 0, 3), g.Int("lenHashers", 0, 3)
				pks2 := make([]crypto.PublicKey, np)
				for i := range pks2 {
					pks2[i] = k.bls.PublicKey()
				}
				msgs2 := make([][]byte, nm)
				for i := range msgs2 {
					msgs2[i] = []byte{byte(i)}
				}
				hs2 := make([]hash.Hasher, nh)
				for i := range hs2 {
					hs2[i] = crypto.NewExpandMsgXOFKMAC128("t")
				}
				g.Journal(fmt.Sprintf("%s(%d keys, %d messages, %d hashers)", name, np, nm, nh))
				ok2, err2 := crypto.VerifyBLSSignatureManyMessages(pks2, k.sigB, msgs2, hs2)
				if np > 0 && (np != nm || nh != nm) && (ok2 || !crypto.IsInvalidInputsError(err2)) {
					g.Fatalf("VerifyBLSSignatureManyMessages(%d keys, %d messages, %d hashers) = (%v, %v): expected the invalid-inputs error", np, nm, nh, ok2, err2)
				}
			case 14:
				name = "BatchVerifyBLSSignaturesOneMessage"
				g.Journal(name)
				res, err := crypto.BatchVerifyBLSSignaturesOneMessage(pkList(g, k, "pks", g.Int("n", 0, 5)), hostileSigList(g, k, "sigs", g.Int("m", 0, 5)), hostileBytes(g, "msg", 5, nil), hostileHasher(g, "hasher"))
				if err != nil {
					for _, r := range res {
						if r {
							g.Fatalf("BatchVerify returned true together with error %v", err)
						}
					}
				}
				invalid = err != nil
			case 15:
				name = "BLSThresholdKeyGen"
				n, th := hostileInt(g, "size", 254), hostileInt(g, "threshold", 3)
				s := hostileBytes(g, "seed", 32, nil)
				g.Journal(fmt.Sprintf("%s(%d, %d, %d bytes)", name, n, th, len(s)))
				_, _, _, err := crypto.BLSThresholdKeyGen(n, th, s)
				invalid = err != nil
			case 16:
				name = "BLSReconstructThresholdSignature"
				n, th := hostileInt(g, "size", 5), hostileInt(g, "threshold", 2)
				if g.Bool("sane") {
					n, th = g.Int("n", 2, 6), g.Int("t", 1, 3)
				}
				shares := hostileSigList(g, k, "shares", g.Int("nShares", 0, 5))
				signers := make([]int, g.Int("nSigners", 0, 5))
				for i := range signers {
					signers[i] = hostileInt(g, fmt.Sprintf("signer%d", i), n)
					if g.Bool("signerSane") {
						signers[i] = i
					}
				}
				g.Journal(fmt.Sprintf("%s(%d, %d, %x, %v)", name, n, th, shares, signers))
				_, err := crypto.BLSReconstructThresholdSignature(n, th, shares, signers)
				invalid = err != nil
			case 17:
				name = "EnoughShares"
				g.Journal(name)
				_, err := crypto.EnoughShares(hostileInt(g, "t", 1), hostileInt(g, "n", 3))
				invalid = err != nil
			case 18, 19:
				name = "ThresholdSignatureInspector"
				n := g.Int("n", 2, 5)
				th := g.Int("t", 1, n-1)
				sks, pks, gpk, err := crypto.BLSThresholdKeyGen(n, th, g.Bytes("tseed", 32, 32))
				if err != nil {
					g.Fatalf("BLSThresholdKeyGen: %v", err)
				}
				g.Journal(name + " constructors")
				_, _ = crypto.NewBLSThresholdSignatureInspector(k.anyPK(g, "gpk"), pkList(g, k, "pks", g.Int("nKeys", 0, 4)), hostileInt(g, "thr", 2), hostileBytes(g, "msg", 5, nil), string(g.Bytes("tag", 0, 20)))
				_, _ = crypto.NewBLSThresholdSignatureParticipant(gpk, pks, hostileInt(g, "thr2", th), hostileInt(g, "me", n), k.anySK(g, "sk"), []byte("m"), "t")
				ins, err := crypto.NewBLSThresholdSignatureParticipant(gpk, pks, th, 0, sks[0], []byte("m"), "t")
				if err != nil {
					g.Fatalf("NewBLSThresholdSignatureParticipant: %v", err)
				}
				for i, m := 0, g.Int("methods", 1, 8); i < m; i++ {
					idx := hostileInt(g, "idx", n)
					if g.Bool("idxSane") {
						idx = g.Pick("idxIn", n)
					}
					sh := k.hostileSig(g, "share")
					if g.Chance("goodShare", 1, 3) && idx >= 0 && idx < n {
						sh, _ = sks[idx].Sign([]byte("m"), crypto.NewExpandMsgXOFKMAC128("t"))
					}
					g.Journal(fmt.Sprintf("%s method %d (idx %d, share %x)", name, i, idx, []byte(sh)))
					switch g.Int("method", 0, 7) {
					case 0:
						_, _ = ins.TrustedAdd(idx, sh)
					case 1:
						_, _, _ = ins.VerifyAndAdd(idx, sh)
					case 2:
						_, _ = ins.HasShare(idx)
					case 3:
						_, _ = ins.VerifyShare(idx, sh)
					case 4:
						_, _ = ins.VerifyThresholdSignature(sh)
					case 5:
						sig, err := ins.ThresholdSignature()
						if err == nil {
							if ok, _ := gpk.Verify(sig, []byte("m"), crypto.NewExpandMsgXOFKMAC128("t")); !ok {
								g.Fatalf("ThresholdSignature() returned a signature that fails verification under the group key")
							}
						}
					case 6:
						_ = ins.EnoughShares()
					default:
						_, _ = ins.SignShare()
					}
				}
				invalid = true
			case 20:
				name = "DKG constructors"
				// a valid argument tuple in which a generated subset of the arguments is replaced by a hostile value, so that
				// single faults (one index out of range, everything else fine) are as frequent as all-hostile tuples
				n := []int{2, 3, 4, 5, 10, 100, 253, 254}[g.Pick("sizeOK", 8)]
				th, me, d := g.Int("thrOK", 1, n-1), g.Int("meOK", 0, n-1), g.Int("dealerOK", 0, n-1)
				mask := g.Int("hostileArgs", 0, 15)
				if mask&1 != 0 {
					n = hostileInt(g, "size", 254)
				}
				if mask&2 != 0 {
					th = hostileInt(g, "thr", n)
				}
				if mask&4 != 0 {
					me = hostileInt(g, "me", n)
				}
				if mask&8 != 0 {
					d = hostileInt(g, "dealer", n)
				}
				g.Journal(fmt.Sprintf("%s(%d,%d,%d,%d)", name, n, th, me, d))
				i1, e1 := crypto.NewFeldmanVSS(n, th, me, nopProc{}, d)
				i2, e2 := crypto.NewFeldmanVSSQual(n, th, me, nopProc{}, d)
				i3, e3 := crypto.NewJointFeldman(n, th, me, nopProc{})
				// documented: (nil, InvalidInputsError) iff size ∉ [DKGMinSize, DKGMaxSize], threshold ∉ [MinimumThreshold, size-1],
				// myIndex ∉ [0, size-1] or dealerIndex ∉ [0, size-1]
				badCommon := n < crypto.DKGMinSize || n > crypto.DKGMaxSize || th < crypto.MinimumThreshold || th > n-1 || me < 0 || me > n-1
				badDealer := badCommon || d < 0 || d > n-1
				chk := func(what string, inst crypto.DKGState, err error, bad bool) {
					if bad && (inst != nil || !crypto.IsInvalidInputsError(err)) {
						g.Fatalf("%s(size=%d, threshold=%d, myIndex=%d, dealer=%d) returned (%v, %v), an invalid-inputs error is documented", what, n, th, me, d, inst != nil, err)
					}
					if !bad && (inst == nil || err != nil) {
						g.Fatalf("%s(size=%d, threshold=%d, myIndex=%d, dealer=%d) with valid arguments returned (%v, %v)", what, n, th, me, d, inst != nil, err)
					}
					if !bad && inst.Running() {
						g.Fatalf("%s: a new instance reports Running()", what)
					}
				}
				chk("NewFeldmanVSS", i1, e1, badDealer)
				chk("NewFeldmanVSSQual", i2, e2, badDealer)
				chk("NewJointFeldman", i3, e3, badCommon)
				invalid = badDealer
			case 21:
				name = "String"
				a := hostileAlgo(g, "algo")
				ha := hash.HashingAlgorithm(g.Int("halgo", -2, 10))
				g.Journal(fmt.Sprintf("SigningAlgorithm(%d).String / HashingAlgorithm(%d).String", int(a), int(ha)))
				_ = a.String()
				_ = ha.String()
				_ = k.anySK(g, "sk").String()
				_ = k.anyPK(g, "pk").String()
				s := k.hostileSig(g, "sig")
				_ = s.String()
				_ = s.Bytes()
				_ = hash.Hash(s).Hex()
				_ = hash.Hash(s).Equal(nil)
				invalid = int(a) < 0 || int(a) > 3 || int(ha) < 0 || int(ha) > 6
			case 22:
				name = "NewKMAC_128"
				size := []int{-1, 0, 1, 128, 1 << 10, 1 << 20, math.MinInt64, -1 << 31}[g.Pick("size", 8)]
				key := hostileBytes(g, "key", 16, nil)
				g.Journal(fmt.Sprintf("%s(%d-byte key, size %d)", name, len(key), size))
				h, err := hash.NewKMAC_128(key, hostileBytes(g, "cust", 4, nil), size)
				if err == nil {
					_, _ = h.Write(hostileBytes(g, "w", 168, nil))
					_ = h.SumHash()
					_ = h.ComputeHash(hostileBytes(g, "c", 168, nil))
					h.Reset()
					_ = h.Size()
					_ = h.Algorithm()
				}
				invalid = err != nil
			case 23:
				name = "hashers"
				hs := []hash.Hasher{hash.NewSHA2_256(), hash.NewSHA2_384(), hash.NewSHA3_256(), hash.NewSHA3_384(), hash.NewKeccak_256()}
				h := hs[g.Pick("h", len(hs))]
				g.Journal(name)
				for i, m := 0, g.Int("m", 1, 6); i < m; i++ {
					switch g.Int("hm", 0, 3) {
					case 0:
						_, _ = h.Write(hostileBytes(g, "w", 136, nil))
					case 1:
						_ = h.SumHash()
					case 2:
						h.Reset()
					default:
						_ = h.ComputeHash(hostileBytes(g, "c", 136, nil))
					}
				}
				var out [32]byte
				hash.ComputeSHA2_256(&out, hostileBytes(g, "d", 64, nil))
				hash.ComputeSHA3_256(&out, hostileBytes(g, "d3", 136, nil))
			case 24:
				name = "NewChacha20PRG"
				s, c := hostileBytes(g, "seed", 32, nil), hostileBytes(g, "cust", 12, nil)
				g.Journal(fmt.Sprintf("%s(%d, %d)", name, len(s), len(c)))
				r, err := random.NewChacha20PRG(s, c)
				if err == nil {
					c09Rand(g, r)
				}
				invalid = err != nil
			case 25:
				name = "RestoreChacha20PRG"
				st := hostileBytes(g, "state", 52, nil)
				if len(st) == 52 {
					st[51], st[50], st[49] = 0, 0, 0 // keep the position inside the documented 256 GiB (2^38-byte) stream
					st[48] &= 0x1F
				}
				g.Journal(fmt.Sprintf("%s(%x)", name, st))
				r, err := random.RestoreChacha20PRG(st)
				if err == nil {
					c09Rand(g, r)
				}
				invalid = err != nil
			case 26:
				name = "error predicates"
				g.Journal(name)
				for _, e := range []error{nil, errors.New("foreign"), fmt.Errorf("wrapped: %w", errors.New("x"))} {
					if crypto.IsInvalidInputsError(e) || crypto.IsNilHasherError(e) || crypto.IsInvalidHasherSizeError(e) || crypto.IsNotBLSKeyError(e) || crypto.IsInvalidSignatureError(e) ||
						crypto.IsBLSAggregateEmptyListError(e) || crypto.IsDuplicatedSignerError(e) || crypto.IsNotEnoughSharesError(e) || crypto.IsDKGFailureError(e) || crypto.IsDKGInvalidStateTransitionError(e) {
						g.Fatalf("an error predicate is true for %v", e)
					}
				}
			case 27:
				name = "IsBLSSignatureIdentity"
				g.Journal(name)
				_ = crypto.IsBLSSignatureIdentity(k.hostileSig(g, "sig"))
				_ = crypto.BLSInvalidSignature()
				_ = crypto.NewExpandMsgXOFKMAC128(string(g.Bytes("tag", 0, 400)))
				_ = random.EncodePermutation
			case 28:
				name = "key methods"
				sk, pk := k.anySK(g, "sk"), k.anyPK(g, "pk")
				g.Journal(name)
				_ = sk.Equals(k.anySK(g, "sk2"))
				_ = pk.Equals(k.anyPK(g, "pk2"))
				_, _, _, _ = sk.Size(), pk.Size(), sk.Algorithm(), pk.Algorithm()
				_ = pk.Encode()
				_ = pk.EncodeCompressed()
				_ = sk.Encode()
				_ = sk.PublicKey()
			case 29:
				// at least t+1 valid shares followed by any number of further (valid or hostile) shares: the documentation
				// accepts more than t+1 pairs; the C layer is handed a flattened buffer and a count, which must agree
				name = "BLSReconstructThresholdSignature(spare shares)"
				n := g.Int("n", 2, 8)
				th := g.Int("t", 1, n-1)
				sks, _, gpk, err := crypto.BLSThresholdKeyGen(n, th, g.Bytes("tseed", 32, 32))
				if err != nil {
					g.Fatalf("BLSThresholdKeyGen: %v", err)
				}
				order := g.Perm("signerOrder", n)
				cnt := g.Int("shares", th+1, n)
				hh := crypto.NewExpandMsgXOFKMAC128("t")
				shares := make([]crypto.Signature, cnt)
				signers := make([]int, cnt)
				spareHostile := false
				for i := 0; i < cnt; i++ {
					signers[i] = order[i]
					shares[i], _ = sks[order[i]].Sign([]byte("m"), hh)
					if i > th && g.Chance("spareHostile", 1, 3) {
						shares[i] = k.hostileSig(g, "spare")
						spareHostile = true
					}
				}
				g.Journal(fmt.Sprintf("%s(%d, %d, %d shares, signers %v)", name, n, th, cnt, signers))
				sig, err := crypto.BLSReconstructThresholdSignature(n, th, shares, signers)
				if err == nil {
					if ok, verr := gpk.Verify(sig, []byte("m"), hh); !ok || verr != nil {
						g.Fatalf("BLSReconstructThresholdSignature(n=%d, t=%d, %d shares of which the first t+1 are valid) returned a signature that does not verify under the group key", n, th, cnt)
					}
				} else if !spareHostile {
					g.Fatalf("BLSReconstructThresholdSignature(n=%d, t=%d) with %d valid shares of distinct signers %v failed: %v", n, th, cnt, signers, err)
				} else if !crypto.IsInvalidSignatureError(err) && !crypto.IsInvalidInputsError(err) {
					g.Fatalf("BLSReconstructThresholdSignature with a hostile spare share returned an undocumented error class: %v", err)
				}
				invalid = spareHostile
			case 30:
				// well-formed calls of the list-taking functions: what the C layer is handed are flattened buffers and counts
				// built by the Go wrappers (exact-size allocations); under the address sanitizer a count or an offset that is one
				// too large reads past an allocation.  The verdicts are known by construction.
				name = "well-formed list calls"
				n := g.Int("n", 1, 9)
				hh := crypto.NewExpandMsgXOFKMAC128("t")
				msg := g.Bytes("msg", 0, 40)
				sks := make([]crypto.PrivateKey, n)
				pks := make([]crypto.PublicKey, n)
				sigs := make([]crypto.Signature, n)
				msgs := make([][]byte, n)
				hs := make([]hash.Hasher, n)
				sigsMany := make([]crypto.Signature, n)
				for i := range sks {
					sks[i], _ = crypto.GeneratePrivateKey(crypto.BLSBLS12381, g.Expand(fmt.Sprintf("seed%d", i), 32))
					pks[i] = sks[i].PublicKey()
					sigs[i], _ = sks[i].Sign(msg, hh)
					msgs[i] = append(append([]byte{}, msg...), byte(i%3)) // some messages repeat
					hs[i] = hh
					sigsMany[i], _ = sks[i].Sign(msgs[i], hh)
				}
				bad := g.Pick("badIndex", n+1) // n = none
				if bad < n {
					sigs[bad] = append([]byte{}, sigs[(bad+1)%n]...)
					if n == 1 {
						sigs[bad] = crypto.BLSInvalidSignature()
					}
				}
				g.Journal(fmt.Sprintf("%s (n=%d, bad=%d)", name, n, bad))
				res, err := crypto.BatchVerifyBLSSignaturesOneMessage(pks, sigs, msg, hh)
				if err != nil || len(res) != n {
					g.Fatalf("BatchVerifyBLSSignaturesOneMessage on %d well-formed entries returned (%v, %v)", n, res, err)
				}
				for i, r := range res {
					want := i != bad || (n > 1 && bytes.Equal(sigs[bad], mustSign(sks[i], msg, hh)))
					if r != want {
						g.Fatalf("BatchVerifyBLSSignaturesOneMessage: index %d of %d = %v, expected %v", i, n, r, want)
					}
				}
				aggMany, err := crypto.AggregateBLSSignatures(sigsMany)
				if err != nil {
					g.Fatalf("AggregateBLSSignatures of %d valid signatures failed: %v", n, err)
				}
				if ok, err := crypto.VerifyBLSSignatureManyMessages(pks, aggMany, msgs, hs); !ok || err != nil {
					g.Fatalf("VerifyBLSSignatureManyMessages on the aggregate of %d valid signatures = (%v, %v)", n, ok, err)
				}
				// any signature string against well-formed lists: a verdict, never an error (whichever grouping the lists select)
				hs1 := k.hostileSig(g, "sigForLists")
				if ok, err := crypto.VerifyBLSSignatureManyMessages(pks, hs1, msgs, hs); err != nil || (ok && !bytes.Equal(hs1, aggMany)) {
					g.Fatalf("VerifyBLSSignatureManyMessages(%d well-formed triples, signature %x) = (%v, %v): a false verdict without an error is documented", n, []byte(hs1), ok, err)
				}
				if ok, err := crypto.VerifyBLSSignatureOneMessage(pks, hs1, msg, hh); err != nil || ok {
					g.Fatalf("VerifyBLSSignatureOneMessage(%d well-formed keys, signature %x) = (%v, %v): a false verdict without an error is documented", n, []byte(hs1), ok, err)
				}
				if bad == n {
					aggOne, _ := crypto.AggregateBLSSignatures(sigs)
					if ok, err := crypto.VerifyBLSSignatureOneMessage(pks, aggOne, msg, hh); !ok || err != nil {
						g.Fatalf("VerifyBLSSignatureOneMessage on the aggregate of %d valid signatures = (%v, %v)", n, ok, err)
					}
				}
				aggPk, err := crypto.AggregateBLSPublicKeys(pks)
				if err != nil {
					g.Fatalf("AggregateBLSPublicKeys: %v", err)
				}
				if rem, err := crypto.RemoveBLSPublicKeys(aggPk, pks[1:]); err != nil || !rem.Equals(pks[0]) {
					g.Fatalf("RemoveBLSPublicKeys(aggregate of %d keys, all but the first) = %v, not the first key", n, err)
				}
				if _, err := crypto.AggregateBLSPrivateKeys(sks); err != nil {
					g.Fatalf("AggregateBLSPrivateKeys: %v", err)
				}
			default:
				name = "DKG messages"
				c09DKG(g)
				invalid = true
			}
			g.Class("op:" + name)
			if invalid {
				g.NonTrivial()
			}
		}
	})
}

func c09Rand(g *gen.G, r random.Rand) {
	for i, m := 0, g.Int("randCalls", 1, 5); i < m; i++ {
		n := []int{-1, 0, 1, 2, 255, 256, 1000, math.MinInt64, -1 << 31}[g.Pick("rn", 9)]
		mm := []int{-1, 0, 1, 2, 300, 1001, math.MinInt64}[g.Pick("rm", 7)]
		swap := func(i, j int) {}
		g.Journal(fmt.Sprintf("Rand method (n=%d, m=%d)", n, mm))
		switch g.Int("rmethod", 0, 6) {
		case 0:
			r.Read(hostileBytes(g, "buf", 64, nil))
		case 1:
			_ = r.UintN(uint64(1 + g.Uint64("un")%math.MaxUint64)) // UintN(0) is a documented panic
		case 2:
			_, _ = r.Permutation(n)
		case 3:
			_, _ = r.SubPermutation(n, mm)
		case 4:
			_ = r.Shuffle(n, swap)
		case 5:
			_ = r.Samples(n, mm, swap)
		default:
			_ = r.Store()
		}
	}
}

// c09DKG feeds arbitrary (origin, tag, payload) messages at arbitrary points of the run.
func c09DKG(g *gen.G) {
	proto := sim.Protocol(g.Int("protocol", 0, 2))
	n := g.Int("n", 2, 5)
	th := g.Int("t", 1, n-1)
	me := g.Pick("me", n)
	dealer := g.Pick("dealer", n)
	p := &c10Proc{}
	var inst crypto.DKGState
	switch proto {
	case sim.FeldmanVSS:
		inst, _ = crypto.NewFeldmanVSS(n, th, me, p, dealer)
	case sim.FeldmanVSSQual:
		inst, _ = crypto.NewFeldmanVSSQual(n, th, me, p, dealer)
	default:
		inst, _ = crypto.NewJointFeldman(n, th, me, p)
	}
	// real payloads of another dealer with the same parameters
	src := c10New(g, proto, n, th, dealer, dealer)
	if proto == sim.JointFeldman {
		src = c10New(g, proto, n, th, (me+1)%n, dealer)
	}
	_ = src.inst.Start(gen.ExpandSeed(9, 32))
	var real [][]byte
	for _, l := range src.proc.log {
		var d int
		var hx string
		if _, err := fmt.Sscanf(l, "send %d %s", &d, &hx); err == nil {
			real = append(real, unhex(hx))
		} else if _, err := fmt.Sscanf(l, "bcast %s", &hx); err == nil {
			real = append(real, unhex(hx))
		}
	}
	// Scripted mode: the handlers' branches depend on the order in which well-formed messages of one dealer arrive
	// (a complaint and its answer ahead of the verification vector, an answer with an invalid scalar after the
	// complaint, the vector after the timeout, ...).  Independent random messages reach such orders rarely, so in
	// half of the cases the instance is started first and most steps are drawn from the small alphabet of
	// well-formed messages around one dealer and one complainer, in generated order.
	srcIdx := dealer
	if proto == sim.JointFeldman {
		srcIdx = (me + 1) % n
	}
	var realVector, realShare []byte
	for _, l := range src.proc.log {
		var d int
		var hx string
		if _, err := fmt.Sscanf(l, "send %d %s", &d, &hx); err == nil && d == me {
			realShare = unhex(hx)
		} else if _, err := fmt.Sscanf(l, "bcast %s", &hx); err == nil {
			if b := unhex(hx); len(b) > 0 && b[0] == sim.TagVector {
				realVector = b
			}
		}
	}
	scripted := g.Chance("scripted", 1, 2)
	scriptK := 0
	if scripted {
		scriptK = g.Pick("scriptComplainer", n)
		g.Journal(fmt.Sprintf("DKG %v scripted: Start, dealer %d, complainer %d", proto, srcIdx, scriptK))
		_ = inst.Start(gen.ExpandSeed(7, 32))
		g.Class("DKG messages:scripted order of well-formed messages")
	}
	for i, m := 0, g.Int("dkgCalls", 1, 14); i < m; i++ {
		if scripted && g.Chance("scriptStep", 4, 5) {
			orig, private := srcIdx, false
			var data []byte
			step := g.Int("step", 0, 5)
			switch step {
			case 0:
				orig, data = scriptK, []byte{sim.TagComplaint, byte(srcIdx)}
			case 1, 5:
				who := scriptK
				if step == 5 {
					who = me
				}
				var val []byte
				switch g.Int("answerValue", 0, 4) {
				case 0:
					val = scalarBytes(big.NewInt(int64(1 + g.Int("answerVal", 0, 1000))))
				case 1:
					val = make([]byte, 32)
				case 2:
					val = bytes.Repeat([]byte{0xff}, 32)
				case 3:
					val = scalarBytes(fr.R)
				default:
					val = scalarBytes(new(big.Int).Sub(fr.R, big.NewInt(1)))
				}
				data = append([]byte{sim.TagAnswer, byte(who)}, val...)
			case 2:
				data = realVector
			case 3:
				data, private = realShare, true
			default:
				g.Journal(fmt.Sprintf("DKG %v scripted NextTimeout", proto))
				_ = inst.NextTimeout()
				continue
			}
			if data == nil {
				continue
			}
			g.Journal(fmt.Sprintf("DKG %v scripted step %d orig %d data %x", proto, step, orig, data))
			running := inst.Running()
			var err error
			if private {
				err = inst.HandlePrivateMsg(orig, data)
			} else {
				err = inst.HandleBroadcastMsg(orig, data)
			}
			switch {
			case !running && !crypto.IsDKGInvalidStateTransitionError(err):
				g.Fatalf("%v scripted step %d on an instance that is not running returned %v, a state-transition error is documented", proto, step, err)
			case running && err != nil:
				g.Fatalf("%v scripted step %d (origin %d, %x) on a running instance returned %v", proto, step, orig, data, err)
			}
			continue
		}
		orig := hostileInt(g, "orig", n)
		switch g.Int("origKind", 0, 5) {
		case 0, 1:
			orig = g.Pick("origIn", n)
		case 2, 3:
			orig = dealer // most parser branches are only reached by messages of the instance's dealer
			if proto == sim.JointFeldman {
				orig = (me + 1) % n
			}
		case 4:
			orig = []int{n, -1, n + 256, 256}[g.Pick("origEdge", 4)] // the values next to the range, and their byte-truncated twins
		}
		var data []byte
		switch g.Int("payloadKind", 0, 9) {
		case 8, 9: // a bare tag byte, or a tag and one more byte: the shortest payloads every parser branch has to survive
			data = []byte{byte(g.Int("bareTag", 0, 4))}
			if g.Bool("oneMore") {
				data = append(data, byte(g.Int("second", 0, 255)))
			}
		case 6: // a well-formed complaint answer (valid scalar) naming a participant in range
			data = append([]byte{sim.TagAnswer, byte(g.Pick("answerFor", n))}, scalarBytes(big.NewInt(int64(1+g.Int("answerVal", 0, 1000))))...)
		case 7: // a well-formed complaint against a participant in range
			data = []byte{sim.TagComplaint, byte(g.Pick("complaintAgainst", n))}
		case 0:
			data = real[g.Pick("real", len(real))]
		case 1: // a real payload, mutated
			data = append([]byte{}, real[g.Pick("real", len(real))]...)
			switch g.Int("mut", 0, 3) {
			case 0:
				data[g.Pick("at", len(data))] ^= byte(1 << uint(g.Int("bit", 0, 7)))
			case 1:
				data = data[:g.Int("cut", 0, len(data))]
			case 2:
				data = append(data, g.Bytes("extra", 1, 100)...)
			default:
				data[0] = byte(g.Int("tag", 0, 255))
			}
		case 2:
			data = append([]byte{byte(g.Int("tag", 0, 5))}, g.Bytes("body", 0, 120)...)
		case 3:
			data = []byte{sim.TagAnswer, byte(g.Int("complainer", 0, 255))}
			data = append(data, g.Bytes("ans", 0, 40)...)
		case 4:
			data = []byte{sim.TagComplaint, byte(g.Int("complainee", 0, 255))}
		default:
			data = hostileBytes(g, "junk", 33, nil)
		}
		act := g.Int("dkgAction", 0, 9)
		g.Journal(fmt.Sprintf("DKG %v action %d orig %d data %x", proto, act, orig, data))
		switch act {
		case 0:
			_ = inst.Start(hostileBytes(g, "seed", 32, nil))
		case 1:
			_ = inst.NextTimeout()
		case 2:
			_, _, _, _ = inst.End()
		case 3, 4, 5, 6, 7, 8:
			running := inst.Running()
			var err error
			what := ""
			switch {
			case act <= 5:
				err, what = inst.HandleBroadcastMsg(orig, data), "HandleBroadcastMsg"
			case act <= 7:
				err, what = inst.HandlePrivateMsg(orig, data), "HandlePrivateMsg"
			default:
				err, what = inst.ForceDisqualify(orig), "ForceDisqualify"
			}
			// invalid input is reported through the documented typed errors
			switch {
			case !running && !crypto.IsDKGInvalidStateTransitionError(err):
				g.Fatalf("%v %s(%d, …) on an instance that is not running returned %v, a state-transition error is documented", proto, what, orig, err)
			case running && (orig < 0 || orig >= n) && !crypto.IsInvalidInputsError(err):
				g.Fatalf("%v %s(%d, …) with an origin outside [0, %d) on a running instance returned %v, an invalid-inputs error is documented", proto, what, orig, n, err)
			case running && orig >= 0 && orig < n && err != nil:
				g.Fatalf("%v %s(%d, %x) on a running instance returned %v", proto, what, orig, data, err)
			}
		default:
			_ = inst.Running()
			_ = inst.Size()
			_ = inst.Threshold()
		}
	}
}

// TestC09_DKGNetwork: whole networks with any number of Byzantine participants (no agreement is
// expected beyond the assumptions of C07/C08): the only oracle is that no handler panics or kills the worker.
func TestC09_DKGNetwork(t *testing.T) {
	gen.Run(t, "C09", func(g *gen.G) {
		proto := sim.Protocol(g.Int("protocol", 0, 2))
		n := g.Int("n", 2, 5)
		th := g.Int("t", 1, n-1)
		nbyz := g.Int("byzantine", 0, n-1) // beyond t: outside the DKG properties' assumptions, inside C09's
		byz := g.Perm("byzSet", n)[:nbyz]
		dealer := g.Pick("dealer", n)
		if nbyz > 0 && proto != sim.JointFeldman && g.Chance("byzDealer", 2, 3) {
			dealer = byz[0]
		}
		g.Journal(fmt.Sprintf("DKG network %v n=%d t=%d dealer=%d byzantine=%v", proto, n, th, dealer, byz))
		s := sim.New(g, proto, n, th, dealer, byz, mustSwapped(g))
		s.Run()
		for c := range s.Classes {
			g.Class(c)
		}
		if nbyz > 0 {
			g.NonTrivial()
		}
	})
}
