package props

// C03 — batch verification agrees index-by-index with individual verification.

import (
	"bytes"
	"fmt"
	"math/big"
	"testing"

	"github.com/onflow/crypto"
	"github.com/onflow/crypto/hash"

	"verifharness/gen"
	"verifharness/oracle/bls381"
)

type c03Batch struct {
	pks    []crypto.PublicKey
	sigs   []crypto.Signature
	exact  [][]byte // the unique valid signature per position (nil under an identity key)
	kinds  []string
	points []bls381.G1
}

// c03Build builds n (key, signature) positions on one message; positions in
// invalid (a set) receive a generated kind of invalidity, correlated ones included.
func c03Build(g *gen.G, n int, invalid []bool, msg []byte, h hash.Hasher, H bls381.G1, label string) *c03Batch {
	b := &c03Batch{pks: make([]crypto.PublicKey, n), sigs: make([]crypto.Signature, n), exact: make([][]byte, n), kinds: make([]string, n), points: make([]bls381.G1, n)}
	xs := make([]*big.Int, n)
	for i := 0; i < n; i++ {
		if i > 0 && g.Chance(label+"dupKey", 1, 10) {
			xs[i] = xs[g.Pick(label+"dupOf", i)]
		} else {
			xs[i], _ = drawScalar(g, fmt.Sprintf("%ssk%d", label, i))
		}
		b.pks[i] = decodeSK(g, xs[i]).PublicKey()
		if g.Chance(label+"pkOtherRoute", 1, 5) { // the same point obtained through another constructor (decoded, aggregate, removal)
			b.pks[i] = pkVariant(g, fmt.Sprintf("%spkVia%d", label, i), blsKey{pk: b.pks[i], x: xs[i]})
		}
		b.points[i] = H.Mul(xs[i])
		b.exact[i] = bls381.G1Compress(b.points[i])
		b.sigs[i] = append([]byte{}, b.exact[i]...)
		b.kinds[i] = "valid"
	}
	var inv []int
	for i, v := range invalid {
		if v {
			inv = append(inv, i)
		}
	}
	for idx := 0; idx < len(inv); {
		i := inv[idx]
		rest := len(inv) - idx
		kind := g.Int(label+"kind", 0, 10)
		switch {
		case kind == 0 && rest >= 2: // s_i + d with s_j − d: the two invalid signatures sum to a valid aggregate
			j := inv[idx+1]
			d := bls381.G1Generator().Mul(big.NewInt(int64(g.Int(label+"delta", 1, 1<<20))))
			b.sigs[i] = bls381.G1Compress(b.points[i].Add(d))
			b.sigs[j] = bls381.G1Compress(b.points[j].Add(d.Neg()))
			b.kinds[i], b.kinds[j] = "cancelPair", "cancelPair"
			idx += 2
			continue
		case kind == 1 && rest >= 3: // three-way cancellation
			j, l := inv[idx+1], inv[idx+2]
			d1 := bls381.G1Generator().Mul(big.NewInt(int64(g.Int(label+"delta1", 1, 1<<20))))
			d2 := H.Mul(big.NewInt(int64(g.Int(label+"delta2", 1, 1<<20))))
			b.sigs[i] = bls381.G1Compress(b.points[i].Add(d1))
			b.sigs[j] = bls381.G1Compress(b.points[j].Add(d2))
			b.sigs[l] = bls381.G1Compress(b.points[l].Add(d1.Add(d2).Neg()))
			b.kinds[i], b.kinds[j], b.kinds[l] = "cancelTriple", "cancelTriple", "cancelTriple"
			idx += 3
			continue
		case kind == 2 && rest >= 2: // swapped signatures
			j := inv[idx+1]
			b.sigs[i], b.sigs[j] = b.sigs[j], b.sigs[i]
			b.kinds[i], b.kinds[j] = "swapped", "swapped"
			idx += 2
			continue
		case kind == 3:
			pos := g.Int(label+"flip", 0, 383)
			b.sigs[i][pos/8] ^= 0x80 >> uint(pos%8)
			b.kinds[i] = "bitflip"
		case kind == 4:
			t3, _ := bls381.G1SmallOrderPoint([]int64{3, 11}[g.Pick(label+"ord", 2)], g.Bytes(label+"tseed", 1, 2))
			b.sigs[i] = bls381.G1Compress(b.points[i].Add(t3))
			b.kinds[i] = "nonG1"
		case kind == 5:
			b.sigs[i] = bls381.G1Compress(bls381.G1Infinity())
			b.kinds[i] = "identitySig"
		case kind == 6:
			L := []int{0, 1, 47, 49, 96}[g.Pick(label+"len", 5)]
			s := make([]byte, L)
			copy(s, b.exact[i])
			b.sigs[i] = s
			b.kinds[i] = "shortSig"
		case kind == 7:
			b.pks[i] = identityKeys(g, blsKey{x: xs[i], pk: b.pks[i]})[g.Pick(label+"idk", numIdentityKinds)]
			b.exact[i] = nil
			b.kinds[i] = "identityKey"
			if g.Bool(label + "idkSig") {
				b.sigs[i] = bls381.G1Compress(bls381.G1Infinity())
			}
		case kind == 8: // signature on another message
			h2 := hashToG1(g, append(append([]byte{}, msg...), 1), h)
			b.sigs[i] = bls381.G1Compress(h2.Mul(xs[i]))
			b.kinds[i] = "otherMessage"
		case kind == 9:
			b.sigs[i] = bls381.G1Compress(b.points[i].Neg())
			b.kinds[i] = "negated"
		default:
			b.sigs[i] = crypto.BLSInvalidSignature()
			b.kinds[i] = "malformed"
		}
		idx++
	}
	return b
}

func (b *c03Batch) expected(i int) bool {
	return b.exact[i] != nil && bytes.Equal(b.sigs[i], b.exact[i])
}

func c03Check(g *gen.G, b *c03Batch, msg []byte, h hash.Hasher, individually bool) (valid, invalid int) {
	in := make([]crypto.Signature, len(b.sigs))
	for i := range in {
		in[i] = append([]byte{}, b.sigs[i]...)
	}
	res, err := crypto.BatchVerifyBLSSignaturesOneMessage(b.pks, in, msg, h)
	if err != nil {
		g.Fatalf("BatchVerifyBLSSignaturesOneMessage returned error %v on %v", err, b.kinds)
	}
	if len(res) != len(b.sigs) {
		g.Fatalf("BatchVerifyBLSSignaturesOneMessage returned %d booleans for %d signatures", len(res), len(b.sigs))
	}
	for i := range res {
		if !bytes.Equal(in[i], b.sigs[i]) {
			g.Fatalf("batch verification modified signature %d", i)
		}
		want := b.expected(i)
		if individually {
			ok, err := b.pks[i].Verify(b.sigs[i], msg, h)
			if err != nil || ok != want {
				g.Fatalf("Verify at index %d (%s) = (%v, %v), by construction %v", i, b.kinds[i], ok, err, want)
			}
		}
		if res[i] != want {
			g.Fatalf("batch verification index %d of %d (%s) = %v, individual verification gives %v; kinds %v; signature %x", i, len(res), b.kinds[i], res[i], want, b.kinds, []byte(b.sigs[i]))
		}
		if want {
			valid++
		} else {
			invalid++
		}
	}
	return
}

func TestC03_Generated(t *testing.T) {
	gen.Run(t, "C03", func(g *gen.G) {
		maxN := 16
		if thorough() {
			maxN = 48
		}
		n := g.Int("n", 1, maxN)
		msg := drawMsg(g, "msg")
		h, _ := drawHasher(g, "hasher")
		H := hashToG1(g, msg, h)
		invalid := make([]bool, n)
		density := g.Int("density", 0, 4)
		for i := range invalid {
			invalid[i] = g.Int("inv", 0, 4) < density
		}
		b := c03Build(g, n, invalid, msg, h, H, "")
		v, iv := c03Check(g, b, msg, h, true)
		for _, k := range b.kinds {
			g.Class(k)
		}
		if v > 0 && iv > 0 {
			g.NonTrivial()
		}
	})
}

// TestC03_StructuralPlusCancelling: a template that combines, on purpose, the two classes of special entries that
// random kind assignment rarely puts together: entries the Go layer pre-marks and substitutes (wrong-length
// signatures, identity keys) or the C layer rejects while parsing (malformed, outside G1), and one group of
// well-formed invalid signatures whose sum is valid (pair, triple, swapped pair).  Positions are a generated
// permutation, so the cancelling group may sit anywhere relative to the substituted entries, in particular at the
// end: any per-entry bookkeeping (offsets, random coefficients, seeds) that goes out of step when entries are
// substituted or skipped shows as the cancelling group being accepted.
func TestC03_StructuralPlusCancelling(t *testing.T) {
	gen.Run(t, "C03", func(g *gen.G) {
		msg := g.Bytes("msg", 0, 40)
		h, _ := drawHasher(g, "hasher")
		H := hashToG1(g, msg, h)
		nStruct := g.Int("structural", 0, 4)
		group := g.Int("group", 0, 2) // 0 pair, 1 triple, 2 swapped pair
		gsize := []int{2, 3, 2}[group]
		nValid := g.Int("valid", 0, 4)
		n := nStruct + gsize + nValid
		perm := g.Perm("positions", n)
		if g.Chance("groupLast", 1, 3) { // the cancelling group at the highest indices, structural entries first
			for i := range perm {
				perm[i] = i
			}
		}
		invalid := make([]bool, n)
		b := c03Build(g, n, invalid, msg, h, H, "base") // all valid
		pos := perm[:nStruct]
		grp := append([]int{}, perm[nStruct:nStruct+gsize]...)
		for _, i := range pos {
			switch g.Int("structKind", 0, 5) {
			case 0:
				L := []int{0, 1, 47, 49, 96}[g.Pick("len", 5)]
				sg := make([]byte, L)
				copy(sg, b.exact[i])
				b.sigs[i], b.kinds[i] = sg, "shortSig"
			case 1:
				b.pks[i] = identityKeys(g, blsKey{x: big.NewInt(3), pk: b.pks[i]})[g.Pick("idk", numIdentityKinds)]
				b.exact[i], b.kinds[i] = nil, "identityKey"
				if g.Bool("idkSig") {
					b.sigs[i] = bls381.G1Compress(bls381.G1Infinity())
				}
			case 2:
				b.sigs[i], b.kinds[i] = crypto.BLSInvalidSignature(), "malformed"
			case 3:
				t3, _ := bls381.G1SmallOrderPoint(3, g.Bytes("tseed", 1, 2))
				b.sigs[i], b.kinds[i] = bls381.G1Compress(b.points[i].Add(t3)), "nonG1"
			case 4:
				b.sigs[i], b.kinds[i] = bls381.G1Compress(bls381.G1Infinity()), "identitySig"
			default:
				b.sigs[i], b.kinds[i] = nil, "nilSig"
			}
		}
		switch group {
		case 0:
			d := bls381.G1Generator().Mul(big.NewInt(int64(g.Int("delta", 1, 1<<20))))
			b.sigs[grp[0]] = bls381.G1Compress(b.points[grp[0]].Add(d))
			b.sigs[grp[1]] = bls381.G1Compress(b.points[grp[1]].Add(d.Neg()))
			b.kinds[grp[0]], b.kinds[grp[1]] = "cancelPair", "cancelPair"
		case 1:
			d1 := bls381.G1Generator().Mul(big.NewInt(int64(g.Int("delta1", 1, 1<<20))))
			d2 := H.Mul(big.NewInt(int64(g.Int("delta2", 1, 1<<20))))
			b.sigs[grp[0]] = bls381.G1Compress(b.points[grp[0]].Add(d1))
			b.sigs[grp[1]] = bls381.G1Compress(b.points[grp[1]].Add(d2))
			b.sigs[grp[2]] = bls381.G1Compress(b.points[grp[2]].Add(d1.Add(d2).Neg()))
			b.kinds[grp[0]], b.kinds[grp[1]], b.kinds[grp[2]] = "cancelTriple", "cancelTriple", "cancelTriple"
		default:
			if !bytes.Equal(b.sigs[grp[0]], b.sigs[grp[1]]) {
				b.sigs[grp[0]], b.sigs[grp[1]] = b.sigs[grp[1]], b.sigs[grp[0]]
				b.kinds[grp[0]], b.kinds[grp[1]] = "swapped", "swapped"
			}
		}
		c03Check(g, b, msg, h, true)
		g.Class(fmt.Sprintf("template:%dstructural+%s", nStruct, []string{"pair", "triple", "swap"}[group]))
		if nStruct > 0 {
			g.NonTrivial()
		}
	})
}

// TestC03_Subsets: every subset of invalid positions for every n up to N (every
// shape of the aggregation tree), each with generated kinds of invalidity.
func TestC03_Subsets(t *testing.T) {
	gen.Run(t, "C03", func(g *gen.G) {
		maxN := 4
		if thorough() {
			maxN = 7
		}
		msg := g.Bytes("msg", 0, 20)
		h := crypto.NewExpandMsgXOFKMAC128("c03")
		H := hashToG1(g, msg, h)
		var cnt, nt int64
		for n := 1; n <= maxN; n++ {
			for mask := 0; mask < 1<<uint(n); mask++ {
				invalid := make([]bool, n)
				for i := range invalid {
					invalid[i] = mask>>uint(i)&1 == 1
				}
				b := c03Build(g, n, invalid, msg, h, H, fmt.Sprintf("n%dm%d", n, mask))
				v, iv := c03Check(g, b, msg, h, false)
				cnt++
				if v > 0 && iv > 0 {
					nt++
				}
				for _, k := range b.kinds {
					gen.CountClass(k, 1)
				}
			}
		}
		gen.Count(cnt, nt)
		g.Class("allSubsets")
		g.NonTrivial()
	})
	if thorough() {
		gen.Exhaustive("C03: every subset of invalid positions for every n ≤ 7 (kinds of invalidity generated per subset)")
	} else {
		gen.Exhaustive("C03: every subset of invalid positions for every n ≤ 4 (kinds of invalidity generated per subset)")
	}
}

// TestC03_Errors: on an input error every returned boolean is false.
func TestC03_Errors(t *testing.T) {
	gen.Run(t, "C03", func(g *gen.G) {
		n := g.Int("n", 1, 6)
		msg := g.Bytes("msg", 0, 10)
		h := crypto.NewExpandMsgXOFKMAC128("c03")
		H := hashToG1(g, msg, h)
		b := c03Build(g, n, make([]bool, n), msg, h, H, "")
		fault := g.Int("fault", 0, 5)
		pks, sigs := b.pks, b.sigs
		var hh hash.Hasher = h
		var pred func(error) bool
		name := ""
		switch fault {
		case 0:
			name, pred = "empty", crypto.IsBLSAggregateEmptyListError
			pks, sigs = nil, nil
		case 1:
			name, pred = "fewerKeys", crypto.IsInvalidInputsError
			pks = pks[:n-1]
			if n == 1 {
				pred = crypto.IsBLSAggregateEmptyListError
			}
		case 2:
			name, pred = "fewerSigs", crypto.IsInvalidInputsError
			sigs = sigs[:n-1]
		case 3:
			name, pred = "nonBLSKey", crypto.IsNotBLSKeyError
			pks = append([]crypto.PublicKey{}, pks...)
			pks[g.Pick("at", n)] = ecdsaKey(g).PublicKey()
		case 4:
			name, pred = "nilHasher", crypto.IsNilHasherError
			hh = nil
		default:
			name, pred = "wrongSizeHasher", crypto.IsInvalidHasherSizeError
			hh, _ = hash.NewKMAC_128([]byte("0123456789abcdef"), nil, g.Int("size", 0, 127))
		}
		res, err := crypto.BatchVerifyBLSSignaturesOneMessage(pks, sigs, msg, hh)
		if err == nil || !pred(err) {
			g.Fatalf("batch verification with fault %s (n=%d) returned error %v, expected the documented typed error", name, n, err)
		}
		for i, r := range res {
			if r {
				g.Fatalf("batch verification with fault %s returned true at index %d", name, i)
			}
		}
		g.Class("fault:" + name)
		g.NonTrivial(fmt.Sprintf("%s/%d", name, n))
	})
}

// TestC03_LargeBatches: batches far longer than the unit tests use (sizes around 64, 128 and 256, where a batched or
// chunked implementation would change algorithm), with none to a few invalid positions — first, last, and generated
// ones, cancelling groups included (c03Build draws the kinds).
func TestC03_LargeBatches(t *testing.T) {
	gen.Run(t, "C03", func(g *gen.G) {
		n := []int{33, 63, 64, 65, 66, 127, 128, 129, 130, 255, 256, 257}[g.Pick("n", 12)]
		msg := g.Bytes("msg", 0, 40)
		h := crypto.NewExpandMsgXOFKMAC128("c03-large")
		H := hashToG1(g, msg, h)
		invalid := make([]bool, n)
		k := g.Int("invalidCount", 0, 4)
		for i := 0; i < k; i++ {
			switch g.Int("where", 0, 3) {
			case 0:
				invalid[0] = true
			case 1:
				invalid[n-1] = true
			default:
				invalid[g.Pick("invalidAt", n)] = true
			}
		}
		b := c03Build(g, n, invalid, msg, h, H, "")
		v, iv := c03Check(g, b, msg, h, g.Chance("individually", 1, 4))
		g.Class(fmt.Sprintf("largeBatch:%d", n))
		if v > 0 && iv > 0 {
			g.Class("largeBatch:mixed")
		}
		g.NonTrivial()
	})
}
