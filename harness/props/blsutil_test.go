package props

// Helpers shared by the BLS properties: codec calibration (finding F1), key
// construction from known scalars, hash-to-curve through sk = 1, a hasher with
// a scripted 128-byte output, candidate-signature builders.

import (
	"bytes"
	"fmt"
	"math/big"
	"sync"

	"github.com/onflow/crypto"
	"github.com/onflow/crypto/hash"

	"verifharness/gen"
	"verifharness/oracle/bls381"
)

var (
	blsR = bls381.R
	blsP = bls381.P
	one  = big.NewInt(1)
)

var calib struct {
	once    sync.Once
	swapped bool
	err     error
}

// g2Swapped detects whether the library writes the two F_p coefficients of a G2
// x-coordinate as c0‖c1 (finding F1) or in the ZCash order c1‖c0.  Every
// property except C05 compares group elements through this calibrated codec.
func g2Swapped() (bool, error) {
	calib.once.Do(func() {
		sk, err := crypto.DecodePrivateKey(crypto.BLSBLS12381, scalarBytes(one))
		if err != nil {
			calib.err = err
			return
		}
		enc := sk.PublicKey().Encode()
		switch {
		case bytes.Equal(enc, bls381.G2Compress(bls381.G2Generator(), false)):
			calib.swapped = false
		case bytes.Equal(enc, bls381.G2Compress(bls381.G2Generator(), true)):
			calib.swapped = true
		default:
			calib.err = fmt.Errorf("public key of scalar 1 is neither ZCash nor coefficient-swapped ZCash: %x", enc)
		}
	})
	return calib.swapped, calib.err
}

func mustSwapped(g *gen.G) bool {
	s, err := g2Swapped()
	if err != nil {
		g.Fatalf("G2 codec calibration failed: %v", err)
	}
	return s
}

func scalarBytes(x *big.Int) []byte {
	b := make([]byte, 32)
	x.FillBytes(b)
	return b
}

// blsKey is a library private key whose scalar the harness knows.
type blsKey struct {
	sk  crypto.PrivateKey
	pk  crypto.PublicKey
	x   *big.Int
	how string
}

func decodeSK(g *gen.G, x *big.Int) crypto.PrivateKey {
	sk, err := crypto.DecodePrivateKey(crypto.BLSBLS12381, scalarBytes(x))
	if err != nil {
		g.Fatalf("DecodePrivateKey(BLS, %x) failed: %v", scalarBytes(x), err)
	}
	return sk
}

// drawScalar draws a scalar in [1, r-1] from the structured pool.
func drawScalar(g *gen.G, label string) (*big.Int, string) {
	switch g.Int(label+"Kind", 0, 7) {
	case 0:
		return big.NewInt(1), "one"
	case 1:
		return big.NewInt(2), "two"
	case 2:
		return new(big.Int).Sub(blsR, one), "r-1"
	case 3:
		return new(big.Int).Sub(blsR, big.NewInt(2)), "r-2"
	case 4:
		return big.NewInt(int64(g.Int(label+"Small", 3, 70000))), "small"
	case 5: // leading zero bytes
		nz := g.Int(label+"LeadingZeros", 1, 24)
		b := g.Bytes(label+"Low", 32-nz, 32-nz)
		x := new(big.Int).SetBytes(b)
		if x.Sign() == 0 {
			x.SetInt64(5)
		}
		return x, "leadingZeros"
	default:
		b := g.Bytes(label+"Rand", 32, 32)
		x := new(big.Int).SetBytes(b)
		x.Mod(x, new(big.Int).Sub(blsR, one))
		x.Add(x, one)
		return x, "random"
	}
}

// drawKey draws a private key: decoded from a pool scalar, generated from a
// seed, or aggregated from pool keys (non-zero sum).
func drawKey(g *gen.G, label string) blsKey {
	switch g.Int(label+"Src", 0, 5) {
	case 0: // generated
		seed := g.Bytes(label+"Seed", 32, 64)
		sk, err := crypto.GeneratePrivateKey(crypto.BLSBLS12381, seed)
		if err != nil {
			g.Fatalf("GeneratePrivateKey(BLS, %d-byte seed) failed: %v", len(seed), err)
		}
		return blsKey{sk: sk, pk: sk.PublicKey(), x: new(big.Int).SetBytes(sk.Encode()), how: "generated"}
	case 1: // aggregated
		n := g.Int(label+"AggN", 2, 3)
		sum := new(big.Int)
		sks := make([]crypto.PrivateKey, n)
		for i := range sks {
			x, _ := drawScalar(g, fmt.Sprintf("%sAgg%d", label, i))
			sks[i] = decodeSK(g, x)
			sum.Add(sum, x)
		}
		sum.Mod(sum, blsR)
		if sum.Sign() == 0 {
			x := big.NewInt(7)
			sks = append(sks, decodeSK(g, x))
			sum.Set(x)
		}
		warmKeys(g, label+"Warm", sks)
		sk, err := crypto.AggregateBLSPrivateKeys(sks)
		if err != nil {
			g.Fatalf("AggregateBLSPrivateKeys failed: %v", err)
		}
		k := blsKey{sk: sk, pk: sk.PublicKey(), x: sum, how: "aggregated"}
		k.pk = pkVariant(g, label+"PkVia", k)
		return k
	case 2: // a key share of the centralised threshold key generation: the public share is the object that function returns
		n := g.Int(label+"TsN", 2, 5)
		sks, pks, _, err := crypto.BLSThresholdKeyGen(n, g.Int(label+"TsT", 1, n-1), g.Bytes(label+"TsSeed", 32, 40))
		if err != nil {
			g.Fatalf("BLSThresholdKeyGen failed: %v", err)
		}
		i := g.Pick(label+"TsIndex", n)
		pk := pks[i]
		if g.Bool(label + "TsOwnPk") {
			pk = sks[i].PublicKey()
		}
		g.Class("key:thresholdKeyShare")
		return blsKey{sk: sks[i], pk: pk, x: new(big.Int).SetBytes(sks[i].Encode()), how: "thresholdKeyShare"}
	case 3: // the keys a plain Feldman VSS participant leaves End() with
		n := g.Int(label+"VssN", 2, 4)
		th := g.Int(label+"VssT", 1, n-1)
		dealer := g.Pick(label+"VssDealer", n)
		me := (dealer + 1 + g.Int(label+"VssMe", 0, n-2)) % n
		hon := vssDeal(g, n, th, dealer, g.Bytes(label+"VssSeed", 32, 32))
		rec := &vssRecorder{shares: make([][]byte, n)}
		inst, err := crypto.NewFeldmanVSS(n, th, me, rec, dealer)
		if err != nil {
			g.Fatalf("NewFeldmanVSS: %v", err)
		}
		_ = inst.Start(nil)
		if err := inst.HandleBroadcastMsg(dealer, hon.vector); err != nil {
			g.Fatalf("HandleBroadcastMsg(vector): %v", err)
		}
		if err := inst.HandlePrivateMsg(dealer, hon.shares[me]); err != nil {
			g.Fatalf("HandlePrivateMsg(share): %v", err)
		}
		sk, _, pks, err := inst.End()
		if err != nil {
			g.Fatalf("honest plain Feldman VSS run failed: %v", err)
		}
		pk := pks[me]
		if g.Bool(label + "VssOwnPk") {
			pk = sk.PublicKey()
		}
		g.Class("key:dkgKeyShare")
		return blsKey{sk: sk, pk: pk, x: new(big.Int).SetBytes(sk.Encode()), how: "dkgKeyShare"}
	default:
		x, how := drawScalar(g, label)
		sk := decodeSK(g, x)
		k := blsKey{sk: sk, pk: sk.PublicKey(), x: x, how: "decoded:" + how}
		k.pk = pkVariant(g, label+"PkVia", k)
		return k
	}
}

// warmKeys calls PublicKey() on a generated subset of the private keys before they are used: the public key of a
// private key is computed lazily and cached, so "already asked for its public key" is part of an object's history
// (an aggregate must not depend on which of its inputs had been asked).
func warmKeys(g *gen.G, label string, sks []crypto.PrivateKey) {
	if len(sks) == 0 {
		return
	}
	mask := g.Int(label, 0, (1<<uint(min(len(sks), 10)))-1)
	for i, sk := range sks {
		if i < 10 && mask&(1<<uint(i)) != 0 {
			_ = sk.PublicKey()
		}
	}
	if mask != 0 && mask != (1<<uint(min(len(sks), 10)))-1 {
		g.Class("history:someInputsHadPublicKeyCached")
	}
}

// pkVariant returns a public key object that represents the same G2 element as k.pk but was obtained through a
// generated route: as returned by PublicKey(), decoded from its encoding, a one-element aggregate, or what
// RemoveBLSPublicKeys leaves after removing a second key from an aggregate (the only exported constructor whose
// result the C layer does not normalise to affine coordinates).  Every verification property must be independent of
// the route.
func pkVariant(g *gen.G, label string, k blsKey) crypto.PublicKey {
	switch g.Int(label, 0, 7) {
	case 4:
		enc := k.pk.Encode()
		buf := append([]byte{}, enc...)
		pk, err := crypto.DecodePublicKey(crypto.BLSBLS12381, buf)
		if err != nil {
			g.Fatalf("DecodePublicKey of an encoded public key failed: %v", err)
		}
		// the caller reuses its buffer (reads the next key into it): the decoded key must not depend on it any more
		for i := range buf {
			buf[i] = 0xA5
		}
		if got := pk.Encode(); !bytes.Equal(got, enc) {
			g.Fatalf("a public key decoded from a buffer changed when the caller overwrote that buffer: Encode() = %x, decoded from %x", got, enc)
		}
		g.Class("pkVia:decodedFromReusedBuffer")
		return pk
	case 5:
		pk, err := crypto.AggregateBLSPublicKeys([]crypto.PublicKey{k.pk})
		if err != nil {
			g.Fatalf("AggregateBLSPublicKeys([pk]) failed: %v", err)
		}
		g.Class("pkVia:singletonAggregate")
		return pk
	case 6, 7:
		ox := big.NewInt(int64(g.Int(label+"Other", 2, 1<<30)))
		other := decodeSK(g, ox).PublicKey()
		agg, err := crypto.AggregateBLSPublicKeys([]crypto.PublicKey{other, k.pk})
		if err != nil {
			g.Fatalf("AggregateBLSPublicKeys failed: %v", err)
		}
		pk, err := crypto.RemoveBLSPublicKeys(agg, []crypto.PublicKey{other})
		if err != nil {
			g.Fatalf("RemoveBLSPublicKeys failed: %v", err)
		}
		g.Class("pkVia:removal")
		return pk
	}
	return k.pk
}

// scriptHasher is a hash.Hasher of size 128 whose ComputeHash returns a scripted block
// XOR-mixed with nothing: it reaches "every 128-byte hasher output".
type scriptHasher struct {
	out  []byte
	size int
}

func (s *scriptHasher) Algorithm() hash.HashingAlgorithm { return hash.UnknownHashingAlgorithm }
func (s *scriptHasher) Size() int                        { return s.size }
func (s *scriptHasher) ComputeHash([]byte) hash.Hash     { return append([]byte{}, s.out...) }
func (s *scriptHasher) Write(p []byte) (int, error)      { return len(p), nil }
func (s *scriptHasher) SumHash() hash.Hash               { return append([]byte{}, s.out...) }
func (s *scriptHasher) Reset()                           {}

// drawHalf draws one 64-byte big-endian half of a hasher output.
func drawHalf(g *gen.G, label string) []byte {
	v := new(big.Int)
	switch g.Int(label+"Kind", 0, 8) {
	case 0:
	case 1:
		v.SetInt64(1)
	case 2:
		v.Sub(blsP, one)
	case 3:
		v.Set(blsP)
	case 4:
		v.Add(blsP, one)
	case 5:
		v.Lsh(one, 384)
	case 6:
		v.Lsh(one, 512)
		v.Sub(v, one)
	default:
		v.SetBytes(g.Bytes(label+"Rand", 64, 64))
	}
	b := make([]byte, 64)
	v.FillBytes(b)
	return b
}

// drawHasher draws a 128-byte-output hasher: a KMAC128 expand-message instance
// with a generated tag, or a scripted output.  desc identifies it for notes.
func drawHasher(g *gen.G, label string) (hash.Hasher, string) {
	if g.Chance(label+"Scripted", 1, 4) {
		out := append(drawHalf(g, label+"H0"), drawHalf(g, label+"H1")...)
		return &scriptHasher{out: out, size: 128}, fmt.Sprintf("scripted:%x", out[:8])
	}
	tag := drawTag(g, label+"Tag")
	h := crypto.NewExpandMsgXOFKMAC128(tag)
	if g.Chance(label+"UsedBefore", 1, 4) {
		// a hasher object with a history (written to, reset, read earlier).  Sign / Verify hash with ComputeHash, which is
		// documented to be independent of anything done before (and to leave a KMAC128 hasher untouched), so every result
		// must be what a fresh hasher with the same tag gives.
		ageHasher(g, label+"Age", h, 168)
	}
	hasherTags.Lock()
	if len(hasherTags.m) > 4096 {
		hasherTags.m = map[hash.Hasher]string{}
	}
	hasherTags.m[h] = tag
	hasherTags.Unlock()
	return h, "kmac:" + tag
}

// hasherTags remembers the domain tag of the KMAC hashers handed out by drawHasher, so that the reference value H(m)
// can be taken from a fresh hasher object instead of the (possibly already used) one given to the code under test.
var hasherTags = struct {
	sync.Mutex
	m map[hash.Hasher]string
}{m: map[hash.Hasher]string{}}

func freshTwin(h hash.Hasher) hash.Hasher {
	hasherTags.Lock()
	tag, ok := hasherTags.m[h]
	hasherTags.Unlock()
	if ok {
		return crypto.NewExpandMsgXOFKMAC128(tag)
	}
	return h
}

// sigSuite is the signature ciphersuite the documentation says NewExpandMsgXOFKMAC128 appends to the domain tag.
const sigSuite = "BLS_SIG_BLS12381G1_XOF:KMAC128_SSWU_RO_POP_"

// kmacTagOf returns the domain tag of a hasher description produced by drawHasher ("kmac:<tag>").
func kmacTagOf(desc string) (string, bool) {
	if len(desc) >= 5 && desc[:5] == "kmac:" {
		return desc[5:], true
	}
	return "", false
}

func drawTag(g *gen.G, label string) string {
	switch g.Int(label+"Kind", 0, 4) {
	case 0:
		return ""
	case 1:
		return "flow-" + fmt.Sprint(g.Int(label+"N", 0, 50))
	case 4:
		// long tags: tag ‖ ciphersuite is the KMAC key, whose padded encoding spans several 168-byte cSHAKE blocks
		// (the suite is 43 bytes: the block boundaries are crossed at tag lengths around 120, 288, 456)
		n := g.Int(label+"LongLen", 100, 480)
		return string(g.Expand(label+"LongBytes", n))
	default:
		return string(g.Bytes(label+"Bytes", 0, 130))
	}
}

// neighbourTag returns a tag that differs from tag in exactly one generated way (one byte changed at the start, in the
// middle or at the end, one byte appended or dropped): domain separation must hold between any two different tags,
// including two long tags that agree on their first KMAC key block.
func neighbourTag(g *gen.G, label, tag string) string {
	b := []byte(tag)
	if len(b) == 0 {
		return "x"
	}
	switch g.Int(label, 0, 4) {
	case 0:
		b[len(b)-1] ^= 0x01
	case 1:
		b[0] ^= 0x80
	case 2:
		b[len(b)/2] ^= 0x10
	case 3:
		b = append(b, 0x00)
	default:
		b = b[:len(b)-1]
	}
	return string(b)
}

func drawMsg(g *gen.G, label string) []byte {
	if g.Chance(label+"Long", 1, 20) {
		return g.Expand(label+"LongData", g.Int(label+"LongLen", 301, 5000))
	}
	return g.Bytes(label, 0, 300)
}

// hashToG1 obtains H(m) for the hasher as the signature of scalar 1, decoded and
// subgroup-checked by the oracle (hash-to-curve itself is outside the oracle).
func hashToG1(g *gen.G, msg []byte, h hash.Hasher) bls381.G1 {
	h = freshTwin(h)
	sk1 := decodeSK(g, one)
	s, err := sk1.Sign(msg, h)
	if err != nil {
		g.Fatalf("Sign with scalar 1 failed: %v", err)
	}
	pt, err := bls381.G1Decompress(s)
	if err != nil {
		g.Fatalf("signature of scalar 1 is not a canonical G1 encoding: %x (%v)", []byte(s), err)
	}
	if pt.Inf {
		// scripted hasher outputs with u1 ≡ −u0 (mod p) map to the identity: the
		// properties are stated for a hash-to-curve image that is a generator
		// of G1; the degenerate image is excluded (and counted).
		g.Skip("hash-to-curve image is the identity (scripted hasher output with u1 = -u0)")
	}
	if !pt.InSubgroup() {
		g.Fatalf("hash-to-curve output (signature of scalar 1) is not in G1: %x", []byte(s))
	}
	return pt
}

type cand struct {
	b       []byte
	kind    string
	isPoint bool // decodes to a curve point (rejection decided by subgroup test / pairing, not parsing)
}

// sigCandidates builds structured candidate signatures around the exact signature point s.
func sigCandidates(g *gen.G, s bls381.G1, label string) []cand {
	exact := bls381.G1Compress(s)
	var out []cand
	add := func(b []byte, kind string, isPoint bool) {
		out = append(out, cand{append([]byte{}, b...), kind, isPoint})
	}
	add(exact, "exact", true)
	// bit flips
	for i, n := 0, g.Int(label+"Flips", 1, 3); i < n; i++ {
		pos := g.Int(label+"FlipPos", 0, 383)
		b := append([]byte{}, exact...)
		b[pos/8] ^= 0x80 >> uint(pos%8)
		_, err := bls381.G1Decompress(b)
		add(b, "bitflip", err == nil)
	}
	add(bls381.G1Compress(s.Neg()), "negated", true)
	// s + T
	seed := g.Bytes(label+"TorsionSeed", 1, 4)
	switch g.Int(label+"TorsionKind", 0, 2) {
	case 0:
		t3, _ := bls381.G1SmallOrderPoint(3, seed)
		add(bls381.G1Compress(s.Add(t3)), "plusOrder3", true)
	case 1:
		t11, _ := bls381.G1SmallOrderPoint(11, seed)
		add(bls381.G1Compress(s.Add(t11)), "plusOrder11", true)
	default:
		add(bls381.G1Compress(s.Add(bls381.G1TorsionPoint(seed))), "plusTorsion", true)
	}
	// s + k·G
	k := big.NewInt(int64(g.Int(label+"Delta", 1, 1000)))
	add(bls381.G1Compress(s.Add(bls381.G1Generator().Mul(k))), "plusDelta", true)
	// x + p when it fits 381 bits
	if !s.Inf {
		xp := new(big.Int).Add(s.X, blsP)
		if xp.BitLen() <= 381 {
			b := make([]byte, 48)
			xp.FillBytes(b)
			b[0] |= exact[0] & 0xE0
			add(b, "xPlusP", false)
		}
	}
	// flag combinations over the same x
	for f := 0; f < 8; f++ {
		b := append([]byte{}, exact...)
		b[0] = (b[0] & 0x1F) | byte(f<<5)
		if !bytes.Equal(b, exact) {
			_, err := bls381.G1Decompress(b)
			add(b, fmt.Sprintf("flags%d", f), err == nil)
		}
	}
	// infinity variants
	inf := make([]byte, 48)
	inf[0] = 0xC0
	add(inf, "infinity", true)
	b := make([]byte, 48)
	b[0] = 0x40
	add(b, "infinityUncompressedFlag", false)
	b = append([]byte{}, inf...)
	b[g.Int(label+"InfPos", 1, 47)] = byte(g.Int(label+"InfByte", 1, 255))
	add(b, "infinityDirty", false)
	b = append([]byte{}, inf...)
	b[0] = 0xE0
	add(b, "infinitySign", false)
	// lengths
	switch g.Int(label+"LenKind", 0, 2) {
	case 0:
		add(exact[:g.Int(label+"Trunc", 0, 47)], "truncated", false)
	case 1:
		add(append(append([]byte{}, exact...), make([]byte, g.Int(label+"Ext", 1, 152))...), "zeroExtended", false)
	default:
		add(g.Bytes(label+"RandLen", 0, 200), "randomBytes", false)
	}
	// other points
	add(bls381.G1Compress(bls381.G1CurvePoint(seed)), "curvePointOutsideG1", true)
	add(bls381.G1Compress(bls381.G1SubgroupPoint(seed)), "randomG1", true)
	return out
}

func isIdentityEncoding(b []byte) bool {
	if len(b) != 48 || b[0] != 0xC0 {
		return false
	}
	for _, x := range b[1:] {
		if x != 0 {
			return false
		}
	}
	return true
}

// identityKeys returns identity public keys obtained in eight different ways.
func identityKeys(g *gen.G, k blsKey) []crypto.PublicKey {
	out := []crypto.PublicKey{crypto.IdentityBLSPublicKey()}
	enc := make([]byte, 96)
	enc[0] = 0xC0
	if pk, err := crypto.DecodePublicKey(crypto.BLSBLS12381, enc); err == nil {
		out = append(out, pk)
	} else {
		g.Fatalf("DecodePublicKey of the infinity encoding failed: %v", err)
	}
	neg := decodeSK(g, new(big.Int).Sub(blsR, k.x))
	agg, err := crypto.AggregateBLSPublicKeys([]crypto.PublicKey{k.pk, neg.PublicKey()})
	if err != nil {
		g.Fatalf("AggregateBLSPublicKeys(pk, -pk) failed: %v", err)
	}
	out = append(out, agg)
	// identity obtained by removing a key from itself
	rem, err := crypto.RemoveBLSPublicKeys(k.pk, []crypto.PublicKey{k.pk})
	if err != nil {
		g.Fatalf("RemoveBLSPublicKeys(pk, [pk]) failed: %v", err)
	}
	out = append(out, rem)
	// identity obtained by removing all constituents from an aggregate, at once and in two steps (the C subtraction
	// leaves a projective point with Z = 0 and arbitrary X, Y)
	other := decodeSK(g, big.NewInt(int64(g.Int("idOther", 2, 1<<20)))).PublicKey()
	agg2, err := crypto.AggregateBLSPublicKeys([]crypto.PublicKey{k.pk, other})
	if err != nil {
		g.Fatalf("AggregateBLSPublicKeys failed: %v", err)
	}
	all, err := crypto.RemoveBLSPublicKeys(agg2, []crypto.PublicKey{other, k.pk})
	if err != nil {
		g.Fatalf("RemoveBLSPublicKeys(agg, all keys) failed: %v", err)
	}
	out = append(out, all)
	step, err := crypto.RemoveBLSPublicKeys(agg2, []crypto.PublicKey{k.pk})
	if err == nil {
		step, err = crypto.RemoveBLSPublicKeys(step, []crypto.PublicKey{other})
	}
	if err != nil {
		g.Fatalf("two-step RemoveBLSPublicKeys failed: %v", err)
	}
	out = append(out, step)
	// the public key of a zero private key: AggregateBLSPrivateKeys of x and r-x (documented to be possible), with inputs
	// that had / had not been asked for their public key before
	for _, warm := range []bool{false, true} {
		a, b := decodeSK(g, k.x), decodeSK(g, new(big.Int).Sub(blsR, k.x))
		if warm {
			_, _ = a.PublicKey(), b.PublicKey()
		}
		z, err := crypto.AggregateBLSPrivateKeys([]crypto.PrivateKey{a, b})
		if err != nil {
			g.Fatalf("AggregateBLSPrivateKeys(x, r-x) failed: %v", err)
		}
		out = append(out, z.PublicKey())
	}
	return out
}

// numIdentityKinds is len(identityKeys(...)).
const numIdentityKinds = 8

// ageHasher gives a hasher object a short generated history before it is handed to the code under test: writes whose
// lengths sit around the block size (so that the very first write of a new object may fill the sponge exactly), resets,
// ComputeHash and SumHash calls.  ComputeHash "returns the hash output regardless of the existing hash state", so the
// signing and verification functions, which hash through ComputeHash, must not be affected by any of it.  After a
// SumHash or ComputeHash the history only resets or computes (SHA-3 style objects require a Reset before further writes).
func ageHasher(g *gen.G, label string, h hash.Hasher, rate int) {
	needReset := false
	for i, n := 0, g.Int(label+"Ops", 1, 4); i < n; i++ {
		op := g.Int(label+"Op", 0, 5)
		if needReset && op <= 2 {
			op = 3 + op%2
		}
		switch op {
		case 0, 1, 2:
			k := []int{1, rate - 1, rate, rate + 1, 2 * rate, 3 * rate, 17}[g.Pick(label+"WriteLen", 7)]
			_, _ = h.Write(g.Expand(label+"WriteData", k))
			g.Class(fmt.Sprintf("hasherHistory:write%s", map[bool]string{true: "WholeBlocks", false: ""}[k%rate == 0]))
		case 3:
			h.Reset()
			needReset = false
			g.Class("hasherHistory:reset")
		case 4:
			_ = h.ComputeHash(g.Bytes(label+"Compute", 0, 20))
			needReset = true
			g.Class("hasherHistory:computeHash")
		default:
			_ = h.SumHash()
			needReset = true
			g.Class("hasherHistory:sumHash")
		}
	}
}
