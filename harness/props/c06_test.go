package props

// C06 — threshold shares reconstruct the unique group signature for any ≥ t+1 signers.

import (
	"bytes"
	"fmt"
	"math/big"
	"testing"

	"github.com/onflow/crypto"

	"verifharness/gen"
	"verifharness/oracle/bls381"
	"verifharness/oracle/fr"
)

type c06Setup struct {
	n, t     int
	sks      []crypto.PrivateKey
	pks      []crypto.PublicKey
	gpk      crypto.PublicKey
	xs       []*big.Int // private shares
	secret   *big.Int   // P(0)
	msg      []byte
	tag      string
	shares   []crypto.Signature
	expected []byte
}

// c06Dealer runs BLSThresholdKeyGen and checks the dealer output against the oracle.
func c06Dealer(g *gen.G, n, t int, seed, msg []byte, tag string, pkChecks int) *c06Setup {
	swapped := mustSwapped(g)
	sks, pks, gpk, err := crypto.BLSThresholdKeyGen(n, t, seed)
	if err != nil {
		g.Fatalf("BLSThresholdKeyGen(%d, %d, %d-byte seed) failed: %v", n, t, len(seed), err)
	}
	if len(sks) != n || len(pks) != n {
		g.Fatalf("BLSThresholdKeyGen(%d, %d) returned %d private and %d public shares", n, t, len(sks), len(pks))
	}
	s := &c06Setup{n: n, t: t, sks: sks, pks: pks, gpk: gpk, msg: msg, tag: tag}
	s.xs = make([]*big.Int, n)
	for i := range sks {
		s.xs[i] = new(big.Int).SetBytes(sks[i].Encode())
	}
	nodes := make([]int64, t+1)
	for i := range nodes {
		nodes[i] = int64(i + 1)
	}
	// all n shares lie on one polynomial of degree exactly t over the equally
	// spaced nodes 1..n: the t-th finite differences are constant and non-zero
	// (= t!·a_t), the (t+1)-th vanish.
	d := make([]*big.Int, n)
	for i := range d {
		d[i] = new(big.Int).Set(s.xs[i])
	}
	for k := 1; k <= t+1; k++ {
		for i := 0; i+1 < len(d); i++ {
			d[i] = d[i].Sub(d[i+1], d[i])
			d[i].Mod(d[i], blsR)
		}
		d = d[:len(d)-1]
		if k == t {
			for i := range d {
				if d[i].Sign() == 0 {
					g.Fatalf("BLSThresholdKeyGen(%d, %d): the sharing polynomial has degree < %d", n, t, t)
				}
				if d[i].Cmp(d[0]) != 0 {
					g.Fatalf("BLSThresholdKeyGen(%d, %d): private shares %d.. are not on one polynomial of degree %d", n, t, i, t)
				}
			}
		}
		if k == t+1 {
			for i := range d {
				if d[i].Sign() != 0 {
					g.Fatalf("BLSThresholdKeyGen(%d, %d): private share %d is not on the degree-%d polynomial through the preceding shares", n, t, i+t+1, t)
				}
			}
		}
	}
	if t <= 12 {
		// the coefficients of the sharing polynomial, recovered from t+1 shares: a uniformly random polynomial has a zero
		// or a repeated coefficient with probability about (t+1)^2 / 2^255, so a coefficient that is zero or equal to
		// another one means the polynomial is not the random polynomial the documentation promises
		coefs := fr.Interpolate(nodes, s.xs[:t+1])
		for i, c := range coefs {
			if c.Sign() == 0 {
				g.Fatalf("BLSThresholdKeyGen(%d, %d): coefficient a_%d of the sharing polynomial is zero (the polynomial is not random)", n, t, i)
			}
			for j := 0; j < i; j++ {
				if coefs[j].Cmp(c) == 0 {
					g.Fatalf("BLSThresholdKeyGen(%d, %d): coefficients a_%d and a_%d of the sharing polynomial are equal (the polynomial is not random)", n, t, j, i)
				}
			}
		}
	}
	l0 := fr.LagrangeAtZero(nodes)
	s.secret = new(big.Int)
	for j := range l0 {
		s.secret.Add(s.secret, new(big.Int).Mul(l0[j], s.xs[j]))
	}
	s.secret.Mod(s.secret, blsR)
	// group key and public shares
	if want := bls381.G2Compress(bls381.G2Generator().Mul(s.secret), swapped); !bytes.Equal(gpk.Encode(), want) {
		g.Fatalf("BLSThresholdKeyGen(%d, %d): group public key %x is not P(0)·g2 = %x", n, t, gpk.Encode(), want)
	}
	for c := 0; c < pkChecks && c < n; c++ {
		i := c
		if n > pkChecks {
			i = g.Pick("pkCheckIdx", n)
		}
		if want := bls381.G2Compress(bls381.G2Generator().Mul(s.xs[i]), swapped); !bytes.Equal(pks[i].Encode(), want) {
			g.Fatalf("BLSThresholdKeyGen(%d, %d): public share %d = %x does not match private share (%x)", n, t, i, pks[i].Encode(), want)
		}
		if !sks[i].PublicKey().Equals(pks[i]) {
			g.Fatalf("private share %d's PublicKey() differs from public share %d", i, i)
		}
	}
	h := crypto.NewExpandMsgXOFKMAC128(tag)
	H := hashToG1(g, msg, h)
	s.expected = bls381.G1Compress(H.Mul(s.secret))
	s.shares = make([]crypto.Signature, n)
	return s
}

func (s *c06Setup) share(g *gen.G, i int) crypto.Signature {
	if s.shares[i] == nil {
		sig, err := s.sks[i].Sign(s.msg, crypto.NewExpandMsgXOFKMAC128(s.tag))
		if err != nil {
			g.Fatalf("signing share %d failed: %v", i, err)
		}
		s.shares[i] = sig
	}
	return s.shares[i]
}

func (s *c06Setup) stateless(g *gen.G, signers []int, what string) {
	shares := make([]crypto.Signature, len(signers))
	for i, j := range signers {
		shares[i] = s.share(g, j)
	}
	sig, err := crypto.BLSReconstructThresholdSignature(s.n, s.t, shares, signers)
	if err != nil {
		g.Fatalf("BLSReconstructThresholdSignature(n=%d, t=%d, signers %v, %s) failed: %v", s.n, s.t, signers, what, err)
	}
	if !bytes.Equal(sig, s.expected) {
		g.Fatalf("BLSReconstructThresholdSignature(n=%d, t=%d, signers %v, %s) = %x, oracle P(0)·H(m) = %x", s.n, s.t, signers, what, []byte(sig), s.expected)
	}
}

func (s *c06Setup) inspector(g *gen.G) crypto.ThresholdSignatureInspector {
	ins, err := crypto.NewBLSThresholdSignatureInspector(s.gpk, s.pks, s.t, s.msg, s.tag)
	if err != nil {
		g.Fatalf("NewBLSThresholdSignatureInspector failed: %v", err)
	}
	return ins
}

// stateful adds the signers in order through a generated interleaving of TrustedAdd / VerifyAndAdd.
func (s *c06Setup) stateful(g *gen.G, signers []int, label string) {
	ins := s.inspector(g)
	added := 0
	for _, j := range signers {
		wantEnough := added+1 >= s.t+1
		if g.Bool(label + "verifyAndAdd") {
			v, enough, err := ins.VerifyAndAdd(j, s.share(g, j))
			if err != nil || !v || enough != wantEnough {
				g.Fatalf("VerifyAndAdd(%d, valid share) = (%v, %v, %v) after %d shares (t=%d)", j, v, enough, err, added, s.t)
			}
		} else {
			enough, err := ins.TrustedAdd(j, s.share(g, j))
			if err != nil || enough != wantEnough {
				g.Fatalf("TrustedAdd(%d, valid share) = (%v, %v) after %d shares (t=%d)", j, enough, err, added, s.t)
			}
		}
		if added < s.t+1 {
			added++
		}
		if ins.EnoughShares() != (added >= s.t+1) {
			g.Fatalf("EnoughShares() = %v after %d shares (t=%d)", ins.EnoughShares(), added, s.t)
		}
		if added < s.t+1 {
			if sig, err := ins.ThresholdSignature(); sig != nil || !crypto.IsNotEnoughSharesError(err) {
				g.Fatalf("ThresholdSignature() with %d of %d shares = (%x, %v): expected the not-enough-shares error", added, s.t+1, []byte(sig), err)
			}
		}
	}
	sig, err := ins.ThresholdSignature()
	if err != nil || !bytes.Equal(sig, s.expected) {
		g.Fatalf("stateful reconstruction (n=%d, t=%d, signers %v) = (%x, %v), oracle %x", s.n, s.t, signers, []byte(sig), err, s.expected)
	}
	if ok, err := ins.VerifyThresholdSignature(sig); !ok || err != nil {
		g.Fatalf("VerifyThresholdSignature(reconstructed) = (%v, %v)", ok, err)
	}
	if ok, err := s.gpk.Verify(sig, s.msg, crypto.NewExpandMsgXOFKMAC128(s.tag)); !ok || err != nil {
		g.Fatalf("reconstructed signature does not verify under the group key: (%v, %v)", ok, err)
	}
	if sig2, err := ins.ThresholdSignature(); err != nil || !bytes.Equal(sig2, sig) {
		g.Fatalf("second ThresholdSignature() call differs: (%x, %v)", []byte(sig2), err)
	}
}

// drawSigners draws a subset of size k of 0..n-1 in a generated order shape.
func drawSigners(g *gen.G, n, k int) ([]int, string) {
	p := g.Perm("subset", n)[:k]
	shape := g.Int("orderShape", 0, 3)
	name := "random"
	switch shape {
	case 0:
		sortInts(p, false)
		name = "ascending"
	case 1:
		sortInts(p, true)
		name = "descending"
	case 2: // interleaved: low, high, low, high
		sortInts(p, false)
		q := make([]int, 0, k)
		for i, j := 0, k-1; i <= j; i, j = i+1, j-1 {
			q = append(q, p[i])
			if i != j {
				q = append(q, p[j])
			}
		}
		p, name = q, "interleaved"
	}
	return p, name
}

func sortInts(a []int, desc bool) {
	for i := 1; i < len(a); i++ {
		for j := i; j > 0 && ((a[j] < a[j-1]) != desc) && a[j] != a[j-1]; j-- {
			a[j], a[j-1] = a[j-1], a[j]
		}
	}
}

func drawNT(g *gen.G) (int, int) {
	var n int
	switch g.Int("nKind", 0, 9) {
	case 0:
		n = g.Int("nLarge", 13, 254)
	case 1:
		n = 254
	case 2:
		n = g.Int("nMid", 9, 40)
	default:
		n = g.Int("n", 2, 12)
	}
	t := g.Int("t", 1, n-1)
	if n > 17 && g.Bool("tAroundLimb") {
		t = []int{7, 8, 9, 15, 16, 17}[g.Pick("tLimb", 6)]
	}
	return n, t
}

func TestC06_Generated(t *testing.T) {
	gen.Run(t, "C06", func(g *gen.G) {
		n, th := drawNT(g)
		seed := g.Bytes("seed", 32, 64)
		msg := g.Bytes("msg", 0, 60)
		tag := drawTag(g, "tag")
		s := c06Dealer(g, n, th, seed, msg, tag, 3)
		k := th + 1 + g.Int("extra", 0, min(3, n-th-1))
		signers, shape := drawSigners(g, n, k)
		s.stateless(g, signers, shape)
		s.stateful(g, signers, "")
		maxIdx := 0
		for _, j := range signers {
			maxIdx = max(maxIdx, j)
		}
		g.Class("order:" + shape)
		if th+1 > 8 {
			g.Class("multiLimb")
		}
		if maxIdx == 253 {
			g.Class("maxIndex253")
		}
		trivial := shape == "ascending"
		for i, j := range signers {
			if i != j {
				trivial = false
			}
		}
		if !trivial {
			g.NonTrivial()
		}
	})
}

// TestC06_BadShare: one invalid share at a generated position.
func TestC06_BadShare(t *testing.T) {
	gen.Run(t, "C06", func(g *gen.G) {
		n := g.Int("n", 2, 12)
		th := g.Int("t", 1, n-1)
		s := c06Dealer(g, n, th, g.Bytes("seed", 32, 32), g.Bytes("msg", 0, 30), "c06", 1)
		signers, _ := drawSigners(g, n, th+1)
		badPos := g.Pick("badPos", len(signers))
		j := signers[badPos]
		good := s.share(g, j)
		pt, _ := bls381.G1Decompress(good)
		var bad []byte
		kind := ""
		decodable, inG1 := true, true
		switch g.Int("badKind", 0, 6) {
		case 0:
			other := (j + 1 + g.Int("otherSigner", 0, n-2)) % n
			bad, kind = s.share(g, other), "otherSignersShare"
			if bytes.Equal(bad, good) {
				bad, kind = bls381.G1Compress(pt.Neg()), "negated"
			}
		case 1:
			bad, kind = bls381.G1Compress(bls381.G1SubgroupPoint(g.Bytes("ptSeed", 1, 2))), "randomG1Point"
		case 2:
			t3, _ := bls381.G1SmallOrderPoint(3, g.Bytes("ptSeed", 1, 2))
			bad, kind, inG1 = bls381.G1Compress(pt.Add(t3)), "nonG1", false
		case 3:
			bad, kind, decodable = crypto.BLSInvalidSignature(), "malformed", false
		case 4:
			bad, kind = bls381.G1Compress(bls381.G1Infinity()), "identity"
		case 5:
			b := append([]byte{}, good...)
			b[0] &= 0x7F // compression flag cleared
			bad, kind, decodable = b, "flagCleared", false
		default:
			L := []int{0, 1, 47, 49, 96}[g.Pick("len", 5)]
			b := make([]byte, L)
			copy(b, good)
			bad, kind, decodable = b, fmt.Sprintf("wrongLength%d", L), false
		}
		// VerifyShare / VerifyAndAdd reject it and the object still reconstructs from good shares
		ins := s.inspector(g)
		if ok, err := ins.VerifyShare(j, bad); ok || err != nil {
			g.Fatalf("VerifyShare(%d, %s share) = (%v, %v)", j, kind, ok, err)
		}
		v, enough, err := ins.VerifyAndAdd(j, bad)
		if v || enough || err != nil {
			g.Fatalf("VerifyAndAdd(%d, %s share) = (%v, %v, %v)", j, kind, v, enough, err)
		}
		if has, _ := ins.HasShare(j); has {
			g.Fatalf("VerifyAndAdd retained an invalid (%s) share", kind)
		}
		for _, i := range signers {
			if _, _, err := ins.VerifyAndAdd(i, s.share(g, i)); err != nil {
				g.Fatalf("VerifyAndAdd(%d, good share) after a rejected bad share: %v", i, err)
			}
		}
		if sig, err := ins.ThresholdSignature(); err != nil || !bytes.Equal(sig, s.expected) {
			g.Fatalf("reconstruction after a rejected %s share = (%x, %v), expected %x", kind, []byte(sig), err, s.expected)
		}
		// the signer is in the pool now: a second share for it is a duplicate whatever its contents ("duplicatedSignerError:
		// if signer was already added" has no condition on the share), through either entry point
		if v, enough, err := ins.VerifyAndAdd(j, bad); v || enough || !crypto.IsDuplicatedSignerError(err) {
			g.Fatalf("VerifyAndAdd(%d, %s share) for a signer already in the pool = (%v, %v, %v), the duplicated-signer error is documented", j, kind, v, enough, err)
		}
		if enough, err := ins.TrustedAdd(j, bad); enough || !crypto.IsDuplicatedSignerError(err) {
			g.Fatalf("TrustedAdd(%d, %s share) for a signer already in the pool = (%v, %v), the duplicated-signer error is documented", j, kind, enough, err)
		}
		// TrustedAdd of the bad share: ThresholdSignature must return an error, never bytes.
		// The implementation walks its share map in Go's randomized iteration order, so the
		// sequence is repeated on fresh objects to see more than one order.
		for rep := 0; rep < 12; rep++ {
			ins2 := s.inspector(g)
			for pos, i := range signers {
				sh := s.share(g, i)
				if pos == badPos {
					sh = bad
				}
				if _, err := ins2.TrustedAdd(i, sh); err != nil {
					g.Fatalf("TrustedAdd(%d) failed: %v", i, err)
				}
			}
			sig, err := ins2.ThresholdSignature()
			// a failed reconstruction must not leave anything behind: later calls fail the same way
			for again := 0; again < 2 && err != nil; again++ {
				sig2, err2 := ins2.ThresholdSignature()
				if sig2 != nil || err2 == nil {
					g.Fatalf("ThresholdSignature() call #%d after a failed reconstruction (a %s share added by TrustedAdd) returned (%x, %v); the first call returned %v", again+2, kind, []byte(sig2), err2, err)
				}
			}
			if err == nil && !inG1 && bytes.Equal(sig, s.expected) {
				// s_j + T with T of small order: the Lagrange coefficient of signer j can
				// annihilate T (l_j ≡ 0 mod ord T); the result is then the valid signature.
				g.Class("torsionAnnihilatedByLagrangeCoefficient")
			} else if sig != nil || err == nil {
				g.Fatalf("ThresholdSignature() with a %s share added by TrustedAdd at signer %d returned (%x, %v): expected an error and no signature (valid signature is %x)", kind, j, []byte(sig), err, s.expected)
			}
			switch {
			case err == nil:
			case !decodable:
				if !crypto.IsInvalidSignatureError(err) {
					g.Fatalf("ThresholdSignature() with an undecodable (%s) share: error %v is not the invalid-signature error", kind, err)
				}
			case inG1:
				if !crypto.IsInvalidInputsError(err) {
					g.Fatalf("ThresholdSignature() with a decodable wrong (%s) share: error %v is not the invalid-inputs error", kind, err)
				}
			default:
				if !crypto.IsInvalidInputsError(err) && !crypto.IsInvalidSignatureError(err) {
					g.Fatalf("ThresholdSignature() with a %s share: unexpected error class %v", kind, err)
				}
			}

		}
		// stateless: documented to validate nothing about share contents: no panic, bytes or invalid-signature error
		shares := make([]crypto.Signature, len(signers))
		for pos, i := range signers {
			shares[pos] = s.share(g, i)
			if pos == badPos {
				shares[pos] = bad
			}
		}
		sig, err := crypto.BLSReconstructThresholdSignature(n, th, shares, signers)
		if err != nil && !crypto.IsInvalidSignatureError(err) {
			g.Fatalf("BLSReconstructThresholdSignature with a %s share: unexpected error class %v", kind, err)
		}
		if err == nil {
			if ok, _ := s.gpk.Verify(sig, s.msg, crypto.NewExpandMsgXOFKMAC128(s.tag)); ok && (inG1 || !bytes.Equal(sig, s.expected)) {
				// (a torsion component annihilated by the Lagrange coefficient legitimately gives the exact signature)
				g.Fatalf("BLSReconstructThresholdSignature with a %s share returned %x, which verifies under the group key (exact signature %x)", kind, []byte(sig), s.expected)
			}
		}
		if !decodable && err == nil {
			g.Fatalf("BLSReconstructThresholdSignature accepted an undecodable (%s) share among the first t+1 and returned %x", kind, []byte(sig))
		}
		g.Class("badShare:" + kind)
		g.NonTrivial()
	})
}

// TestC06_Subsets: every subset of size ≥ t+1 for small n (every order for n ≤ 4).
func TestC06_Subsets(t *testing.T) {
	gen.Run(t, "C06", func(g *gen.G) {
		maxN := 5
		if thorough() {
			maxN = 6
		}
		seed := g.Bytes("seed", 32, 32)
		msg := g.Bytes("msg", 0, 20)
		var cnt, nt int64
		for n := 2; n <= maxN; n++ {
			for th := 1; th < n; th++ {
				s := c06Dealer(g, n, th, seed, msg, "c06", n)
				for mask := 0; mask < 1<<uint(n); mask++ {
					var sub []int
					for i := 0; i < n; i++ {
						if mask>>uint(i)&1 == 1 {
							sub = append(sub, i)
						}
					}
					if len(sub) < th+1 {
						continue
					}
					orders := [][]int{sub}
					if n <= 4 {
						orders = permutations(sub)
					} else {
						rev := make([]int, len(sub))
						for i := range sub {
							rev[i] = sub[len(sub)-1-i]
						}
						orders = append(orders, rev)
					}
					for _, o := range orders {
						s.stateless(g, o, "enumerated")
						s.stateful(g, o, fmt.Sprintf("n%dt%dm%d", n, th, mask))
						cnt += 2
						nt++
					}
				}
			}
		}
		gen.Count(cnt, nt)
		g.Class("allSubsets")
		g.NonTrivial()
	})
	gen.Exhaustive("C06: every signer subset of size ≥ t+1 for every 2 ≤ n ≤ 5 (thorough 6), 1 ≤ t < n, in ascending and descending order (every order for n ≤ 4), stateless and stateful")
}

func permutations(a []int) [][]int {
	if len(a) <= 1 {
		return [][]int{append([]int{}, a...)}
	}
	var out [][]int
	for i := range a {
		rest := append(append([]int{}, a[:i]...), a[i+1:]...)
		for _, p := range permutations(rest) {
			out = append(out, append([]int{a[i]}, p...))
		}
	}
	return out
}

// TestC06_Fixed: configurations that straddle the 8-index Lagrange batching and the maximum size.
func TestC06_Fixed(t *testing.T) {
	cfgs := [][2]int{{254, 127}, {20, 8}, {20, 9}, {40, 16}, {40, 17}, {254, 253}, {254, 1}, {255 - 1, 200}}
	gen.Run(t, "C06", func(g *gen.G) {
		c := cfgs[g.Pick("cfg", len(cfgs))]
		n, th := c[0], c[1]
		s := c06Dealer(g, n, th, g.Bytes("seed", 32, 32), g.Bytes("msg", 0, 20), "c06", 2)
		signers, shape := drawSigners(g, n, th+1)
		if g.Bool("includeLast") {
			has := false
			for _, j := range signers {
				if j == n-1 {
					has = true
				}
			}
			if !has {
				signers[g.Pick("lastAt", len(signers))] = n - 1
			}
		}
		s.stateless(g, signers, shape)
		s.stateful(g, signers, "")
		g.Class(fmt.Sprintf("cfg(%d,%d)", n, th))
		g.NonTrivial()
	})
}

// TestC06_Errors: not enough shares, duplicates, out-of-range indices, mismatched lists, bad parameters.
func TestC06_Errors(t *testing.T) {
	gen.Run(t, "C06", func(g *gen.G) {
		n := g.Int("n", 2, 10)
		th := g.Int("t", 1, n-1)
		s := c06Dealer(g, n, th, g.Bytes("seed", 32, 32), []byte("m"), "c06", 0)
		signers, _ := drawSigners(g, n, th+1)
		shares := make([]crypto.Signature, len(signers))
		for i, j := range signers {
			shares[i] = s.share(g, j)
		}
		name := ""
		switch g.Int("fault", 0, 7) {
		case 0:
			name = "notEnough"
			k := g.Int("k", 0, th)
			if k > 0 || !knownActive("F8b") {
				if sig, err := crypto.BLSReconstructThresholdSignature(n, th, shares[:k], signers[:k]); sig != nil || !crypto.IsNotEnoughSharesError(err) {
					g.Fatalf("stateless reconstruction with %d of %d shares = (%x, %v)", k, th+1, []byte(sig), err)
				}
			}
			ins := s.inspector(g)
			for i := 0; i < k; i++ {
				_, _ = ins.TrustedAdd(signers[i], shares[i])
			}
			if sig, err := ins.ThresholdSignature(); sig != nil || !crypto.IsNotEnoughSharesError(err) || ins.EnoughShares() {
				g.Fatalf("stateful reconstruction with %d of %d shares = (%x, %v)", k, th+1, []byte(sig), err)
			}
			if ok, err := crypto.EnoughShares(th, k); ok || err != nil {
				g.Fatalf("EnoughShares(%d, %d) = (%v, %v)", th, k, ok, err)
			}
			if ok, err := crypto.EnoughShares(th, th+1); !ok || err != nil {
				g.Fatalf("EnoughShares(%d, %d) = (%v, %v)", th, th+1, ok, err)
			}
		case 1:
			name = "duplicate"
			a, b := g.Pick("dupA", len(signers)), g.Pick("dupB", len(signers))
			if a != b {
				sg := append([]int{}, signers...)
				sg[a] = sg[b]
				if sig, err := crypto.BLSReconstructThresholdSignature(n, th, shares, sg); sig != nil || !crypto.IsDuplicatedSignerError(err) {
					g.Fatalf("stateless reconstruction with duplicate signer %d = (%x, %v)", sg[a], []byte(sig), err)
				}
			}
			ins := s.inspector(g)
			_, _ = ins.TrustedAdd(signers[0], shares[0])
			if ok, err := ins.TrustedAdd(signers[0], shares[0]); ok || !crypto.IsDuplicatedSignerError(err) {
				g.Fatalf("second TrustedAdd of signer %d = (%v, %v)", signers[0], ok, err)
			}
			if v, e, err := ins.VerifyAndAdd(signers[0], shares[0]); v || e || !crypto.IsDuplicatedSignerError(err) {
				g.Fatalf("VerifyAndAdd of an already added signer = (%v, %v, %v)", v, e, err)
			}
		case 2:
			name = "indexOutOfRange"
			bad := []int{-1, n, n + 1, 255, 256, 1 << 31, -1 << 31}[g.Pick("badIdx", 7)]
			sg := append([]int{}, signers...)
			sg[g.Pick("at", len(sg))] = bad
			if sig, err := crypto.BLSReconstructThresholdSignature(n, th, shares, sg); sig != nil || !crypto.IsInvalidInputsError(err) {
				g.Fatalf("stateless reconstruction with signer index %d = (%x, %v)", bad, []byte(sig), err)
			}
			ins := s.inspector(g)
			if ok, err := ins.TrustedAdd(bad, shares[0]); ok || !crypto.IsInvalidInputsError(err) {
				g.Fatalf("TrustedAdd(%d) = (%v, %v)", bad, ok, err)
			}
			if v, e, err := ins.VerifyAndAdd(bad, shares[0]); v || e || !crypto.IsInvalidInputsError(err) {
				g.Fatalf("VerifyAndAdd(%d) = (%v, %v, %v)", bad, v, e, err)
			}
			if ok, err := ins.HasShare(bad); ok || !crypto.IsInvalidInputsError(err) {
				g.Fatalf("HasShare(%d) = (%v, %v)", bad, ok, err)
			}
			if ok, err := ins.VerifyShare(bad, shares[0]); ok || !crypto.IsInvalidInputsError(err) {
				g.Fatalf("VerifyShare(%d) = (%v, %v)", bad, ok, err)
			}
		case 3:
			name = "listLengthMismatch"
			if sig, err := crypto.BLSReconstructThresholdSignature(n, th, shares, append(append([]int{}, signers...), 0)); sig != nil || !crypto.IsInvalidInputsError(err) {
				g.Fatalf("stateless reconstruction with more signers than shares = (%x, %v)", []byte(sig), err)
			}
			if sig, err := crypto.BLSReconstructThresholdSignature(n, th, shares, signers[:len(signers)-1]); sig != nil || !crypto.IsInvalidInputsError(err) {
				g.Fatalf("stateless reconstruction with fewer signers than shares = (%x, %v)", []byte(sig), err)
			}
		case 4:
			name = "badSizeOrThreshold"
			bn := []int{-1, 0, 1, 255, 256, 1000}[g.Pick("bn", 6)]
			// the sizes next to the documented range first (a size check that lets 256 or more through would loop on the
			// byte-sized participant index instead of returning: the adjacent sizes decide before that can happen)
			for _, sz := range []int{255, 1, 0, bn} {
				if a, b, c, err := crypto.BLSThresholdKeyGen(sz, 1, make([]byte, 32)); a != nil || b != nil || c != nil || !crypto.IsInvalidInputsError(err) {
					g.Fatalf("BLSThresholdKeyGen(size %d) = %v", sz, err)
				}
			}
			bt := []int{-1, 0, n, n + 1}[g.Pick("bt", 4)]
			if a, _, _, err := crypto.BLSThresholdKeyGen(n, bt, make([]byte, 32)); a != nil || !crypto.IsInvalidInputsError(err) {
				g.Fatalf("BLSThresholdKeyGen(%d, threshold %d) = %v", n, bt, err)
			}
			if sig, err := crypto.BLSReconstructThresholdSignature(n, bt, shares, signers); sig != nil || !crypto.IsInvalidInputsError(err) {
				g.Fatalf("BLSReconstructThresholdSignature(%d, threshold %d) = (%x, %v)", n, bt, []byte(sig), err)
			}
			if sig, err := crypto.BLSReconstructThresholdSignature(bn, 1, shares, signers); sig != nil || !crypto.IsInvalidInputsError(err) {
				g.Fatalf("BLSReconstructThresholdSignature(size %d) = (%x, %v)", bn, []byte(sig), err)
			}
			if ins, err := crypto.NewBLSThresholdSignatureInspector(s.gpk, s.pks, bt, s.msg, s.tag); ins != nil || !crypto.IsInvalidInputsError(err) {
				g.Fatalf("NewBLSThresholdSignatureInspector(threshold %d) = %v", bt, err)
			}
			// the participant constructor reports what its inspector part refuses (a matching private key does not help)
			pme := g.Pick("participantIndex", n)
			if p, err := crypto.NewBLSThresholdSignatureParticipant(s.gpk, s.pks, bt, pme, s.sks[pme], s.msg, s.tag); p != nil || !crypto.IsInvalidInputsError(err) {
				g.Fatalf("NewBLSThresholdSignatureParticipant(threshold %d, index %d with its matching private key) = (%v, %v)", bt, pme, p != nil, err)
			}
			if ok, err := crypto.EnoughShares(0, 5); ok || !crypto.IsInvalidInputsError(err) {
				g.Fatalf("EnoughShares(0, 5) = (%v, %v)", ok, err)
			}
		case 5:
			name = "shortSeed"
			if a, _, _, err := crypto.BLSThresholdKeyGen(n, th, make([]byte, g.Int("seedLen", 0, 31))); a != nil || !crypto.IsInvalidInputsError(err) {
				g.Fatalf("BLSThresholdKeyGen with a short seed = %v", err)
			}
		case 6:
			name = "nonBLSKeys"
			pks := append([]crypto.PublicKey{}, s.pks...)
			pks[g.Pick("at", n)] = ecdsaKey(g).PublicKey()
			if ins, err := crypto.NewBLSThresholdSignatureInspector(s.gpk, pks, th, s.msg, s.tag); ins != nil || !crypto.IsNotBLSKeyError(err) {
				g.Fatalf("NewBLSThresholdSignatureInspector with an ECDSA share key = %v", err)
			}
			if ins, err := crypto.NewBLSThresholdSignatureInspector(ecdsaKey(g).PublicKey(), s.pks, th, s.msg, s.tag); ins != nil || !crypto.IsNotBLSKeyError(err) {
				g.Fatalf("NewBLSThresholdSignatureInspector with an ECDSA group key = %v", err)
			}
			{
				pme := g.Pick("participantIndex", n)
				other := (pme + 1) % n
				bad := append([]crypto.PublicKey{}, s.pks...)
				bad[other] = ecdsaKey(g).PublicKey()
				if p, err := crypto.NewBLSThresholdSignatureParticipant(s.gpk, bad, th, pme, s.sks[pme], s.msg, s.tag); p != nil || !crypto.IsNotBLSKeyError(err) {
					g.Fatalf("NewBLSThresholdSignatureParticipant with an ECDSA key among the other participants' share keys = (%v, %v)", p != nil, err)
				}
			}
			if p, err := crypto.NewBLSThresholdSignatureParticipant(s.gpk, s.pks, th, 0, ecdsaKey(g), s.msg, s.tag); p != nil || !crypto.IsNotBLSKeyError(err) {
				g.Fatalf("NewBLSThresholdSignatureParticipant with an ECDSA private key = %v", err)
			}
		default:
			name = "participant"
			me := g.Pick("me", n)
			p, err := crypto.NewBLSThresholdSignatureParticipant(s.gpk, s.pks, th, me, s.sks[me], s.msg, s.tag)
			if err != nil {
				g.Fatalf("NewBLSThresholdSignatureParticipant: %v", err)
			}
			sh, err := p.SignShare()
			if err != nil || !bytes.Equal(sh, s.share(g, me)) {
				g.Fatalf("SignShare() differs from the private share's signature")
			}
			other := (me + 1) % n
			if s.xs[other].Cmp(s.xs[me]) != 0 {
				if p2, err := crypto.NewBLSThresholdSignatureParticipant(s.gpk, s.pks, th, me, s.sks[other], s.msg, s.tag); p2 != nil || !crypto.IsInvalidInputsError(err) {
					g.Fatalf("NewBLSThresholdSignatureParticipant with a private key not matching index %d = %v", me, err)
				}
			}
			for _, bad := range []int{-1, n} {
				if p2, err := crypto.NewBLSThresholdSignatureParticipant(s.gpk, s.pks, th, bad, s.sks[me], s.msg, s.tag); p2 != nil || !crypto.IsInvalidInputsError(err) {
					g.Fatalf("NewBLSThresholdSignatureParticipant(myIndex %d) = %v", bad, err)
				}
			}
		}
		g.Class("fault:" + name)
		g.NonTrivial()
	})
}

// TestC06_Misconfigured: "the stateful object never returns a threshold signature that fails verification under the
// group key" has no precondition on how the object was configured or how the caller treats its buffers.  The object
// is built with a threshold below the degree of the sharing polynomial, or with a group key that does not belong to
// the public key shares, or the caller overwrites the buffer of a share after the object accepted it; every share is
// individually valid at the time it is added (VerifyAndAdd answers true).  Whatever ThresholdSignature() returns
// without an error has to verify under the group key the object was given.
func TestC06_Misconfigured(t *testing.T) {
	gen.Run(t, "C06", func(g *gen.G) {
		n := g.Int("n", 3, 10)
		th := g.Int("t", 2, n-1)
		s := c06Dealer(g, n, th, g.Bytes("seed", 32, 32), g.Bytes("msg", 0, 30), "c06", 0)
		gpk, objT := s.gpk, s.t
		kind := g.Int("misconfiguration", 0, 2)
		name := ""
		switch kind {
		case 0:
			objT, name = g.Int("lowerThreshold", 1, th-1), "thresholdBelowPolynomialDegree"
		case 1:
			x, _ := drawScalar(g, "otherGroupKey")
			if x.Cmp(s.secret) == 0 {
				x = new(big.Int).Add(x, one)
			}
			gpk, name = decodeSK(g, x).PublicKey(), "foreignGroupKey"
		default:
			name = "shareBufferOverwrittenAfterAdd"
		}
		var ins crypto.ThresholdSignatureInspector
		var err error
		participant := g.Bool("participant")
		me := g.Pick("me", n)
		if participant {
			ins, err = crypto.NewBLSThresholdSignatureParticipant(gpk, s.pks, objT, me, s.sks[me], s.msg, s.tag)
		} else {
			ins, err = crypto.NewBLSThresholdSignatureInspector(gpk, s.pks, objT, s.msg, s.tag)
		}
		if err != nil {
			g.Fatalf("constructor (%s) failed: %v", name, err)
		}
		signers, _ := drawSigners(g, n, objT+1)
		trusted := g.Chance("someTrustedAdd", 1, 4)
		var kept [][]byte
		for _, j := range signers {
			buf := append([]byte{}, s.share(g, j)...)
			kept = append(kept, buf)
			if trusted && g.Bool("trustedAdd") {
				if _, err := ins.TrustedAdd(j, buf); err != nil {
					g.Fatalf("TrustedAdd(%d, valid share) failed: %v", j, err)
				}
				continue
			}
			v, _, err := ins.VerifyAndAdd(j, buf)
			if err != nil || !v {
				g.Fatalf("VerifyAndAdd(%d, valid share) = (%v, %v)", j, v, err)
			}
		}
		if kind == 2 {
			at := g.Pick("overwrite", len(kept))
			other := s.share(g, (signers[at]+1)%n) // the caller reads the next share into the same buffer
			if g.Bool("overwriteWithZeros") {
				other = make([]byte, len(kept[at]))
			}
			copy(kept[at], other)
		}
		if !ins.EnoughShares() {
			g.Fatalf("EnoughShares() false after %d shares with threshold %d", len(signers), objT)
		}
		for call := 0; call < 2; call++ {
			sig, err := ins.ThresholdSignature()
			if err != nil {
				if sig != nil {
					g.Fatalf("ThresholdSignature() returned bytes together with the error %v", err)
				}
				g.Class("misconfigured:" + name + ":error")
				continue
			}
			ok, verr := gpk.Verify(sig, s.msg, crypto.NewExpandMsgXOFKMAC128(s.tag))
			if verr != nil || !ok {
				g.Fatalf("ThresholdSignature() (%s, call %d, participant object: %v, n=%d, dealt threshold %d, object threshold %d, signers %v) returned %x without an error, and that does not verify under the object's group key (%v, %v)",
					name, call+1, participant, n, th, objT, signers, []byte(sig), ok, verr)
			}
			g.Class("misconfigured:" + name + ":validSignature")
		}
		g.NonTrivial()
	})
}
