package props

// C20 — results do not depend on the build configuration.
//
// harness/cfgworker is built four ways (default / ADX, CGO_CFLAGS="-O2
// -D__BLST_PORTABLE__", -tags purego, CGO_ENABLED=0 -tags no_cgo; see
// driver/c20_build.py).  Each rapid case generates ONE operation with generated
// inputs, sends the identical request line to every applicable worker and
// requires byte-identical answer lines.  The test process (default build) uses
// the library only to prepare well-formed inputs that are then mutated; the
// comparison is between worker answers only.

import (
	"bufio"
	"crypto/sha1"
	"encoding/hex"
	"encoding/json"
	"fmt"
	"io"
	"math/big"
	"os"
	"os/exec"
	"path/filepath"
	"strings"
	"sync"
	"testing"
	"time"

	"github.com/onflow/crypto"

	"verifharness/cfgworker/proto"
	"verifharness/gen"
	"verifharness/oracle/bls381"
	"verifharness/oracle/keccak"
	"verifharness/oracle/sha2"
	"verifharness/oracle/wecdsa"
)

// ---------------------------------------------------------------------------
// worker processes

var c20Names = []string{"default", "portable", "purego", "nocgo"}

// c20ReplyGuard is a watchdog against a hung worker (not a source of test data).
const c20ReplyGuard = 180 * time.Second

type c20Worker struct {
	name  string
	path  string
	bls   bool
	cmd   *exec.Cmd
	in    io.WriteCloser
	out   *bufio.Reader
	alive bool
}

var c20 struct {
	once sync.Once
	mu   sync.Mutex
	ws   []*c20Worker
	err  error
}

// c20WorkerPaths: VERIF_C20_WORKERS="default=/p,portable=/p,purego=/p,nocgo=/p", or the
// place driver/c20_build.py builds into ($VERIF_DIR/.work/c20/<sha1(VERIF_REPO)[:10]>/worker-<name>).
func c20WorkerPaths() (map[string]string, error) {
	out := map[string]string{}
	if v := os.Getenv("VERIF_C20_WORKERS"); v != "" {
		for _, kv := range strings.Split(v, ",") {
			k, p, ok := strings.Cut(strings.TrimSpace(kv), "=")
			if !ok {
				return nil, fmt.Errorf("VERIF_C20_WORKERS: bad entry %q", kv)
			}
			out[k] = p
		}
	} else if dir := os.Getenv("VERIF_DIR"); dir != "" {
		repo := os.Getenv("VERIF_REPO")
		if repo == "" {
			repo = "/repo"
		}
		abs, _ := filepath.Abs(repo)
		h := sha1.Sum([]byte(abs))
		for _, n := range c20Names {
			out[n] = filepath.Join(dir, ".work", "c20", hex.EncodeToString(h[:])[:10], "worker-"+n)
		}
	} else {
		return nil, fmt.Errorf("neither VERIF_C20_WORKERS nor VERIF_DIR is set")
	}
	for _, n := range c20Names {
		p, ok := out[n]
		if !ok {
			return nil, fmt.Errorf("no worker for configuration %q", n)
		}
		if _, err := os.Stat(p); err != nil {
			return nil, fmt.Errorf("worker %q: %v", n, err)
		}
	}
	return out, nil
}

func (w *c20Worker) start() error {
	cmd := exec.Command(w.path)
	cmd.Stderr = os.Stderr
	in, err := cmd.StdinPipe()
	if err != nil {
		return err
	}
	out, err := cmd.StdoutPipe()
	if err != nil {
		return err
	}
	if err := cmd.Start(); err != nil {
		return err
	}
	w.cmd, w.in, w.out, w.alive = cmd, in, bufio.NewReaderSize(out, 1<<16), true
	if err := w.send([]byte(`{"op":"ping"}`)); err != nil {
		return err
	}
	line, ok := w.recv()
	var r struct {
		Out struct {
			BLS bool `json:"bls"`
		} `json:"out"`
		Err string `json:"err"`
	}
	if !ok || json.Unmarshal([]byte(line), &r) != nil || r.Err != "" {
		w.kill()
		return fmt.Errorf("worker %s does not answer ping (%q)", w.name, line)
	}
	w.bls = r.Out.BLS
	if w.bls != (w.name != "nocgo") {
		w.kill()
		return fmt.Errorf("worker %s reports bls=%v", w.name, w.bls)
	}
	return nil
}

func (w *c20Worker) kill() {
	if w.cmd != nil && w.cmd.Process != nil {
		_ = w.cmd.Process.Kill()
		_ = w.in.Close()
		_, _ = w.cmd.Process.Wait()
	}
	w.alive = false
}

func (w *c20Worker) send(line []byte) error {
	if _, err := w.in.Write(append(append([]byte{}, line...), '\n')); err != nil {
		return err
	}
	return nil
}

// recv reads one answer line; ok is false if the worker died, closed its output or hung.
func (w *c20Worker) recv() (string, bool) {
	type res struct {
		s   string
		err error
	}
	ch := make(chan res, 1)
	go func() {
		s, err := w.out.ReadString('\n')
		ch <- res{s, err}
	}()
	select {
	case r := <-ch:
		if r.err != nil {
			return r.s, false
		}
		return strings.TrimRight(r.s, "\n"), true
	case <-time.After(c20ReplyGuard):
		w.kill()
		return "", false
	}
}

func c20Start() error {
	c20.once.Do(func() {
		paths, err := c20WorkerPaths()
		if err != nil {
			c20.err = err
			return
		}
		for _, n := range c20Names {
			w := &c20Worker{name: n, path: paths[n]}
			if err := w.start(); err != nil {
				c20.err = err
				return
			}
			c20.ws = append(c20.ws, w)
		}
		gen.Info("c20_workers", paths)
	})
	return c20.err
}

func c20MustStart(t *testing.T) {
	if os.Getenv("VERIF_C20_WORKERS") == "" && os.Getenv("VERIF_DIR") == "" {
		t.Skip("C20 needs the per-configuration workers: run it through ./check C20 (or set VERIF_C20_WORKERS, see driver/c20_build.py)")
	}
	if err := c20Start(); err != nil {
		// infrastructure problem, never a violation: the driver treats exit code 3 as inconclusive
		fmt.Printf("C20-INFRA: %v\n", err)
		gen.Flush()
		os.Exit(3)
	}
}

type c20Answer struct {
	cfg  string
	line string
	ok   bool // a well-formed answer line was received
}

// c20Round sends one request line to every applicable worker and collects the answers.
func c20Round(line []byte, needBLS bool) []c20Answer {
	c20.mu.Lock()
	defer c20.mu.Unlock()
	var use []*c20Worker
	for _, w := range c20.ws {
		if needBLS && w.name == "nocgo" {
			continue
		}
		if !w.alive {
			if err := w.start(); err != nil {
				fmt.Printf("C20-INFRA: cannot restart worker %s: %v\n", w.name, err)
				gen.Flush()
				os.Exit(3)
			}
		}
		use = append(use, w)
	}
	sent := make([]bool, len(use))
	for i, w := range use { // all workers compute concurrently
		sent[i] = w.send(line) == nil
	}
	out := make([]c20Answer, len(use))
	for i, w := range use {
		a := c20Answer{cfg: w.name}
		if sent[i] {
			a.line, a.ok = w.recv()
		}
		if a.ok {
			var r proto.Resp
			if err := json.Unmarshal([]byte(a.line), &r); err != nil {
				a.ok = false
			}
		}
		if !a.ok {
			w.kill()
			a.line = "<worker died or answered malformed JSON> " + a.line
		}
		out[i] = a
	}
	return out
}

func c20Trunc(s string, n int) string {
	if len(s) > n {
		return fmt.Sprintf("%s…(%d bytes)", s[:n], len(s))
	}
	return s
}

func c20FirstDiff(a, b string) int {
	n := len(a)
	if len(b) < n {
		n = len(b)
	}
	for i := 0; i < n; i++ {
		if a[i] != b[i] {
			return i
		}
	}
	return n
}

// c20Compare runs the request on the applicable configurations and fails the
// case on any disagreement.  It returns the common answer.
func c20Compare(g *gen.G, req *proto.Req, needBLS bool) (proto.Resp, bool) {
	line, err := json.Marshal(req)
	if err != nil {
		g.Fatalf("harness: cannot encode request: %v", err)
	}
	g.Note("request %s", c20Trunc(string(line), 600))
	ans := c20Round(line, needBLS)
	dead := 0
	for _, a := range ans {
		if !a.ok {
			dead++
		}
	}
	if dead == len(ans) {
		// every configuration died on this request: robustness is C09's subject
		g.Class("allWorkersFailed")
		return proto.Resp{}, false
	}
	agree := dead == 0
	for _, a := range ans[1:] {
		if a.line != ans[0].line {
			agree = false
		}
	}
	if !agree {
		var sb strings.Builder
		fmt.Fprintf(&sb, "build configurations disagree on request %s\n", c20Trunc(string(line), 6000))
		for i, a := range ans {
			where := ""
			if at := c20FirstDiff(a.line, ans[0].line); i > 0 && a.line != ans[0].line {
				lo := at - 60
				if lo < 0 {
					lo = 0
				}
				where = fmt.Sprintf(" (differs from %s at byte %d: …%s)", ans[0].cfg, at, c20Trunc(a.line[lo:], 160))
			}
			fmt.Fprintf(&sb, "  %-8s%s %s\n", a.cfg, where, c20Trunc(a.line, 1500))
		}
		g.Fatalf("%s", sb.String())
	}
	var r proto.Resp
	_ = json.Unmarshal([]byte(ans[0].line), &r)
	if strings.HasPrefix(r.Err, "bad_request") || r.Err == "unsupported" {
		g.Fatalf("harness: worker rejected the request as malformed (%s): %s", r.Err, c20Trunc(string(line), 2000))
	}
	return r, true
}

// ---------------------------------------------------------------------------
// input generators

func c20Hex(b []byte) string { return hex.EncodeToString(b) }

var c20BlockEdges = []int{103, 104, 105, 135, 136, 137, 167, 168, 169, 207, 208, 209, 271, 272, 273, 335, 336, 337, 408, 544}

// c20Data draws a message whose length is short, around a sponge-block edge, or long.
func c20Data(g *gen.G, label string) []byte {
	switch g.Int(label+"Kind", 0, 5) {
	case 0:
		return g.Bytes(label, 0, 64)
	case 1, 2:
		return g.Expand(label+"Edge", c20BlockEdges[g.Pick(label+"EdgeLen", len(c20BlockEdges))])
	case 3:
		return g.Expand(label+"Long", g.Int(label+"LongLen", 136, 3000))
	default:
		return g.Bytes(label, 0, 300)
	}
}

// c20Mutate returns b or a damaged copy of it.
func c20Mutate(g *gen.G, label string, b []byte) ([]byte, string) {
	switch g.Int(label+"Mut", 0, 9) {
	case 0, 1, 2, 3, 4:
		return b, "intact"
	case 5, 6:
		if len(b) == 0 {
			return b, "intact"
		}
		c := append([]byte{}, b...)
		pos := g.Int(label+"FlipPos", 0, 8*len(b)-1)
		c[pos/8] ^= 0x80 >> uint(pos%8)
		return c, "bitflip"
	case 7:
		if len(b) == 0 {
			return b, "intact"
		}
		return append([]byte{}, b[:g.Int(label+"Trunc", 0, len(b)-1)]...), "truncated"
	case 8:
		return append(append([]byte{}, b...), g.Bytes(label+"Ext", 1, 8)...), "extended"
	default:
		return g.Bytes(label+"Rand", len(b), len(b)), "random"
	}
}

// c20Scalar draws a BLS private key from the scalar pool of blsutil.
func c20Scalar(g *gen.G, label string) (*big.Int, crypto.PrivateKey) {
	x, _ := drawScalar(g, label)
	return x, decodeSK(g, x)
}

type c20Case struct {
	req  proto.Req
	bls  bool   // needs the BLS12-381 layer (not sent to the no_cgo worker)
	nt   bool   // non-trivial by the rule
	kind string // sub-class
}

func c20IsSHA3(a string) bool { return a == "sha3_256" || a == "sha3_384" || a == "keccak_256" }

var c20HashAlgos = []string{"sha2_256", "sha2_384", "sha3_256", "sha3_384", "keccak_256"}

func c20GenHash(g *gen.G) c20Case {
	a := c20HashAlgos[g.Pick("algo", len(c20HashAlgos))]
	m := c20Data(g, "msg")
	s := g.Int("split", 0, len(m))
	return c20Case{req: proto.Req{Op: "hash", Algo: a, Msg: c20Hex(m), Split: s}, nt: c20IsSHA3(a) && len(m) >= 136, kind: a}
}

func c20GenKMAC(g *gen.G) c20Case {
	var key []byte
	switch g.Int("keyKind", 0, 5) {
	case 0:
		key = g.Bytes("shortKey", 0, 15) // rejected
	case 1:
		key = g.Expand("edgeKey", []int{16, 163, 164, 165, 166, 167, 168, 331, 332}[g.Pick("edgeKeyLen", 9)])
	default:
		key = g.Bytes("key", 16, 64)
	}
	cust := g.Bytes("cust", 0, 40)
	size := g.Int("size", 0, 300)
	if g.Chance("negSize", 1, 30) {
		size = -1 - g.Int("neg", 0, 5)
	}
	m := c20Data(g, "msg")
	s := g.Int("split", 0, len(m))
	// with an accepted key the padded key block (168 bytes) is always absorbed
	return c20Case{req: proto.Req{Op: "kmac", Key: c20Hex(key), Cust: c20Hex(cust), Size: size, Msg: c20Hex(m), Split: s},
		nt: len(key) >= 16 && size >= 0, kind: "kmac"}
}

func c20GenPRG(g *gen.G) c20Case {
	seed := g.Bytes("seed", 32, 32)
	if g.Chance("badSeed", 1, 12) {
		seed = g.Bytes("badSeedBytes", 0, 64)
	}
	cust := g.Bytes("cust", 0, 12)
	if g.Chance("badCust", 1, 20) {
		cust = g.Bytes("badCustBytes", 13, 20)
	}
	n := g.Int("calls", 1, 8)
	calls := make([]proto.PRGCall, n)
	for i := range calls {
		switch g.Int("call", 0, 7) {
		case 0, 1, 2:
			calls[i] = proto.PRGCall{Kind: "read", N: uint64(c14ReadSize(g))}
		case 3:
			v := uint64(1) + g.Uint64("uintn")%(uint64(1)<<uint(g.Int("uintnBits", 1, 63)))
			if g.Chance("uintnZero", 1, 40) {
				v = 0 // documented panic, the same in every build
			}
			calls[i] = proto.PRGCall{Kind: "uintn", N: v}
		case 4:
			calls[i] = proto.PRGCall{Kind: "perm", N: uint64(int64(g.Int("permN", -1, 60)))}
		case 5:
			pn := g.Int("subN", -1, 60)
			calls[i] = proto.PRGCall{Kind: "subperm", N: uint64(int64(pn)), M: g.Int("subM", -1, 62)}
		case 6:
			pn := g.Int("sampN", 0, 60)
			calls[i] = proto.PRGCall{Kind: "samples", N: uint64(pn), M: g.Int("sampM", -1, 62)}
		default:
			calls[i] = proto.PRGCall{Kind: "shuffle", N: uint64(g.Int("shufN", 0, 60))}
		}
	}
	return c20Case{req: proto.Req{Op: "prg", Seed: c20Hex(seed), Cust: c20Hex(cust), Calls: calls}, kind: "prg"}
}

var c20SigAlgos = []string{"bls", "p256", "secp256k1"}

func c20GenKeygen(g *gen.G) c20Case {
	a := c20SigAlgos[g.Pick("algo", 3)]
	var seed []byte
	switch g.Int("seedKind", 0, 7) {
	case 0:
		seed = g.Bytes("shortSeed", 0, 31)
	case 1:
		seed = g.Expand("longSeed", g.Int("longSeedLen", 255, 300))
	case 2:
		seed = make([]byte, g.Int("zeroSeedLen", 32, 64))
	default:
		seed = g.Bytes("seed", 32, 64)
	}
	ok := len(seed) >= 32 && len(seed) <= 256
	return c20Case{req: proto.Req{Op: "keygen", Algo: a, Seed: c20Hex(seed)}, bls: a == "bls", nt: a == "bls" && ok, kind: "keygen:" + a}
}

func c20Curve(a string) *wecdsa.Curve {
	if a == "p256" {
		return wecdsa.P256()
	}
	return wecdsa.Secp256k1()
}

func c20Order(a string) *big.Int {
	if a == "bls" {
		return blsR
	}
	return c20Curve(a).N
}

func c20GenDecodePrivate(g *gen.G) c20Case {
	a := c20SigAlgos[g.Pick("algo", 3)]
	n := c20Order(a)
	var data []byte
	kind := ""
	switch g.Int("dataKind", 0, 8) {
	case 0:
		data, kind = make([]byte, 32), "zero"
	case 1:
		data, kind = scalarBytes(n), "order"
	case 2:
		data, kind = scalarBytes(new(big.Int).Add(n, one)), "order+1"
	case 3:
		data, kind = scalarBytes(new(big.Int).Sub(n, one)), "order-1"
	case 4:
		data, kind = g.Bytes("anyLen", 0, 70), "anyLength"
	case 5:
		data, kind = g.Bytes("raw32", 32, 32), "raw32"
	default:
		x := new(big.Int).SetBytes(g.Bytes("scalar", 32, 32))
		x.Mod(x, new(big.Int).Sub(n, one))
		x.Add(x, one)
		data, kind = c20Mutate(g, "sk", scalarBytes(x))
		kind = "valid-" + kind
	}
	return c20Case{req: proto.Req{Op: "decode_private", Algo: a, Data: c20Hex(data)}, bls: a == "bls", nt: a == "bls" && len(data) == 32, kind: "decode_private:" + a + ":" + kind}
}

func c20ECPub(cv *wecdsa.Curve, d *big.Int) (raw, compressed []byte) {
	q := cv.ScalarBaseMult(d)
	raw = make([]byte, 64)
	q.X.FillBytes(raw[:32])
	q.Y.FillBytes(raw[32:])
	return raw, cv.CompressPoint(q.X, q.Y)
}

func c20ECScalar(g *gen.G, label string, cv *wecdsa.Curve) *big.Int {
	x := new(big.Int).SetBytes(g.Bytes(label, 32, 32))
	x.Mod(x, new(big.Int).Sub(cv.N, one))
	return x.Add(x, one)
}

func c20GenDecodePublic(g *gen.G) c20Case {
	a := c20SigAlgos[g.Pick("algo", 3)]
	compressed := g.Chance("compressed", 1, 3)
	var data []byte
	kind := ""
	if a == "bls" {
		sw := mustSwapped(g)
		switch g.Int("dataKind", 0, 7) {
		case 0:
			data, kind = g.Bytes("anyLen", 0, 200), "anyLength"
		case 1:
			data, kind = g.Bytes("raw96", 96, 96), "raw96"
		case 2:
			data = make([]byte, 96)
			data[0] = 0xC0
			data, kind = c20Mutate(g, "inf", data)
			kind = "infinity-" + kind
		case 3:
			data, kind = bls381.G2Compress(bls381.G2CurvePoint(g.Bytes("curveSeed", 1, 4)), sw), "curvePointOutsideG2"
		case 4:
			data, kind = bls381.G2Compress(bls381.G2SubgroupPoint(g.Bytes("g2Seed", 1, 4)), sw), "randomG2"
		default:
			_, sk := c20Scalar(g, "key")
			data, kind = c20Mutate(g, "pk", sk.PublicKey().Encode())
			kind = "valid-" + kind
		}
		return c20Case{req: proto.Req{Op: "decode_public", Algo: a, Data: c20Hex(data), Compressed: compressed}, bls: true,
			nt: len(data) == 96 && !compressed, kind: "decode_public:bls:" + kind}
	}
	cv := c20Curve(a)
	switch g.Int("dataKind", 0, 5) {
	case 0:
		data, kind = g.Bytes("anyLen", 0, 100), "anyLength"
	case 1:
		n := 64
		if compressed {
			n = 33
		}
		data, kind = g.Bytes("rawLen", n, n), "rawLength"
	case 2: // coordinates ≥ p
		raw, _ := c20ECPub(cv, c20ECScalar(g, "d", cv))
		x := new(big.Int).SetBytes(raw[:32])
		x.Add(x, cv.P)
		if x.BitLen() <= 256 {
			x.FillBytes(raw[:32])
		}
		data, kind = raw, "xPlusP"
		compressed = false
	default:
		raw, comp := c20ECPub(cv, c20ECScalar(g, "d", cv))
		if compressed {
			raw = comp
		}
		data, kind = c20Mutate(g, "pk", raw)
		kind = "valid-" + kind
	}
	return c20Case{req: proto.Req{Op: "decode_public", Algo: a, Data: c20Hex(data), Compressed: compressed}, kind: "decode_public:" + a + ":" + kind}
}

func c20Digest(name string, m []byte) []byte {
	switch name {
	case "sha2_256":
		return sha2.SHA256(m)
	case "sha2_384":
		return sha2.SHA384(m)
	case "sha3_256":
		return keccak.SHA3_256(m)
	case "sha3_384":
		return keccak.SHA3_384(m)
	default:
		return keccak.Keccak256(m)
	}
}

// c20GenECDSAVerify: a signature computed by the harness (oracle arithmetic with
// a drawn nonce, so the case is a pure function of the draws), then damaged.
func c20GenECDSAVerify(g *gen.G) c20Case {
	a := c20SigAlgos[1+g.Pick("curve", 2)]
	cv := c20Curve(a)
	d := c20ECScalar(g, "d", cv)
	raw, _ := c20ECPub(cv, d)
	hname := c20HashAlgos[g.Pick("hasher", len(c20HashAlgos))]
	m := c20Data(g, "msg")
	k := c20ECScalar(g, "nonce", cv)
	r, s, ok := cv.SignWithNonce(d, c20Digest(hname, m), k)
	if !ok {
		r, s = big.NewInt(1), big.NewInt(1)
	}
	sig := append(scalarBytes(r), scalarBytes(s)...)
	verifyHasher, msg, pk := hname, m, raw
	kind := "valid"
	switch g.Int("damage", 0, 13) {
	case 0, 1, 2, 3:
	case 4:
		pos := g.Int("sigFlip", 0, 511)
		sig[pos/8] ^= 0x80 >> uint(pos%8)
		kind = "sigBitflip"
	case 5:
		msg = append(append([]byte{}, m...), byte(g.Int("extra", 0, 255)))
		kind = "otherMessage"
	case 6:
		copy(sig[32:], scalarBytes(new(big.Int).Sub(cv.N, s)))
		kind = "negatedS"
	case 7:
		copy(sig[:32], make([]byte, 32))
		kind = "zeroR"
	case 8:
		copy(sig[32:], scalarBytes(cv.N))
		kind = "sEqualsN"
	case 9:
		sig, kind = g.Bytes("randSig", 64, 64), "randomSig"
	case 10:
		sig, kind = sig[:g.Int("truncSig", 0, 63)], "truncatedSig"
	case 11:
		pk, _ = c20ECPub(cv, c20ECScalar(g, "otherD", cv))
		kind = "otherKey"
	case 12:
		verifyHasher = c20HashAlgos[(g.Pick("otherHasher", len(c20HashAlgos)-1)+1+c20IndexOf(c20HashAlgos, hname))%len(c20HashAlgos)]
		kind = "otherHasher"
	default:
		verifyHasher, kind = "nil", "nilHasher"
	}
	return c20Case{req: proto.Req{Op: "ecdsa_verify", Algo: a, Pk: c20Hex(pk), Sig: c20Hex(sig), Msg: c20Hex(msg), Hasher: verifyHasher},
		nt: c20IsSHA3(verifyHasher) && len(msg) >= 136, kind: "ecdsa_verify:" + a + ":" + kind}
}

func c20IndexOf(l []string, s string) int {
	for i, x := range l {
		if x == s {
			return i
		}
	}
	return 0
}

// ---- BLS operations (inputs prepared with the library in this process) ----

type c20Signed struct {
	x   *big.Int
	sk  crypto.PrivateKey
	sig crypto.Signature
}

func c20Sign(g *gen.G, sk crypto.PrivateKey, msg []byte, tag string) crypto.Signature {
	s, err := sk.Sign(msg, crypto.NewExpandMsgXOFKMAC128(tag))
	if err != nil {
		g.Fatalf("harness: Sign failed while preparing inputs: %v", err)
	}
	return s
}

func c20BadHasher(g *gen.G) string {
	if g.Chance("badHasher", 1, 25) {
		return []string{"nil", "sha3_256", "sha2_384"}[g.Pick("badHasherKind", 3)]
	}
	return ""
}

func c20GenBLSSign(g *gen.G) c20Case {
	k := drawKey(g, "key")
	skb := scalarBytes(k.x)
	kind := "ok"
	if g.Chance("badSK", 1, 15) {
		skb, kind = [][]byte{make([]byte, 32), scalarBytes(blsR), skb[:31]}[g.Pick("badSKKind", 3)], "badKey"
	}
	msg := drawMsg(g, "msg")
	tag := drawTag(g, "tag")
	return c20Case{req: proto.Req{Op: "bls_sign", Sk: c20Hex(skb), Msg: c20Hex(msg), Tag: c20Hex([]byte(tag)), Hasher: c20BadHasher(g)},
		bls: true, nt: true, kind: "bls_sign:" + kind}
}

func c20GenBLSVerify(g *gen.G) c20Case {
	k := drawKey(g, "key")
	msg := drawMsg(g, "msg")
	tag := drawTag(g, "tag")
	sig := c20Sign(g, k.sk, msg, tag)
	sigB := []byte(sig)
	kind := "exact"
	if !g.Chance("exactSig", 2, 5) {
		S, err := bls381.G1Decompress(sig)
		if err != nil {
			g.Fatalf("harness: signature %x is not a canonical G1 encoding: %v", []byte(sig), err)
		}
		cs := sigCandidates(g, S, "c")
		c := cs[g.Pick("cand", len(cs))]
		sigB, kind = c.b, c.kind
	}
	pk := k.pk.Encode()
	switch g.Int("pkKind", 0, 9) {
	case 0:
		pk = make([]byte, 96)
		pk[0] = 0xC0
		kind += "+identityKey"
	case 1:
		_, o := c20Scalar(g, "otherKey")
		pk = o.PublicKey().Encode()
		kind += "+otherKey"
	case 2:
		var mk string
		pk, mk = c20Mutate(g, "pk", pk)
		kind += "+pk-" + mk
	}
	vmsg, vtag := msg, tag
	switch g.Int("ctxKind", 0, 9) {
	case 0:
		vmsg = append(append([]byte{}, msg...), 1)
		kind += "+otherMessage"
	case 1:
		vtag = tag + "x"
		kind += "+otherTag"
	}
	return c20Case{req: proto.Req{Op: "bls_verify", Pk: c20Hex(pk), Sig: c20Hex(sigB), Msg: c20Hex(vmsg), Tag: c20Hex([]byte(vtag)), Hasher: c20BadHasher(g)},
		bls: true, nt: true, kind: "bls_verify"}
}

func c20GenPOP(g *gen.G) c20Case {
	k := drawKey(g, "key")
	req := proto.Req{Op: "bls_pop", Sk: c20Hex(scalarBytes(k.x))}
	kind := "own"
	switch g.Int("popKind", 0, 5) {
	case 0:
		_, o := c20Scalar(g, "otherKey")
		req.Pk = c20Hex(o.PublicKey().Encode())
		kind = "otherKey"
	case 1:
		pop, err := crypto.BLSGeneratePOP(k.sk)
		if err != nil {
			g.Fatalf("harness: BLSGeneratePOP failed: %v", err)
		}
		b, mk := c20Mutate(g, "pop", pop)
		req.Sig = c20Hex(b)
		kind = "pop-" + mk
	case 2: // an ordinary signature is not a PoP
		req.Sig = c20Hex(c20Sign(g, k.sk, k.pk.Encode(), drawTag(g, "tag")))
		kind = "plainSignature"
	}
	return c20Case{req: req, bls: true, nt: true, kind: "bls_pop:" + kind}
}

// c20Signers draws n keys from the scalar pool and their signatures of msg.
func c20Signers(g *gen.G, n int, msg []byte, tag string) []c20Signed {
	out := make([]c20Signed, n)
	for i := range out {
		x, sk := c20Scalar(g, fmt.Sprintf("k%d", i))
		out[i] = c20Signed{x: x, sk: sk, sig: c20Sign(g, sk, msg, tag)}
	}
	return out
}

func c20GenAggregateSigs(g *gen.G) c20Case {
	n := g.Int("n", 0, 6)
	msg := g.Bytes("msg", 0, 40)
	ks := c20Signers(g, n, msg, "agg")
	sigs := make([]string, n)
	kind := "intact"
	for i, k := range ks {
		b := []byte(k.sig)
		if g.Chance("damage", 1, 8) {
			b, kind = c20Mutate(g, "sig", b)
		}
		sigs[i] = c20Hex(b)
	}
	if n >= 2 && g.Chance("cancel", 1, 10) { // s and -s: identity aggregate
		neg := decodeSK(g, new(big.Int).Sub(blsR, ks[0].x))
		sigs[1] = c20Hex(c20Sign(g, neg, msg, "agg"))
		kind = "cancelling"
	}
	return c20Case{req: proto.Req{Op: "aggregate_sigs", Sigs: sigs}, bls: true, nt: n > 0, kind: "aggregate_sigs:" + kind}
}

func c20GenAggregateSKs(g *gen.G) c20Case {
	n := g.Int("n", 0, 6)
	sks := make([]string, n)
	kind := "intact"
	var first *big.Int
	for i := range sks {
		x, _ := drawScalar(g, fmt.Sprintf("k%d", i))
		if i == 0 {
			first = x
		}
		sks[i] = c20Hex(scalarBytes(x))
	}
	if n >= 2 && g.Chance("cancel", 1, 8) {
		sks[1] = c20Hex(scalarBytes(new(big.Int).Sub(blsR, first)))
		kind = "cancelling"
	}
	if n >= 1 && g.Chance("bad", 1, 12) {
		sks[n-1] = c20Hex(make([]byte, 32))
		kind = "zeroScalar"
	}
	return c20Case{req: proto.Req{Op: "aggregate_sks", Sks: sks}, bls: true, nt: n > 0, kind: "aggregate_sks:" + kind}
}

func c20GenAggregatePKs(g *gen.G) c20Case {
	n := g.Int("n", 0, 6)
	pks := make([]string, n)
	kind := "intact"
	var first *big.Int
	for i := range pks {
		x, sk := c20Scalar(g, fmt.Sprintf("k%d", i))
		if i == 0 {
			first = x
		}
		pks[i] = c20Hex(sk.PublicKey().Encode())
	}
	if n >= 2 && g.Chance("cancel", 1, 8) {
		pks[1] = c20Hex(decodeSK(g, new(big.Int).Sub(blsR, first)).PublicKey().Encode())
		kind = "cancelling"
	}
	if n >= 1 && g.Chance("identity", 1, 10) {
		id := make([]byte, 96)
		id[0] = 0xC0
		pks[n-1] = c20Hex(id)
		kind = "withIdentity"
	}
	return c20Case{req: proto.Req{Op: "aggregate_pks", Pks: pks}, bls: true, nt: n > 0, kind: "aggregate_pks:" + kind}
}

func c20GenRemovePKs(g *gen.G) c20Case {
	n := g.Int("n", 1, 5)
	keys := make([]crypto.PublicKey, n)
	for i := range keys {
		_, sk := c20Scalar(g, fmt.Sprintf("k%d", i))
		keys[i] = sk.PublicKey()
	}
	agg, err := crypto.AggregateBLSPublicKeys(keys)
	if err != nil {
		g.Fatalf("harness: AggregateBLSPublicKeys failed: %v", err)
	}
	var rm []string
	for i := range keys {
		if g.Bool(fmt.Sprintf("remove%d", i)) {
			rm = append(rm, c20Hex(keys[i].Encode()))
		}
	}
	kind := fmt.Sprintf("remove%dof%d", len(rm), n)
	if g.Chance("nonMember", 1, 6) {
		_, o := c20Scalar(g, "other")
		rm = append(rm, c20Hex(o.PublicKey().Encode()))
		kind = "nonMember"
	}
	return c20Case{req: proto.Req{Op: "remove_pks", Pk: c20Hex(agg.Encode()), Pks: rm}, bls: true, nt: true, kind: "remove_pks:" + kind}
}

func c20AggSig(g *gen.G, sigs []crypto.Signature) []byte {
	a, err := crypto.AggregateBLSSignatures(sigs)
	if err != nil {
		g.Fatalf("harness: AggregateBLSSignatures failed: %v", err)
	}
	return a
}

func c20GenVerifyOneMessage(g *gen.G) c20Case {
	n := g.Int("n", 1, 5)
	msg := drawMsg(g, "msg")
	tag := drawTag(g, "tag")
	ks := c20Signers(g, n, msg, tag)
	sigs := make([]crypto.Signature, n)
	pks := make([]string, n)
	for i, k := range ks {
		sigs[i] = k.sig
		pks[i] = c20Hex(k.sk.PublicKey().Encode())
	}
	sig := c20AggSig(g, sigs)
	vmsg := msg
	kind := "exact"
	switch g.Int("damage", 0, 9) {
	case 0:
		pks = pks[:n-1]
		kind = "missingKey"
	case 1:
		pks = append(pks, pks[0])
		kind = "duplicatedKey"
	case 2:
		var mk string
		sig, mk = c20Mutate(g, "sig", sig)
		kind = "sig-" + mk
	case 3:
		vmsg = append(append([]byte{}, msg...), 0)
		kind = "otherMessage"
	case 4:
		id := make([]byte, 96)
		id[0] = 0xC0
		pks = append(pks, c20Hex(id))
		kind = "plusIdentityKey"
	}
	return c20Case{req: proto.Req{Op: "verify_one_message", Pks: pks, Sig: c20Hex(sig), Msg: c20Hex(vmsg), Tag: c20Hex([]byte(tag)), Hasher: c20BadHasher(g)},
		bls: true, nt: len(pks) > 0, kind: "verify_one_message:" + kind}
}

func c20GenVerifyManyMessages(g *gen.G) c20Case {
	n := g.Int("n", 1, 5)
	msgPool := [][]byte{g.Bytes("m0", 0, 40), g.Bytes("m1", 0, 40), c20Data(g, "m2")}
	tagPool := []string{drawTag(g, "t0"), "other-tag"}
	pks, msgs, tags := make([]string, n), make([]string, n), make([]string, n)
	sigs := make([]crypto.Signature, n)
	for i := 0; i < n; i++ {
		_, sk := c20Scalar(g, fmt.Sprintf("k%d", i))
		m := msgPool[g.Pick(fmt.Sprintf("msgOf%d", i), len(msgPool))]
		t := tagPool[0]
		if g.Chance(fmt.Sprintf("tagOf%d", i), 1, 4) {
			t = tagPool[1]
		}
		sigs[i] = c20Sign(g, sk, m, t)
		pks[i], msgs[i], tags[i] = c20Hex(sk.PublicKey().Encode()), c20Hex(m), c20Hex([]byte(t))
	}
	sig := c20AggSig(g, sigs)
	kind := "exact"
	switch g.Int("damage", 0, 9) {
	case 0:
		if n >= 2 {
			msgs[0], msgs[n-1] = msgs[n-1], msgs[0]
			kind = "swappedMessages"
		}
	case 1:
		tags = tags[:n-1]
		kind = "lengthMismatch"
	case 2:
		var mk string
		sig, mk = c20Mutate(g, "sig", sig)
		kind = "sig-" + mk
	case 3:
		pks, msgs, tags = nil, nil, nil
		kind = "emptyLists"
	}
	return c20Case{req: proto.Req{Op: "verify_many_messages", Pks: pks, Sig: c20Hex(sig), Msgs: msgs, Tags: tags},
		bls: true, nt: len(pks) > 0, kind: "verify_many_messages:" + kind}
}

func c20GenBatchVerify(g *gen.G) c20Case {
	n := g.Int("n", 0, 7)
	msg := drawMsg(g, "msg")
	tag := drawTag(g, "tag")
	ks := c20Signers(g, n, msg, tag)
	pks, sigs := make([]string, n), make([]string, n)
	bad := 0
	for i, k := range ks {
		pks[i] = c20Hex(k.sk.PublicKey().Encode())
		b := []byte(k.sig)
		if g.Chance(fmt.Sprintf("bad%d", i), 1, 4) {
			bad++
			switch g.Int(fmt.Sprintf("badKind%d", i), 0, 4) {
			case 0:
				b = c20Sign(g, k.sk, append(append([]byte{}, msg...), 7), tag) // valid point, wrong message
			case 1:
				b = make([]byte, 48)
				b[0] = 0xC0
			case 2:
				b = g.Bytes(fmt.Sprintf("badLen%d", i), 0, 60)
			default:
				b, _ = c20Mutate(g, fmt.Sprintf("sig%d", i), b)
			}
		}
		sigs[i] = c20Hex(b)
	}
	if n >= 1 && g.Chance("identityKey", 1, 12) {
		id := make([]byte, 96)
		id[0] = 0xC0
		pks[0] = c20Hex(id)
	}
	if n >= 1 && g.Chance("lengthMismatch", 1, 20) {
		sigs = sigs[:n-1]
	}
	return c20Case{req: proto.Req{Op: "batch_verify", Pks: pks, Sigs: sigs, Msg: c20Hex(msg), Tag: c20Hex([]byte(tag)), Hasher: c20BadHasher(g)},
		bls: true, nt: n > 0, kind: fmt.Sprintf("batch_verify:n%d:bad%d", n, bad)}
}

func c20GenSPOCK(g *gen.G) c20Case {
	x1, _ := drawScalar(g, "k1")
	x2, _ := drawScalar(g, "k2")
	data := c20Data(g, "data")
	tag := drawTag(g, "tag")
	req := proto.Req{Op: "spock", Sk: c20Hex(scalarBytes(x1)), Sk2: c20Hex(scalarBytes(x2)), Msg: c20Hex(data), Tag: c20Hex([]byte(tag)), Hasher: c20BadHasher(g)}
	kind := "sameData"
	if g.Chance("otherData", 1, 3) {
		req.Msg2 = c20Hex(append(append([]byte{}, data...), 1))
		kind = "otherData"
	}
	return c20Case{req: req, bls: true, nt: true, kind: "spock:" + kind}
}

func c20GenThreshold(g *gen.G) c20Case {
	maxN := 7
	if thorough() {
		maxN = 16
	}
	n := g.Int("n", 2, maxN)
	t := g.Int("t", 1, n-1)
	kind := "ok"
	if g.Chance("badParams", 1, 15) {
		switch g.Int("badParamsKind", 0, 2) {
		case 0:
			t = 0
		case 1:
			t = n
		default:
			n, t = 1, 1
		}
		kind = "badParams"
	}
	seed := g.Bytes("seed", 32, 48)
	if g.Chance("shortSeed", 1, 15) {
		seed, kind = g.Bytes("shortSeedBytes", 0, 31), "shortSeed"
	}
	msg := drawMsg(g, "msg")
	tag := drawTag(g, "tag")
	// signers: a prefix of a permutation of 0..n-1, possibly damaged
	perm := g.Perm("signerPerm", n)
	signers := append([]int{}, perm[:g.Int("signerCount", 0, n)]...)
	if len(signers) > 0 {
		switch g.Int("signerDamage", 0, 11) {
		case 0:
			signers = append(signers, signers[0])
			kind = "duplicateSigner"
		case 1:
			signers[len(signers)-1] = n + g.Int("outOfRange", 0, 3)
			kind = "signerOutOfRange"
		case 2:
			signers[0] = -1
			kind = "negativeSigner"
		}
	}
	req := proto.Req{Op: "threshold", N: n, T: t, Seed: c20Hex(seed), Msg: c20Hex(msg), Tag: c20Hex([]byte(tag)), Signers: signers}
	if len(signers) > 0 && g.Chance("flipShare", 1, 4) {
		req.FlipShare = 1 + g.Pick("flipShareIdx", len(signers))
		req.FlipBit = g.Int("flipShareBit", 0, 383)
		kind += "+damagedShare"
	}
	return c20Case{req: req, bls: true, nt: true, kind: "threshold:" + kind}
}

type c20Gen struct {
	name   string
	weight int
	f      func(*gen.G) c20Case
}

var c20Gens = []c20Gen{
	{"bls_verify", 4, c20GenBLSVerify},
	{"threshold", 2, c20GenThreshold},
	{"batch_verify", 2, c20GenBatchVerify},
	{"verify_one_message", 2, c20GenVerifyOneMessage},
	{"verify_many_messages", 2, c20GenVerifyManyMessages},
	{"bls_sign", 3, c20GenBLSSign},
	{"keygen", 3, c20GenKeygen},
	{"decode_public", 3, c20GenDecodePublic},
	{"hash", 3, c20GenHash},
	{"prg", 2, c20GenPRG},
	{"decode_private", 2, c20GenDecodePrivate},
	{"ecdsa_verify", 3, c20GenECDSAVerify},
	{"bls_pop", 1, c20GenPOP},
	{"aggregate_sigs", 1, c20GenAggregateSigs},
	{"aggregate_sks", 1, c20GenAggregateSKs},
	{"aggregate_pks", 1, c20GenAggregatePKs},
	{"remove_pks", 1, c20GenRemovePKs},
	{"spock", 1, c20GenSPOCK},
	{"kmac", 3, c20GenKMAC},
}

// TestC20_Configs: one generated operation per case, identical answers in every configuration.
func TestC20_Configs(t *testing.T) {
	c20MustStart(t)
	total := 0
	for _, e := range c20Gens {
		total += e.weight
	}
	gen.Run(t, "C20", func(g *gen.G) {
		// uniform over the weighted table (rapid's integer ranges favour their ends)
		sd := gen.ExpandSeed(g.Uint64("op"), 8)
		w := int((uint64(sd[0]) | uint64(sd[1])<<8 | uint64(sd[2])<<16 | uint64(sd[3])<<24) % uint64(total))
		var e c20Gen
		for _, e = range c20Gens {
			if w < e.weight {
				break
			}
			w -= e.weight
		}
		c := e.f(g)
		resp, ok := c20Compare(g, &c.req, c.bls)
		if !ok {
			return
		}
		g.Class("op:" + e.name)
		if i := strings.IndexByte(c.kind, ':'); i >= 0 && len(c.kind) < 60 {
			g.Class(c.kind)
		}
		if resp.Err != "" {
			g.Class("answer:err:" + resp.Err)
		} else {
			g.Class("answer:ok")
		}
		if c.bls {
			g.Class("configs:3(cgo)")
		} else {
			g.Class("configs:4")
		}
		if c.nt {
			g.NonTrivial()
		}
	})
}

var c20Protocols = []string{"feldman_vss", "feldman_vss_qual", "joint_feldman"}

// TestC20_DKG: the full transcript (every message, callback and output) of an
// n-party DKG run on a FIFO schedule is the same in the three cgo configurations.
func TestC20_DKG(t *testing.T) {
	c20MustStart(t)
	gen.Run(t, "C20", func(g *gen.G) {
		proto_ := c20Protocols[g.Pick("protocol", len(c20Protocols))]
		maxN := 5
		if thorough() {
			maxN = 8
		}
		n := g.Int("n", 2, maxN)
		th := g.Int("t", 1, n-1)
		kind := "honest"
		if g.Chance("badThreshold", 1, 20) {
			th = []int{0, n}[g.Pick("badThresholdKind", 2)]
			kind = "badThreshold"
		}
		req := proto.Req{Op: "dkg", Algo: proto_, N: n, T: th, Dealer: g.Int("dealer", 0, n-1), Seed: c20Hex(g.Bytes("seed", 0, 48)), SeedLen: 32}
		switch g.Int("seedLenKind", 0, 9) {
		case 0:
			req.SeedLen, kind = g.Int("shortSeedLen", 1, 31), "shortSeed"
		case 1:
			req.SeedLen = g.Int("longSeedLen", 33, 96)
		}
		if kind == "honest" && g.Chance("corrupt", 1, 4) {
			// one delivered message is damaged in transit: complaint / disqualification paths
			req.Corrupt = []proto.Corrupt{{Msg: g.Int("corruptMsg", 0, 3*n), Bit: g.Int("corruptBit", 0, 1200)}}
			kind = "oneCorruptedMessage"
		}
		resp, ok := c20Compare(g, &req, true)
		if !ok {
			return
		}
		g.Class("dkg:" + proto_)
		g.Class("dkg:" + kind)
		g.Class(fmt.Sprintf("dkg:n=%d", n))
		if resp.Err != "" {
			g.Class("answer:err:" + resp.Err)
			return
		}
		g.Class("answer:ok")
		if ends, _ := resp.Out["end"].([]any); len(ends) > 0 {
			keys := 0
			for _, e := range ends {
				if s, _ := e.(string); strings.HasPrefix(s, "sk=") {
					keys++
				}
			}
			if keys == len(ends) {
				g.Class("dkg:allParticipantsGotKeys")
			} else if keys == 0 {
				g.Class("dkg:noParticipantGotKeys")
			} else {
				g.Class("dkg:someParticipantsGotKeys")
			}
		}
		// the run always generates polynomials and verification vectors in G2
		g.NonTrivial()
	})
}
