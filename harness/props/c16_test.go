package props

// C16 — proofs of possession are sound and domain-separated from every signature.

import (
	"bytes"
	"testing"

	"github.com/onflow/crypto"
	"github.com/onflow/crypto/hash"

	"verifharness/gen"
	"verifharness/oracle/bls381"
	"verifharness/oracle/keccak"
)

const (
	c16H2C      = "BLS12381G1_XOF:KMAC128_SSWU_RO_"
	c16SigSuite = "BLS_SIG_" + c16H2C + "POP_"
	c16PopSuite = "BLS_POP_" + c16H2C + "POP_"
)

// popHasher rebuilds the documented proof-of-possession hasher independently of the library's private instance.
func popHasher(g *gen.G) hash.Hasher {
	h, err := hash.NewKMAC_128([]byte(c16PopSuite), []byte("H2C"), 128)
	if err != nil {
		g.Fatalf("building the PoP hasher failed: %v", err)
	}
	return h
}

func c16Tag(g *gen.G) string {
	switch g.Int("tagKind", 0, 7) {
	case 0:
		return ""
	case 1:
		return string(g.Bytes("tagBytes", 1, 200))
	case 2: // prefixes / suffixes of the two suite strings
		s := []string{c16PopSuite, c16SigSuite}[g.Pick("suite", 2)]
		a := g.Int("from", 0, len(s))
		b := g.Int("to", a, len(s))
		return s[a:b]
	case 3:
		return c16PopSuite
	case 4: // tag such that tag||SIG-suite has the PoP suite as a prefix
		return c16PopSuite + string(g.Bytes("tail", 0, 10))
	case 5: // tag such that tag||SIG-suite ends like the PoP suite would
		return "BLS_POP_" + c16H2C + "POP_" + "BLS_POP_"
	case 6:
		return "BLS_POP_"
	default:
		return string(g.Bytes("prefix", 0, 5)) + c16PopSuite[:g.Int("cut", 0, len(c16PopSuite))]
	}
}

func TestC16_PoP(t *testing.T) {
	gen.Run(t, "C16", func(g *gen.G) {
		k := drawKey(g, "key")
		pkBytes := k.pk.Encode()
		ph := popHasher(g)
		// the library's KMAC output for the PoP suite equals SP 800-185 (oracle)
		if got, want := ph.ComputeHash(pkBytes), keccak.KMAC128([]byte(c16PopSuite), []byte("H2C"), pkBytes, 128); !bytes.Equal(got, want) {
			g.Fatalf("KMAC128 of the public key under the PoP suite differs from SP 800-185")
		}
		H := hashToG1(g, pkBytes, ph)
		S := H.Mul(k.x)
		expected := bls381.G1Compress(S)
		pop, err := crypto.BLSGeneratePOP(k.sk)
		if err != nil {
			g.Fatalf("BLSGeneratePOP: %v", err)
		}
		if !bytes.Equal(pop, expected) {
			g.Fatalf("BLSGeneratePOP(%s key %x) = %x, oracle sk·H_pop(pk) = %x", k.how, scalarBytes(k.x), []byte(pop), expected)
		}
		cands := sigCandidates(g, S, "c")
		k2 := drawKey(g, "key2")
		if k2.x.Cmp(k.x) != 0 {
			p2, _ := crypto.BLSGeneratePOP(k2.sk)
			cands = append(cands, cand{p2, "otherKeysPoP", true})
			// and k's PoP under the other key
			if ok, err := crypto.BLSVerifyPOP(k2.pk, pop); ok || err != nil {
				g.Fatalf("BLSVerifyPOP(other key, PoP) = (%v, %v)", ok, err)
			}
		}
		acc, rej := 0, 0
		for _, c := range cands {
			ok, err := crypto.BLSVerifyPOP(k.pk, c.b)
			want := bytes.Equal(c.b, expected)
			if err != nil || ok != want {
				g.Fatalf("BLSVerifyPOP(%s candidate %x) = (%v, %v), exact PoP is %x", c.kind, c.b, ok, err, expected)
			}
			if ok {
				acc++
			} else if c.isPoint {
				rej++
			}
		}
		for i, idk := range identityKeys(g, k) {
			for _, c := range cands {
				if ok, err := crypto.BLSVerifyPOP(idk, c.b); ok || err != nil {
					g.Fatalf("BLSVerifyPOP under identity key #%d accepted %s candidate (ok=%v err=%v)", i, c.kind, ok, err)
				}
			}
		}
		// domain separation
		tag := c16Tag(g)
		sh := crypto.NewExpandMsgXOFKMAC128(tag)
		sig, err := k.sk.Sign(pkBytes, sh)
		if err != nil {
			g.Fatalf("Sign: %v", err)
		}
		if ok, err := crypto.BLSVerifyPOP(k.pk, sig); ok || err != nil {
			g.Fatalf("a signature of the public key bytes under NewExpandMsgXOFKMAC128(%q) verified as a proof of possession (%v, %v)", tag, ok, err)
		}
		if ok, err := k.pk.Verify(pop, pkBytes, sh); ok || err != nil {
			g.Fatalf("the proof of possession verified as a signature of the public key bytes under tag %q (%v, %v)", tag, ok, err)
		}
		msg := g.Bytes("msg", 0, 40)
		sig2, _ := k.sk.Sign(msg, sh)
		if ok, _ := crypto.BLSVerifyPOP(k.pk, sig2); ok {
			g.Fatalf("a signature of %x under tag %q verified as a proof of possession", msg, tag)
		}
		if ok, _ := k.pk.Verify(pop, msg, sh); ok {
			g.Fatalf("the proof of possession verified as a signature of %x under tag %q", msg, tag)
		}
		if bytes.Equal(sig, pop) {
			g.Fatalf("signature of the public key under tag %q equals the proof of possession", tag)
		}
		crafted := len(tag) > 0 && (bytes.Contains([]byte(tag), []byte("BLS_")) || bytes.Contains([]byte(c16PopSuite), []byte(tag)))
		if crafted {
			g.Class("craftedTag")
		}
		g.Class("key:" + k.how)
		if crafted || (acc >= 1 && rej >= 1) {
			g.NonTrivial()
		}
	})
}

func TestC16_NonBLS(t *testing.T) {
	gen.Run(t, "C16", func(g *gen.G) {
		ek := ecdsaKey(g)
		if p, err := crypto.BLSGeneratePOP(ek); p != nil || !crypto.IsNotBLSKeyError(err) {
			g.Fatalf("BLSGeneratePOP(ECDSA key) = (%x, %v)", []byte(p), err)
		}
		s := g.Bytes("sig", 0, 100)
		if ok, err := crypto.BLSVerifyPOP(ek.PublicKey(), s); ok || !crypto.IsNotBLSKeyError(err) {
			g.Fatalf("BLSVerifyPOP(ECDSA key) = (%v, %v)", ok, err)
		}
		g.NonTrivial()
	})
}
