package props

// C13 — hashers and KMAC128 equal their standards for all inputs and chunkings.

import (
	"bytes"
	"fmt"
	"testing"

	"github.com/onflow/crypto/hash"

	"verifharness/gen"
	"verifharness/oracle/keccak"
	"verifharness/oracle/sha2"
)

type hashAlgo struct {
	name      string
	rate      int // block size driving the buffer logic
	mk        func() hash.Hasher
	ref       func([]byte) []byte
	sumFinal  bool // SumHash finalizes: Reset is required before further writes (SHA-3 / Keccak)
	compFinal bool // ComputeHash leaves a state that needs Reset (SHA-3 / Keccak)
	compCont  bool // ComputeHash(x) is documented to leave the stream at x, open for further writing (SHA-2)
	algo      hash.HashingAlgorithm
	size      int
}

var c13KmacKey = []byte("verif-kmac-key-0123456789abcdef")
var c13KmacCust = []byte("cust")

func c13Algos() []hashAlgo {
	return []hashAlgo{
		{"SHA2_256", 64, hash.NewSHA2_256, sha2.SHA256, false, false, true, hash.SHA2_256, 32},
		{"SHA2_384", 128, hash.NewSHA2_384, sha2.SHA384, false, false, true, hash.SHA2_384, 48},
		{"SHA3_256", 136, hash.NewSHA3_256, keccak.SHA3_256, true, true, false, hash.SHA3_256, 32},
		{"SHA3_384", 104, hash.NewSHA3_384, keccak.SHA3_384, true, true, false, hash.SHA3_384, 48},
		{"Keccak_256", 136, hash.NewKeccak_256, keccak.Keccak256, true, true, false, hash.Keccak_256, 32},
		{"KMAC128", 168, func() hash.Hasher {
			h, err := hash.NewKMAC_128(c13KmacKey, c13KmacCust, 40)
			if err != nil {
				panic(err)
			}
			return h
		}, func(m []byte) []byte { return keccak.KMAC128(c13KmacKey, c13KmacCust, m, 40) }, false, false, false, hash.KMAC128, 40},
	}
}

// TestC13_LengthSplit: every message length 0..k·rate, with generated multi-way
// splits (quick) and every two-way split (thorough), against the standards.
func TestC13_LengthSplit(t *testing.T) {
	algos := c13Algos()
	gen.Run(t, "C13", func(g *gen.G) {
		a := algos[g.Pick("algo", len(algos))]
		content := g.Uint64("content")
		maxL := 2 * a.rate
		if thorough() {
			maxL = 4 * a.rate
		}
		// a generated cycle of chunk sizes, biased to the buffer boundaries
		pat := make([]int, g.Int("patLen", 1, 5))
		for i := range pat {
			switch g.Int("chunkKind", 0, 3) {
			case 0:
				pat[i] = g.Int("chunk", 0, 3)
			case 1:
				pat[i] = a.rate + g.Int("chunkDelta", -2, 2)
			case 2:
				pat[i] = g.Int("chunk", 0, 2*a.rate+3)
			default:
				pat[i] = g.Int("chunk", 1, a.rate-1)
			}
		}
		allPatZero := true
		for _, p := range pat {
			if p > 0 {
				allPatZero = false
			}
		}
		if allPatZero {
			pat = append(pat, 1)
		}
		h := a.mk()
		var n, nt int64
		for L := 0; L <= maxL; L++ {
			msg := gen.ExpandSeed(content+uint64(L), L)
			want := a.ref(msg)
			// (a) one-shot ComputeHash on a dirty object
			if got := h.ComputeHash(msg); !bytes.Equal(got, want) {
				g.Fatalf("%s: ComputeHash of a %d-byte message differs from the standard: got %x want %x", a.name, L, []byte(got), want)
			}
			// (b) Reset + pattern split + SumHash
			h.Reset()
			for off, i := 0, 0; off < L; i++ {
				c := pat[i%len(pat)]
				if c > L-off {
					c = L - off
				}
				if w, err := h.Write(msg[off : off+c]); err != nil || w != c {
					g.Fatalf("%s: Write returned (%d, %v) for %d bytes", a.name, w, err, c)
				}
				off += c
			}
			if got := h.SumHash(); !bytes.Equal(got, want) {
				g.Fatalf("%s: Reset + Write in chunks %v + SumHash of a %d-byte message differs from the standard: got %x want %x", a.name, pat, L, []byte(got), want)
			}
			n += 2
			if L >= a.rate {
				nt++
			}
			// (c) every two-way split
			if thorough() && L <= 2*a.rate || L <= a.rate+2 {
				for s := 0; s <= L; s++ {
					h.Reset()
					_, _ = h.Write(msg[:s])
					_, _ = h.Write(msg[s:])
					if got := h.SumHash(); !bytes.Equal(got, want) {
						g.Fatalf("%s: Write(%d bytes) + Write(%d bytes) + SumHash differs from the standard digest of the %d-byte message", a.name, s, L-s, L)
					}
					n++
					if s > 0 && s < L {
						nt++
					}
				}
			}
			h.Reset()
		}
		gen.Count(n, nt)
		gen.CountClass("lengthSplit:"+a.name, n)
		g.Class("enumeration:" + a.name)
		g.NonTrivial()
	})
	if thorough() {
		gen.Exhaustive("C13: for the algorithms drawn, every message length 0..4·rate (one content per length) with ComputeHash and a generated chunk pattern, and every two-way split for lengths ≤ 2·rate")
	}
}

// TestC13_History: model-based state machine on one hasher object.
func TestC13_History(t *testing.T) {
	algos := c13Algos()
	gen.Run(t, "C13", func(g *gen.G) {
		a := algos[g.Pick("algo", len(algos))]
		h := a.mk()
		if h.Algorithm() != a.algo || h.Size() != a.size {
			g.Fatalf("%s: Algorithm()/Size() = %v/%d", a.name, h.Algorithm(), h.Size())
		}
		// outputs handed out earlier must not change when the object is used further (no aliasing of internal buffers)
		type kept struct{ out, copyOf []byte }
		var outs []kept
		keep := func(o []byte) { outs = append(outs, kept{o, append([]byte{}, o...)}) }
		checkKept := func(when string) {
			for i, k := range outs {
				if !bytes.Equal(k.out, k.copyOf) {
					g.Fatalf("%s: digest #%d returned earlier changed %s: it was %x, the same slice now holds %x", a.name, i, when, k.copyOf, k.out)
				}
			}
		}
		var stream []byte  // bytes absorbed since the last reset
		needReset := false // documentation requires Reset before anything but ComputeHash/Reset
		steps := g.Int("steps", 1, 25)
		ops := map[string]bool{}
		crossed := false
		for i := 0; i < steps; i++ {
			act := g.Int("action", 0, 9)
			if needReset && act <= 5 {
				act = 6 + act%2 // only Reset (6) or ComputeHash (7) are specified here
			}
			switch act {
			case 0, 1, 2, 3: // Write
				var k int
				switch g.Int("wkind", 0, 3) {
				case 0:
					k = g.Int("wlen", 0, 4)
				case 1:
					k = a.rate - len(stream)%a.rate + g.Int("wdelta", -1, 1) // fill the buffer to the boundary ±1
					if k < 0 {
						k = 0
					}
				case 2:
					k = g.Int("wlen", 0, 3*a.rate)
				default:
					k = a.rate * g.Int("wblocks", 1, 3)
				}
				chunk := g.Expand("wdata", k)
				before := len(stream) / a.rate
				if w, err := h.Write(chunk); err != nil || w != k {
					g.Fatalf("%s: Write returned (%d, %v) for %d bytes", a.name, w, err, k)
				}
				stream = append(stream, chunk...)
				if len(stream)/a.rate != before {
					crossed = true
				}
				ops["write"] = true
			case 4, 5: // SumHash
				got := h.SumHash()
				if want := a.ref(stream); !bytes.Equal(got, want) {
					g.Fatalf("%s: SumHash after %d absorbed bytes differs from the standard: got %x want %x", a.name, len(stream), []byte(got), want)
				}
				if a.sumFinal {
					needReset = true
				}
				keep(got)
				ops["sum"] = true
			case 6: // Reset
				h.Reset()
				stream = stream[:0]
				needReset = false
				ops["reset"] = true
			case 7, 8: // ComputeHash: independent of anything written before
				x := g.Expand("cdata", g.Int("clen", 0, 2*a.rate+5))
				got := h.ComputeHash(x)
				if want := a.ref(x); !bytes.Equal(got, want) {
					g.Fatalf("%s: ComputeHash(%d bytes) on an object with %d absorbed bytes differs from the standard: got %x want %x", a.name, len(x), len(stream), []byte(got), want)
				}
				if a.compFinal {
					needReset = true // SHA-3 / Keccak: Reset is required before further use
				}
				if a.compCont {
					// SHA-2: "updates the state ... does not reset the state to allow further writing": the stream is now x
					stream = append(stream[:0], x...)
				}
				keep(got)
				ops["compute"] = true
			case 9: // one-shot helpers
				x := g.Expand("hdata", g.Int("hlen", 0, 300))
				var r2 [32]byte
				hash.ComputeSHA2_256(&r2, x)
				if !bytes.Equal(r2[:], sha2.SHA256(x)) {
					g.Fatalf("ComputeSHA2_256(%d bytes) differs from FIPS 180-4", len(x))
				}
				var r3 [32]byte
				hash.ComputeSHA3_256(&r3, x)
				if !bytes.Equal(r3[:], keccak.SHA3_256(x)) {
					g.Fatalf("ComputeSHA3_256(%d bytes) differs from FIPS 202", len(x))
				}
				ops["helper"] = true
			}
		}
		if !needReset {
			got := h.SumHash()
			if want := a.ref(stream); !bytes.Equal(got, want) {
				g.Fatalf("%s: final SumHash after %d absorbed bytes differs from the standard", a.name, len(stream))
			}
		}
		checkKept("after the later operations on the hasher")
		g.Class("algo:" + a.name)
		if crossed {
			g.Class("crossedBlockBoundary")
		}
		if len(ops) >= 2 || crossed {
			g.NonTrivial()
		}
	})
}

// kmacKeyLen draws a key length biased to the lengths whose encoding fills
// cSHAKE blocks exactly (168·k − 2 − len(left_encode(8·len))).
func kmacKeyLen(g *gen.G) int {
	switch g.Int("keyKind", 0, 3) {
	case 0:
		return g.Int("keyLenA", 158, 170)
	case 1:
		return g.Int("keyLenB", 326, 336)
	case 2:
		return g.Int("keyLen", 16, 40)
	default:
		return g.Int("keyLen", 16, 700)
	}
}

// TestC13_KMACParams: all key / customizer lengths and output sizes.
func TestC13_KMACParams(t *testing.T) {
	gen.Run(t, "C13", func(g *gen.G) {
		kl := kmacKeyLen(g)
		key := g.Expand("key", kl)
		cust := g.Expand("cust", g.Int("custLen", 0, 200))
		if g.Chance("custNear", 1, 5) {
			cust = g.Expand("cust2", 150+g.Int("custLenNear", 0, 25)) // customizer encoding near a block boundary
		}
		outLen := g.Int("outLen", 0, 1000)
		if g.Chance("outSmall", 1, 3) {
			outLen = g.Int("outLenSmall", 0, 3)
		}
		h, err := hash.NewKMAC_128(key, cust, outLen)
		if err != nil {
			g.Fatalf("NewKMAC_128(key %d bytes, customizer %d bytes, size %d) failed: %v", kl, len(cust), outLen, err)
		}
		if h.Size() != outLen {
			g.Fatalf("Size() = %d, want %d", h.Size(), outLen)
		}
		msg := g.Expand("msg", g.Int("msgLen", 0, 400))
		want := keccak.KMAC128(key, cust, msg, outLen)
		got := h.ComputeHash(msg)
		if !bytes.Equal(got, want) {
			g.Fatalf("KMAC128(key %d bytes, customizer %d bytes, L=%d) of a %d-byte message differs from SP 800-185: got %x… want %x…", kl, len(cust), outLen, len(msg), head(got), head(want))
		}
		// ComputeHash leaves the stream untouched; chunked stream; SumHash does not finalize
		s := g.Int("split", 0, len(msg))
		_, _ = h.Write(msg[:s])
		if got := h.ComputeHash([]byte("unrelated")); !bytes.Equal(got, keccak.KMAC128(key, cust, []byte("unrelated"), outLen)) {
			g.Fatalf("KMAC128 ComputeHash with a non-empty stream differs from SP 800-185")
		}
		if got := h.SumHash(); !bytes.Equal(got, keccak.KMAC128(key, cust, msg[:s], outLen)) {
			g.Fatalf("KMAC128 SumHash after Write(%d) (+ an interleaved ComputeHash) differs from SP 800-185", s)
		}
		_, _ = h.Write(msg[s:])
		if got := h.SumHash(); !bytes.Equal(got, want) {
			g.Fatalf("KMAC128: writing on after SumHash does not continue the same stream (key %d bytes, split %d/%d)", kl, s, len(msg))
		}
		h.Reset()
		_, _ = h.Write(msg)
		if got := h.SumHash(); !bytes.Equal(got, want) {
			g.Fatalf("KMAC128: Reset + Write + SumHash differs from SP 800-185 (key %d bytes)", kl)
		}
		g.Class(fmt.Sprintf("keyLenMod168=%d", (kl+5)%168/42))
		g.NonTrivial(fmt.Sprintf("%d/%d/%d/%d", kl, len(cust), outLen, len(msg)))
	})
}

// TestC13_KMACEveryKeyLen: every key length 16..N (thorough: 16..700).
func TestC13_KMACEveryKeyLen(t *testing.T) {
	gen.Run(t, "C13", func(g *gen.G) {
		max := 400
		if thorough() {
			max = 700
		}
		seed := g.Uint64("content")
		cl := g.Int("custLen", 0, 40)
		cust := gen.ExpandSeed(seed^0x55, cl)
		msg := gen.ExpandSeed(seed^0xaa, g.Int("msgLen", 0, 200))
		for kl := 16; kl <= max; kl++ {
			key := gen.ExpandSeed(seed+uint64(kl), kl)
			h, err := hash.NewKMAC_128(key, cust, 32)
			if err != nil {
				g.Fatalf("NewKMAC_128 with a %d-byte key failed: %v", kl, err)
			}
			if got, want := h.ComputeHash(msg), keccak.KMAC128(key, cust, msg, 32); !bytes.Equal(got, want) {
				g.Fatalf("KMAC128 with a %d-byte key (customizer %d bytes, message %d bytes) differs from SP 800-185: got %x want %x", kl, cl, len(msg), []byte(got), want)
			}
			_, _ = h.Write(msg)
			if got, want := h.SumHash(), keccak.KMAC128(key, cust, msg, 32); !bytes.Equal(got, want) {
				g.Fatalf("KMAC128 Write+SumHash with a %d-byte key differs from SP 800-185", kl)
			}
		}
		gen.Count(int64(2*(max-15)), int64(max-15))
		g.Class("everyKeyLength")
		g.NonTrivial()
	})
	gen.Exhaustive("C13: every KMAC128 key length 16..400 (thorough 16..700) for the drawn customizer/message")
}

// TestC13_KMACInvalid: shorter keys or negative output sizes are rejected.
func TestC13_KMACInvalid(t *testing.T) {
	gen.Run(t, "C13", func(g *gen.G) {
		kl := g.Int("keyLen", 0, 40)
		out := g.Int("outLen", -5, 40)
		if g.Chance("hugeNeg", 1, 10) {
			out = -1 << uint(g.Int("negBits", 1, 62))
		}
		var key []byte
		if kl > 0 || g.Bool("emptyNotNil") {
			key = g.Expand("key", kl)
		}
		h, err := hash.NewKMAC_128(key, nil, out)
		wantOK := kl >= 16 && out >= 0
		if wantOK != (err == nil) {
			g.Fatalf("NewKMAC_128(key %d bytes, size %d): err = %v, expected ok = %v", kl, out, err, wantOK)
		}
		if err != nil && h != nil {
			g.Fatalf("NewKMAC_128 returned both a hasher and an error")
		}
		if !wantOK {
			g.NonTrivial(fmt.Sprintf("%d/%d", kl, out))
			g.Class("rejected")
		}
	})
}
