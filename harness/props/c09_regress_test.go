package props

// C09 — plain regression calls (shrunk failures found by TestC09_Calls and by
// the other properties), executed without any generated input.

import (
	"fmt"
	"runtime/debug"
	"testing"

	"github.com/onflow/crypto"
	"github.com/onflow/crypto/hash"

	"verifharness/gen"
	"verifharness/sim"
)

func TestC09_Regressions(t *testing.T) {
	gen.Run(t, "C09", func(g *gen.G) {
		n := 0
		try := func(name string, f func()) {
			n++
			defer func() {
				if r := recover(); r != nil {
					g.Fatalf("%s panicked: %v\n%s", name, r, string(debug.Stack()))
				}
			}()
			g.Journal(name)
			f()
		}
		sig48 := make([]byte, 48)
		// F8: empty / nil BLS private key
		try("DecodePrivateKey(BLS, empty)", func() {
			for _, b := range [][]byte{nil, {}} {
				if sk, err := crypto.DecodePrivateKey(crypto.BLSBLS12381, b); sk != nil || !crypto.IsInvalidInputsError(err) {
					g.Fatalf("DecodePrivateKey(BLS, empty) = (%v, %v)", sk, err)
				}
			}
		})
		// F9: undefined enum values
		try("String() of undefined enum values", func() {
			for _, v := range []int{-2, -1, 4, 5, 100, 1 << 31} {
				_ = crypto.SigningAlgorithm(v).String()
				_ = hash.HashingAlgorithm(v).String()
				if _, err := crypto.SignatureFormatCheck(crypto.SigningAlgorithm(v), sig48); err == nil {
					g.Fatalf("SignatureFormatCheck(algo %d) returned no error", v)
				}
				if _, err := crypto.GeneratePrivateKey(crypto.SigningAlgorithm(v), make([]byte, 32)); err == nil {
					g.Fatalf("GeneratePrivateKey(algo %d) returned no error", v)
				}
				_, _ = crypto.DecodePrivateKey(crypto.SigningAlgorithm(v), make([]byte, 32))
				_, _ = crypto.DecodePublicKey(crypto.SigningAlgorithm(v), make([]byte, 64))
				_, _ = crypto.DecodePublicKeyCompressed(crypto.SigningAlgorithm(v), make([]byte, 33))
			}
		})
		// F7: JointFeldman.ForceDisqualify out of range
		try("JointFeldman.ForceDisqualify(out of range)", func() {
			inst, _ := crypto.NewJointFeldman(3, 1, 0, nopProc{})
			_ = inst.Start(make([]byte, 32))
			for _, p := range []int{-1, 3, 4, 255, 256, 1 << 20, -1 << 31} {
				if err := inst.ForceDisqualify(p); !crypto.IsInvalidInputsError(err) {
					g.Fatalf("JointFeldman.ForceDisqualify(%d) = %v", p, err)
				}
			}
		})
		// F11: dealer whose Start failed receives a complaint
		for _, proto := range []sim.Protocol{sim.FeldmanVSSQual, sim.JointFeldman, sim.FeldmanVSS} {
			try(fmt.Sprintf("%v dealer: Start(short seed) then a complaint", proto), func() {
				c := c10New(g, proto, 2, 1, 0, 0)
				if err := c.inst.Start(nil); !crypto.IsInvalidInputsError(err) {
					g.Fatalf("Start(nil seed) = %v", err)
				}
				if c.inst.Running() {
					g.Fatalf("%v: instance is running after Start failed", proto)
				}
				_ = c.inst.HandleBroadcastMsg(1, []byte{sim.TagComplaint, 0})
				_ = c.inst.HandlePrivateMsg(1, []byte{0})
				_ = c.inst.NextTimeout()
				_, _, _, _ = c.inst.End()
			})
		}
		// F6: plain Feldman VSS, wrong-size vector then a share
		try("FeldmanVSS: wrong-size vector then share", func() {
			c := c10New(g, sim.FeldmanVSS, 3, 1, 1, 0)
			_ = c.inst.Start(nil)
			_ = c.inst.HandleBroadcastMsg(0, append([]byte{sim.TagVector}, make([]byte, 191)...))
			_ = c.inst.HandlePrivateMsg(0, append([]byte{sim.TagShare}, scalarBytes(one)...))
			if _, _, _, err := c.inst.End(); !crypto.IsDKGFailureError(err) {
				g.Fatalf("End after an invalid vector = %v", err)
			}
		})
		// F10: empty / short shares in threshold reconstruction
		try("threshold reconstruction with empty shares", func() {
			for _, sh := range [][]crypto.Signature{{nil, nil}, {{}, {}}, {{1}, {2}}, {sig48[:47], sig48[:47]}} {
				if s, err := crypto.BLSReconstructThresholdSignature(3, 1, sh, []int{0, 1}); s != nil || !crypto.IsInvalidSignatureError(err) {
					g.Fatalf("BLSReconstructThresholdSignature(%x) = (%x, %v)", sh, []byte(s), err)
				}
			}
			_, pks, gpk, _ := crypto.BLSThresholdKeyGen(3, 1, make([]byte, 32))
			ins, _ := crypto.NewBLSThresholdSignatureInspector(gpk, pks, 1, []byte("m"), "t")
			_, _ = ins.TrustedAdd(0, nil)
			_, _ = ins.TrustedAdd(1, []byte{})
			if s, err := ins.ThresholdSignature(); s != nil || !crypto.IsInvalidSignatureError(err) {
				g.Fatalf("ThresholdSignature() with empty shares = (%x, %v)", []byte(s), err)
			}
		})
		// signature lists with nil / empty elements
		try("AggregateBLSSignatures with nil elements", func() {
			for _, l := range [][]crypto.Signature{nil, {}, {nil}, {{}}, {sig48, nil}} {
				if s, err := crypto.AggregateBLSSignatures(l); s != nil || err == nil {
					g.Fatalf("AggregateBLSSignatures(%x) = (%x, %v)", l, []byte(s), err)
				}
			}
		})
		gen.Count(int64(n), int64(n))
		g.Class("regressionCalls")
		g.NonTrivial()
	})
}
