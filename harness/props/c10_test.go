package props

// C10 — DKG instances follow the documented single-use state machine.

import (
	"bytes"
	"fmt"
	"strings"
	"testing"

	"github.com/onflow/crypto"

	"verifharness/gen"
	"verifharness/sim"
)

// c10Proc records everything an instance emits.
type c10Proc struct{ log []string }

func (p *c10Proc) PrivateSend(dest int, data []byte) {
	p.log = append(p.log, fmt.Sprintf("send %d %x", dest, data))
}
func (p *c10Proc) Broadcast(data []byte) { p.log = append(p.log, fmt.Sprintf("bcast %x", data)) }
func (p *c10Proc) Disqualify(i int, log string) {
	p.log = append(p.log, fmt.Sprintf("disqualify %d", i))
}
func (p *c10Proc) FlagMisbehavior(i int, log string) {
	p.log = append(p.log, fmt.Sprintf("flag %d", i))
}

type c10Inst struct {
	inst crypto.DKGState
	proc *c10Proc
	// End result
	res string
}

func c10New(g *gen.G, proto sim.Protocol, n, t, me, dealer int) *c10Inst {
	p := &c10Proc{}
	var inst crypto.DKGState
	var err error
	switch proto {
	case sim.FeldmanVSS:
		inst, err = crypto.NewFeldmanVSS(n, t, me, p, dealer)
	case sim.FeldmanVSSQual:
		inst, err = crypto.NewFeldmanVSSQual(n, t, me, p, dealer)
	default:
		inst, err = crypto.NewJointFeldman(n, t, me, p)
	}
	if err != nil {
		g.Fatalf("constructor: %v", err)
	}
	if inst.Size() != n || inst.Threshold() != t || inst.Running() {
		g.Fatalf("fresh instance: Size/Threshold/Running = %d/%d/%v", inst.Size(), inst.Threshold(), inst.Running())
	}
	return &c10Inst{inst: inst, proc: p}
}

const (
	c10New_ = iota
	c10Running
	c10Ended
)

func errClass(err error) string {
	switch {
	case err == nil:
		return "nil"
	case crypto.IsDKGInvalidStateTransitionError(err):
		return "state"
	case crypto.IsInvalidInputsError(err):
		return "input"
	case crypto.IsDKGFailureError(err):
		return "dkg-failure"
	default:
		return "other: " + err.Error()
	}
}

func TestC10_StateMachine(t *testing.T) {
	gen.Run(t, "C10", func(g *gen.G) {
		proto := sim.Protocol(g.Int("protocol", 0, 2))
		n := g.Int("n", 2, 5)
		th := g.Int("t", 1, n-1)
		me := g.Pick("me", n)
		dealer := g.Pick("dealer", n)
		isDealer := proto == sim.JointFeldman || dealer == me
		qual := proto != sim.FeldmanVSS
		seed := g.Bytes("seed", 32, 48)

		// real payloads from other participants run with the same parameters
		type payload struct {
			orig  int
			bcast bool
			data  []byte
		}
		var pool []payload
		for o := 0; o < n; o++ {
			if o == me || (proto != sim.JointFeldman && o != dealer) {
				continue
			}
			src := c10New(g, proto, n, th, o, dealer)
			if err := src.inst.Start(gen.ExpandSeed(uint64(o)+77, 32)); err != nil {
				g.Fatalf("source Start: %v", err)
			}
			for _, l := range src.proc.log {
				var dest int
				var hx string
				if _, err := fmt.Sscanf(l, "send %d %s", &dest, &hx); err == nil && dest == me {
					pool = append(pool, payload{o, false, unhex(hx)})
				} else if _, err := fmt.Sscanf(l, "bcast %s", &hx); err == nil {
					pool = append(pool, payload{o, true, unhex(hx)})
				}
			}
		}
		junk := func() payload {
			o := g.Pick("junkOrig", n)
			var d []byte
			switch g.Int("junkKind", 0, 7) {
			case 5, 6, 7: // a well-formed complaint against a dealer, from another participant
				target := dealer
				if proto == sim.JointFeldman {
					target = g.Pick("complaintAgainst", n)
				}
				if o == me {
					o = (o + 1) % n
				}
				d = []byte{sim.TagComplaint, byte(target)}
				return payload{o, true, d}
			case 0:
				d = []byte{}
			case 1:
				d = []byte{sim.TagComplaint, byte(g.Int("complainee", 0, n))}
			case 2:
				d = append([]byte{sim.TagAnswer, byte(g.Int("complainer", 0, n))}, g.Bytes("ans", 32, 32)...)
			case 3:
				d = append([]byte{byte(g.Int("tag", 0, 6))}, g.Bytes("junkBody", 0, 100)...)
			default:
				d = g.Bytes("junkRaw", 0, 40)
			}
			return payload{o, g.Bool("junkBcast"), d}
		}

		A := c10New(g, proto, n, th, me, dealer) // receives only the calls the model accepts
		B := c10New(g, proto, n, th, me, dealer) // additionally receives calls that must be rejected
		state, timeouts := c10New_, 0
		rejectedAfterStart, steps := 0, g.Int("steps", 1, 25)
		if thorough() {
			steps = g.Int("stepsMore", steps, 40)
		}
		bad := []int{-1, n, n + 1, 255, 256, 1 << 20, -1 << 31, me + 256, me - 256, me + 512, dealer + 256, dealer - 256}
		var trace []string
		call := func(name string, want string, effective bool, f func(c *c10Inst) error) {
			trace = append(trace, fmt.Sprintf("%s -> %s", name, want))
			if got := errClass(f(B)); got != want {
				g.Fatalf("%v (n=%d t=%d me=%d dealer=%d): %s returned error class %q, the documented state machine prescribes %q\ncalls so far:\n  %s", proto, n, th, me, dealer, name, got, want, strings.Join(trace, "\n  "))
			}
			if effective {
				if got := errClass(f(A)); got != want {
					g.Fatalf("%v: %s returned %q on the reference instance, expected %q", proto, name, got, want)
				}
			} else if state == c10Running {
				rejectedAfterStart++
			}
			wantRunning := state == c10Running
			if A.inst.Running() != wantRunning || B.inst.Running() != wantRunning {
				g.Fatalf("%v: Running() = %v/%v after %s, model says %v\n  %s", proto, A.inst.Running(), B.inst.Running(), name, wantRunning, strings.Join(trace, "\n  "))
			}
		}
		for i := 0; i < steps && state != c10Ended; i++ {
			act := g.Int("action", 0, 11)
			if state == c10New_ && g.Chance("startNow", 1, 3) {
				act = 0
			}
			switch act {
			case 0: // Start
				if state == c10New_ && isDealer && g.Chance("shortSeedFirst", 1, 5) {
					// a dealer's Start with a seed that is too short is refused with the invalid-inputs error and does not start
					// the instance: a rejected call like any other (the valid Start that follows must succeed)
					short := g.Bytes("shortSeed", 0, 31)
					call(fmt.Sprintf("Start(%d-byte seed)", len(short)), "input", false, func(c *c10Inst) error { return c.inst.Start(short) })
					g.Class("startWithShortSeedRefused")
				}
				if state == c10New_ {
					state = c10Running
					call("Start(seed)", "nil", true, func(c *c10Inst) error { return c.inst.Start(seed) })
				} else {
					call("Start(seed) while running", "state", false, func(c *c10Inst) error { return c.inst.Start(seed) })
				}
			case 1, 2: // NextTimeout
				switch {
				case !qual:
					call("NextTimeout()", "nil", true, func(c *c10Inst) error { return c.inst.NextTimeout() })
				case state == c10Running && timeouts < 2:
					timeouts++
					call(fmt.Sprintf("NextTimeout() #%d", timeouts), "nil", true, func(c *c10Inst) error { return c.inst.NextTimeout() })
				default:
					call("NextTimeout() (not allowed)", "state", false, func(c *c10Inst) error { return c.inst.NextTimeout() })
				}
			case 3: // End
				if state == c10Running && (!qual || timeouts == 2) {
					state = c10Ended
					end := func(c *c10Inst) error {
						sk, gpk, pks, err := c.inst.End()
						if err != nil {
							if sk != nil || gpk != nil || pks != nil {
								g.Fatalf("End returned both keys and an error")
							}
							c.res = errClass(err)
							if c.res == "dkg-failure" {
								return nil
							}
							return err
						}
						c.res = fmt.Sprintf("%x/%x/%d", sk.Encode(), gpk.Encode(), len(pks))
						return nil
					}
					call("End()", "nil", true, end)
				} else {
					call("End() (not allowed)", "state", false, func(c *c10Inst) error { _, _, _, err := c.inst.End(); return err })
				}
			case 4, 5, 6: // handler with an in-range origin
				var p payload
				if len(pool) > 0 && g.Chance("realPayload", 2, 3) {
					p = pool[g.Pick("payload", len(pool))]
				} else {
					p = junk()
				}
				name := fmt.Sprintf("HandlePrivateMsg(%d, %s)", p.orig, sim.Describe(p.data))
				f := func(c *c10Inst) error { return c.inst.HandlePrivateMsg(p.orig, p.data) }
				if p.bcast {
					name = fmt.Sprintf("HandleBroadcastMsg(%d, %s)", p.orig, sim.Describe(p.data))
					f = func(c *c10Inst) error { return c.inst.HandleBroadcastMsg(p.orig, p.data) }
				}
				if state == c10Running {
					call(name, "nil", true, f)
				} else {
					call(name+" (not running)", "state", false, f)
				}
			case 7, 8: // handler with an out-of-range origin
				o := bad[g.Pick("badOrig", len(bad))]
				d := g.Bytes("badOrigData", 0, 40)
				want := "input"
				if state != c10Running {
					want = "state"
				}
				if g.Bool("badOrigBcast") {
					call(fmt.Sprintf("HandleBroadcastMsg(%d, …)", o), want, false, func(c *c10Inst) error { return c.inst.HandleBroadcastMsg(o, d) })
				} else {
					call(fmt.Sprintf("HandlePrivateMsg(%d, …)", o), want, false, func(c *c10Inst) error { return c.inst.HandlePrivateMsg(o, d) })
				}
			case 9: // ForceDisqualify in range
				p := g.Pick("disqualify", n)
				if state == c10Running {
					call(fmt.Sprintf("ForceDisqualify(%d)", p), "nil", true, func(c *c10Inst) error { return c.inst.ForceDisqualify(p) })
				} else {
					call(fmt.Sprintf("ForceDisqualify(%d) (not running)", p), "state", false, func(c *c10Inst) error { return c.inst.ForceDisqualify(p) })
				}
			case 10: // ForceDisqualify out of range
				p := bad[g.Pick("badParticipant", len(bad))]
				if knownActive("F7") && proto == sim.JointFeldman && state == c10Running {
					g.Class("excluded:F7")
					continue
				}
				want := "input"
				if state != c10Running {
					want = "state"
				}
				call(fmt.Sprintf("ForceDisqualify(%d)", p), want, false, func(c *c10Inst) error { return c.inst.ForceDisqualify(p) })
			default:
				if A.inst.Running() != (state == c10Running) {
					g.Fatalf("Running() = %v", A.inst.Running())
				}
			}
		}
		// drive both instances to End so that the results can be compared
		if state == c10New_ {
			state = c10Running
			call("Start(seed)", "nil", true, func(c *c10Inst) error { return c.inst.Start(seed) })
		}
		if state == c10Running {
			for qual && timeouts < 2 {
				timeouts++
				call("NextTimeout() (closing)", "nil", true, func(c *c10Inst) error { return c.inst.NextTimeout() })
			}
			state = c10Ended
			for _, c := range []*c10Inst{A, B} {
				sk, gpk, _, err := c.inst.End()
				if err != nil {
					c.res = errClass(err)
					if c.res != "dkg-failure" {
						g.Fatalf("%v: closing End returned %v\n  %s", proto, err, strings.Join(trace, "\n  "))
					}
				} else {
					c.res = fmt.Sprintf("%x/%x", sk.Encode(), gpk.Encode())
				}
			}
		}
		// after End everything is refused with a state-transition error and the instance is not running
		for _, c := range []*c10Inst{A, B} {
			if c.inst.Running() {
				g.Fatalf("%v: Running() is true after End", proto)
			}
			if e := errClass(c.inst.HandleBroadcastMsg(0, []byte{1})); e != "state" {
				g.Fatalf("%v: HandleBroadcastMsg after End returned %q", proto, e)
			}
			if e := errClass(c.inst.HandlePrivateMsg(0, []byte{0})); e != "state" {
				g.Fatalf("%v: HandlePrivateMsg after End returned %q", proto, e)
			}
			if e := errClass(c.inst.ForceDisqualify(0)); e != "state" {
				g.Fatalf("%v: ForceDisqualify after End returned %q", proto, e)
			}
			if _, _, _, err := c.inst.End(); errClass(err) != "state" {
				g.Fatalf("%v: second End returned %q", proto, errClass(err))
			}
			if qual {
				if e := errClass(c.inst.NextTimeout()); e != "state" {
					g.Fatalf("%v: NextTimeout after End returned %q", proto, e)
				}
			}
		}
		// non-interference: rejected calls changed nothing observable
		if A.res != B.res {
			g.Fatalf("%v (n=%d t=%d me=%d dealer=%d): the instance that also received rejected calls ends with %s, the reference instance with %s\n  %s", proto, n, th, me, dealer, B.res, A.res, strings.Join(trace, "\n  "))
		}
		if strings.Join(A.proc.log, "\n") != strings.Join(B.proc.log, "\n") {
			g.Fatalf("%v: rejected calls changed the messages / callbacks of the instance:\nreference: %v\nwith rejected calls: %v\n  %s", proto, A.proc.log, B.proc.log, strings.Join(trace, "\n  "))
		}
		g.Class("proto:" + proto.String())
		if isDealer {
			g.Class("role:dealer")
		} else {
			g.Class("role:nonDealer")
		}
		if strings.Contains(A.res, "/") {
			g.Class("endedWithKeys")
		}
		if rejectedAfterStart > 0 {
			g.NonTrivial()
		}
	})
}

func unhex(s string) []byte {
	b := make([]byte, len(s)/2)
	for i := range b {
		fmt.Sscanf(s[2*i:2*i+2], "%02x", &b[i])
	}
	return b
}

var _ = bytes.Equal
