package props

// C15 — sampling helpers are in range, valid and exactly uniform in the PRG's bits.
//
// This file is the public-API part: a generated history of helper calls on a
// ChaCha20 PRG and on a twin built from the same seed and customizer.  Every
// output is checked for validity, against the twin (equal seeds give equal
// outputs) and against the tape model evaluated over the oracle keystream
// (modelUintN: the first masked little-endian value <= n-1 from successive
// ceil(bitlen(n-1)/8)-byte reads); the position reported by Store() must
// advance by exactly the bytes the model consumed.  The exact-uniformity
// enumerations over scripted tapes are the in-package part
// (harness/inpkg/random/c15_inpkg_test.go, injected with go test -overlay).

import (
	"bytes"
	"fmt"
	"math"
	"math/bits"
	"os"
	"testing"

	"github.com/onflow/crypto/random"

	"verifharness/gen"
	"verifharness/oracle/chacha"
)

// c15DrawN draws the argument of UintN: small values, 2^k, 2^k±1, 2^63, 2^64-1,
// values of a chosen bit length.
func c15DrawN(g *gen.G) uint64 {
	switch g.Int("nKind", 0, 8) {
	case 0, 1:
		return uint64(g.Int("nSmall", 1, 300))
	case 2:
		return uint64(1) << uint(g.Int("k", 0, 63))
	case 3:
		return uint64(1)<<uint(g.Int("k", 1, 63)) + 1
	case 4:
		k := g.Int("k", 1, 64)
		if k == 64 {
			return ^uint64(0)
		}
		return uint64(1)<<uint(k) - 1
	case 5:
		return uint64(1) << 63
	case 6:
		return ^uint64(0)
	case 7: // about half of the reads are rejected
		if g.Bool("just2^64") {
			return ^uint64(0) - uint64(g.Int("below", 0, 3))
		}
		return uint64(1)<<63 + 1 + uint64(g.Int("above", 0, 3))
	default:
		l := g.Int("nbits", 1, 64)
		v := g.Uint64("nRaw")>>uint(64-l) | uint64(1)<<uint(l-1)
		return v
	}
}

func c15CheckPerm(p []int, n int) string {
	if len(p) != n {
		return fmt.Sprintf("has %d elements, expected %d", len(p), n)
	}
	return c15CheckDistinct(p, n)
}

// c15CheckDistinct: all elements in [0,n) and pairwise distinct.
func c15CheckDistinct(p []int, n int) string {
	seen := make([]bool, n)
	for i, v := range p {
		if v < 0 || v >= n {
			return fmt.Sprintf("element %d at index %d is outside [0,%d)", v, i, n)
		}
		if seen[v] {
			return fmt.Sprintf("element %d occurs twice", v)
		}
		seen[v] = true
	}
	return ""
}

// c15ModelSamples is Fisher-Yates restricted to its first m steps over the
// oracle keystream: step i draws j from [0, n-i) and swaps positions i and i+j.
func c15ModelSamples(seed, nonce []byte, pos uint64, n, m int) (items []int, used uint64) {
	items = identityPerm(n)
	for i := 0; i < m; i++ {
		j, u := modelUintN(seed, nonce, pos+used, uint64(n-i))
		used += u
		items[i], items[i+int(j)] = items[i+int(j)], items[i]
	}
	return items, used
}

// c15SwapLog runs Shuffle or Samples on a fresh identity arrangement and
// validates every swap.
type c15SwapLog struct {
	items []int
	calls int
	bad   string
}

func (l *c15SwapLog) swap(i, j int) {
	l.calls++
	if i < 0 || j < 0 || i >= len(l.items) || j >= len(l.items) {
		if l.bad == "" {
			l.bad = fmt.Sprintf("swap(%d,%d) called with an index outside [0,%d)", i, j, len(l.items))
		}
		return
	}
	l.items[i], l.items[j] = l.items[j], l.items[i]
}

func c15PermSize(g *gen.G, label string) int {
	big := 12
	if thorough() {
		big = 8
	}
	if g.Chance(label+"Big", 1, big) {
		return g.Int(label+"BigN", 65, 10000)
	}
	return g.Int(label+"N", 0, 64)
}

func TestC15_Public(t *testing.T) {
	gen.Run(t, "C15", func(g *gen.G) {
		seed := g.Bytes("seed", 32, 32)
		cust := g.Bytes("customizer", 0, 12)
		nonce := padNonce(cust)
		r, err := random.NewChacha20PRG(seed, cust)
		if err != nil {
			g.Fatalf("NewChacha20PRG(32-byte seed, %d-byte customizer) failed: %v", len(cust), err)
		}
		twin, err := random.NewChacha20PRG(append([]byte{}, seed...), append([]byte{}, cust...))
		if err != nil {
			g.Fatalf("NewChacha20PRG failed for the twin: %v", err)
		}
		var pos uint64
		// slices returned earlier must stay what they were while the generator is used further (no aliasing of an internal buffer)
		type keptInts struct {
			out, copyOf []int
			what        string
		}
		var kept []keptInts
		keep := func(p []int, what string) {
			if len(kept) < 8 {
				kept = append(kept, keptInts{p, append([]int{}, p...), what})
			}
		}
		maxSteps := 16
		if thorough() {
			maxSteps = 40
		}
		steps := g.Int("steps", 1, maxSteps)
		nontrivial := false
		for step := 0; step < steps; step++ {
			action := g.Int("action", 0, 9)
			if action <= 3 && g.Chance("rawRead", 1, 6) {
				// a plain Read between the helper calls (both read paths of the generator: <= 64 bytes and > 64 bytes); the
				// helpers that follow must continue from the byte after it, on the generator and on its twin
				k := []int{1, 63, 64, 65, 100, 128, 200, 1000}[g.Pick("rawReadLen", 8)]
				b1, b2 := make([]byte, k), make([]byte, k)
				r.Read(b1)
				twin.Read(b2)
				if want := chacha.Keystream(seed, nonce, pos, k); !bytes.Equal(b1, want) || !bytes.Equal(b2, want) {
					g.Fatalf("Read(%d) at stream offset %d differs from the keystream", k, pos)
				}
				if p := streamPos(g, r, seed, nonce, pos, 1<<17); p != pos+uint64(k) {
					g.Fatalf("after Read(%d) at stream offset %d a generator restored from Store() continues at offset %d instead of %d: the helpers would not give equal outputs for equal states", k, pos, p, pos+uint64(k))
				}
				pos += uint64(k)
				g.Class("rawReadBetweenHelpers")
				continue
			}
			switch action {
			case 0, 1, 2, 3: // UintN
				n := c15DrawN(g)
				got, got2 := r.UintN(n), twin.UintN(n)
				want, used := modelUintN(seed, nonce, pos, n)
				if got >= n {
					g.Fatalf("UintN(%d) = %d is not in [0, n) (stream offset %d)", n, got, pos)
				}
				if got != got2 {
					g.Fatalf("UintN(%d) at offset %d: %d on one generator, %d on a generator with the same seed and customizer", n, pos, got, got2)
				}
				if got != want {
					c15ModelMismatch(g, "UintN(%d) at stream offset %d = %d; the first masked %d-byte little-endian keystream value <= n-1 is %d", n, pos, got, (bits.Len64(n-1)+7)/8, want)
				}
				if p := streamPos(g, r, seed, nonce, pos, 1<<17); p != pos+used {
					c15ModelMismatch(g, "UintN(%d) at stream offset %d consumed %d bytes, the model consumes %d", n, pos, p-pos, used)
				}
				pos += used
				size := uint64((bits.Len64(n-1) + 7) / 8)
				if n&(n-1) == 0 {
					g.Class("uintn_powerOfTwo")
				} else {
					g.Class("uintn_notPowerOfTwo")
					nontrivial = true
				}
				if size > 0 && used > size {
					g.Class("uintn_rejectionHappened")
				}
				g.Class(fmt.Sprintf("uintn_readSize%d", size))
			case 4: // Permutation
				n := c15PermSize(g, "perm")
				p1, err1 := r.Permutation(n)
				p2, err2 := twin.Permutation(n)
				if err1 != nil || err2 != nil {
					g.Fatalf("Permutation(%d) failed: %v %v", n, err1, err2)
				}
				if bad := c15CheckPerm(p1, n); bad != "" {
					g.Fatalf("Permutation(%d) at stream offset %d is not a permutation of 0..n-1: %s", n, pos, bad)
				}
				if !equalInts(p1, p2) {
					g.Fatalf("Permutation(%d) at offset %d differs between two generators with the same seed and customizer", n, pos)
				}
				keep(p1, fmt.Sprintf("Permutation(%d)", n))
				want, used := modelPermutation(seed, nonce, pos, n)
				if !equalInts(p1, want) {
					c15ModelMismatch(g, "Permutation(%d) at stream offset %d = %v, inside-out Fisher-Yates over the keystream gives %v", n, pos, c15Head(p1), c15Head(want))
				}
				if p := streamPos(g, r, seed, nonce, pos, 1<<17); p != pos+used {
					c15ModelMismatch(g, "Permutation(%d) at stream offset %d consumed %d bytes, the model consumes %d", n, pos, p-pos, used)
				}
				pos += used
				if n >= 3 {
					nontrivial = true
				}
				if n > 64 {
					g.Class("permutation_large")
				} else {
					g.Class("permutation")
				}
			case 5: // SubPermutation
				n := c15PermSize(g, "sub")
				m := g.Int("subM", 0, n)
				p1, err1 := r.SubPermutation(n, m)
				p2, err2 := twin.SubPermutation(n, m)
				if err1 != nil || err2 != nil {
					g.Fatalf("SubPermutation(%d,%d) failed: %v %v", n, m, err1, err2)
				}
				if len(p1) != m {
					g.Fatalf("SubPermutation(%d,%d) returned %d elements", n, m, len(p1))
				}
				if bad := c15CheckDistinct(p1, n); bad != "" {
					g.Fatalf("SubPermutation(%d,%d) at stream offset %d: %s", n, m, pos, bad)
				}
				if !equalInts(p1, p2) {
					g.Fatalf("SubPermutation(%d,%d) at offset %d differs between two generators with the same seed and customizer", n, m, pos)
				}
				keep(p1, fmt.Sprintf("SubPermutation(%d,%d)", n, m))
				// the position is taken from the generator: the documentation does not
				// say how many of the n draws of a full permutation are made
				pos = streamPos(g, r, seed, nonce, pos, 1<<17)
				if m < n || n >= 3 {
					nontrivial = true
				}
				g.Class("subPermutation")
			case 6, 7: // Shuffle / Samples
				n := c15PermSize(g, "samp")
				m := n
				shuffle := g.Bool("shuffle")
				if !shuffle {
					m = g.Int("sampM", 0, n)
				}
				l1, l2 := &c15SwapLog{items: identityPerm(n)}, &c15SwapLog{items: identityPerm(n)}
				var err1, err2 error
				name := fmt.Sprintf("Samples(%d,%d)", n, m)
				if shuffle {
					name = fmt.Sprintf("Shuffle(%d)", n)
					err1, err2 = r.Shuffle(n, l1.swap), twin.Shuffle(n, l2.swap)
				} else {
					err1, err2 = r.Samples(n, m, l1.swap), twin.Samples(n, m, l2.swap)
				}
				if err1 != nil || err2 != nil {
					g.Fatalf("%s failed: %v %v", name, err1, err2)
				}
				if l1.bad != "" {
					g.Fatalf("%s at stream offset %d: %s", name, pos, l1.bad)
				}
				if bad := c15CheckPerm(l1.items, n); bad != "" {
					g.Fatalf("%s at stream offset %d does not leave a permutation of the items: %s", name, pos, bad)
				}
				if !equalInts(l1.items, l2.items) {
					g.Fatalf("%s at offset %d differs between two generators with the same seed and customizer", name, pos)
				}
				want, used := c15ModelSamples(seed, nonce, pos, n, m)
				if !equalInts(l1.items[:m], want[:m]) {
					c15ModelMismatch(g, "%s at stream offset %d: the first %d items are %v, Fisher-Yates over the keystream selects %v", name, pos, m, c15Head(l1.items[:m]), c15Head(want[:m]))
				}
				if p := streamPos(g, r, seed, nonce, pos, 1<<17); p != pos+used {
					c15ModelMismatch(g, "%s at stream offset %d consumed %d bytes, the model consumes %d", name, pos, p-pos, used)
				}
				pos += used
				if m < n || n >= 3 {
					nontrivial = true
				}
				if shuffle {
					g.Class("shuffle")
				} else {
					g.Class("samples")
				}
			default: // negative or inconsistent sizes
				neg := -1 - g.Int("negMagnitude", 0, 1<<20)
				if g.Chance("minInt", 1, 8) {
					neg = -int(^uint(0)>>1) - 1
				}
				n := g.Int("errN", 0, 50)
				over := n + 1 + g.Int("errOver", 0, 1000)
				calls := 0
				swap := func(i, j int) { calls++ }
				kind := g.Int("errKind", 0, 9)
				call := func(x random.Rand) (what string, e error) {
					switch kind {
					case 0:
						what = fmt.Sprintf("Permutation(%d)", neg)
						_, e = x.Permutation(neg)
					case 1:
						what = fmt.Sprintf("SubPermutation(%d,%d)", n, neg)
						_, e = x.SubPermutation(n, neg)
					case 2:
						what = fmt.Sprintf("SubPermutation(%d,%d)", n, over)
						_, e = x.SubPermutation(n, over)
					case 3:
						what = fmt.Sprintf("SubPermutation(%d,%d)", neg, 0)
						_, e = x.SubPermutation(neg, 0)
					case 4:
						what = fmt.Sprintf("SubPermutation(%d,%d)", neg, neg)
						_, e = x.SubPermutation(neg, neg)
					case 5:
						what = fmt.Sprintf("Shuffle(%d)", neg)
						e = x.Shuffle(neg, swap)
					case 6:
						what = fmt.Sprintf("Samples(%d,%d)", n, neg)
						e = x.Samples(n, neg, swap)
					case 7:
						what = fmt.Sprintf("Samples(%d,%d)", n, over)
						e = x.Samples(n, over, swap)
					case 8:
						what = fmt.Sprintf("Samples(%d,%d)", neg, 0)
						e = x.Samples(neg, 0, swap)
					default:
						what = fmt.Sprintf("Samples(%d,%d)", neg, neg)
						e = x.Samples(neg, neg, swap)
					}
					return what, e
				}
				what, e := call(r)
				_, e2 := call(twin)
				if e == nil || e2 == nil {
					g.Fatalf("%s returned no error", what)
				}
				if calls != 0 {
					g.Fatalf("%s called swap %d times although it returned the error %v", what, calls, e)
				}
				// whether a refused call may consume stream bytes is not documented: the model follows the generator
				pos = streamPos(g, r, seed, nonce, pos, 1<<17)
				nontrivial = true
				g.Class("errorArgs")
			}
			if !bytes.Equal(r.Store(), twin.Store()) {
				g.Fatalf("two generators with the same seed and customizer are in different states after the same calls (step %d)", step)
			}
		}
		// the generator continues the keystream where the model says it is
		buf, buf2 := make([]byte, 24), make([]byte, 24)
		r.Read(buf)
		twin.Read(buf2)
		if want := chacha.Keystream(seed, nonce, pos, 24); !bytes.Equal(buf, want) || !bytes.Equal(buf2, want) {
			g.Fatalf("after the history the generators do not continue the keystream at offset %d", pos)
		}
		for _, k := range kept {
			if !equalInts(k.out, k.copyOf) {
				g.Fatalf("the slice returned by %s changed while the generator was used further: it was %v, the same slice now holds %v", k.what, c15Head(k.copyOf), c15Head(k.out))
			}
		}
		if nontrivial {
			g.NonTrivial()
		}
	})
}

func c15Head(p []int) []int {
	if len(p) > 24 {
		return p[:24]
	}
	return p
}

// c15ModelMismatch: the outputs are valid and reproducible but differ from the
// documented algorithm's model over the keystream (rejection sampling on
// ceil(bitlen/8)-byte little-endian reads, inside-out Fisher-Yates).  A different
// but still exactly uniform algorithm is not a violation of the property, so this
// is reported as "tape model does not apply": inconclusive (exit 2 of the
// check), never a VIOLATION.  Exact uniformity itself is decided by the
// in-package tape enumeration (TestVerifC15_*), which counts multiplicities.
func c15ModelMismatch(g *gen.G, format string, a ...any) {
	if g.Replaying() {
		g.Fatalf("TAPE-MODEL-DOES-NOT-APPLY: "+format, a...)
	}
	fmt.Printf("TAPE-MODEL-DOES-NOT-APPLY (inconclusive, not a violation): "+format+"\n", a...)
	gen.Flush()
	os.Exit(3)
}

// TestC15_Frequencies: a coarse, deterministic statistical net under the exact counting argument of the in-package
// part (which assumes the documented read pattern and reports "tape model does not apply" for any other algorithm,
// uniform or not).  For a fixed ChaCha20 stream, N draws of UintN(n) must give every value a count within seven standard
// deviations of N/n, and the first element of Permutation(k) / the sample of SubPermutation(k, 1) likewise.  The stream
// is a pure function of the drawn seed, so the outcome is reproducible; the bound is wide enough that a uniform
// algorithm fails with probability below 1e-8 per case, and a bias of a factor two on one value is 10 sigma away.
func TestC15_Frequencies(t *testing.T) {
	gen.Run(t, "C15", func(g *gen.G) {
		seed := g.Bytes("seed", 32, 32)
		r, err := random.NewChacha20PRG(seed, nil)
		if err != nil {
			g.Fatalf("NewChacha20PRG: %v", err)
		}
		n := []uint64{3, 5, 6, 7, 10, 100, 255, 256, 257, 258, 300, 384, 511, 513, 1000}[g.Pick("n", 15)]
		N := 400 * int(n)
		if N < 40000 {
			N = 40000
		}
		counts := make([]int, n)
		for i := 0; i < N; i++ {
			v := r.UintN(n)
			if v >= n {
				g.Fatalf("UintN(%d) = %d", n, v)
			}
			counts[v]++
		}
		mean := float64(N) / float64(n)
		sd := math.Sqrt(mean * (1 - 1/float64(n)))
		for v, c := range counts {
			if d := math.Abs(float64(c) - mean); d > 7*sd+1 {
				g.Fatalf("UintN(%d): value %d occurred %d times in %d draws from one ChaCha20 stream, expected %.0f ± %.0f (seven standard deviations): not uniform", n, v, c, N, mean, 7*sd)
			}
		}
		// first element of a permutation and a 1-sample
		k := int([]uint64{3, 5, 8, 17, 64, 257, 300}[g.Pick("k", 7)])
		M := 400 * k
		if M < 20000 {
			M = 20000
		}
		c1, c2 := make([]int, k), make([]int, k)
		for i := 0; i < M; i++ {
			p, err := r.Permutation(k)
			if err != nil {
				g.Fatalf("Permutation(%d): %v", k, err)
			}
			c1[p[0]]++
			q, err := r.SubPermutation(k, 1)
			if err != nil || len(q) != 1 {
				g.Fatalf("SubPermutation(%d, 1): %v", k, err)
			}
			c2[q[0]]++
		}
		mean = float64(M) / float64(k)
		sd = math.Sqrt(mean * (1 - 1/float64(k)))
		for v := 0; v < k; v++ {
			if d := math.Abs(float64(c1[v]) - mean); d > 7*sd+1 {
				g.Fatalf("Permutation(%d): element %d came first %d times in %d permutations, expected %.0f ± %.0f: not uniform", k, v, c1[v], M, mean, 7*sd)
			}
			if d := math.Abs(float64(c2[v]) - mean); d > 7*sd+1 {
				g.Fatalf("SubPermutation(%d, 1): element %d was sampled %d times in %d calls, expected %.0f ± %.0f: not uniform", k, v, c2[v], M, mean, 7*sd)
			}
		}
		// ordered samples: every element is equally likely at every position, for sparse samples (few of many) as well as dense ones
		nm := [][2]int{{48, 2}, {64, 2}, {64, 3}, {100, 5}, {128, 7}, {256, 4}, {256, 15}, {20, 10}, {17, 16}, {33, 2}}[g.Pick("nm", 10)]
		sn, sm := nm[0], nm[1]
		S := 400 * sn
		if S < 20000 {
			S = 20000
		}
		pos1 := make([][]int, sm)
		pos2 := make([][]int, sm)
		for i := range pos1 {
			pos1[i], pos2[i] = make([]int, sn), make([]int, sn)
		}
		items := make([]int, sn)
		for i := 0; i < S; i++ {
			q, err := r.SubPermutation(sn, sm)
			if err != nil || len(q) != sm {
				g.Fatalf("SubPermutation(%d, %d): %v, %v", sn, sm, q, err)
			}
			for p, v := range q {
				pos1[p][v]++
			}
			for j := range items {
				items[j] = j
			}
			if err := r.Samples(sn, sm, func(a, b int) { items[a], items[b] = items[b], items[a] }); err != nil {
				g.Fatalf("Samples(%d, %d): %v", sn, sm, err)
			}
			for p := 0; p < sm; p++ {
				pos2[p][items[p]]++
			}
		}
		mean = float64(S) / float64(sn)
		sd = math.Sqrt(mean * (1 - 1/float64(sn)))
		for p := 0; p < sm; p++ {
			for v := 0; v < sn; v++ {
				if d := math.Abs(float64(pos1[p][v]) - mean); d > 7*sd+1 {
					g.Fatalf("SubPermutation(%d, %d): element %d was at position %d in %d of %d calls, expected %.0f ± %.0f (seven standard deviations): the ordered samples are not equally likely", sn, sm, v, p, pos1[p][v], S, mean, 7*sd)
				}
				if d := math.Abs(float64(pos2[p][v]) - mean); d > 7*sd+1 {
					g.Fatalf("Samples(%d, %d): element %d was at position %d in %d of %d calls, expected %.0f ± %.0f (seven standard deviations): the ordered samples are not equally likely", sn, sm, v, p, pos2[p][v], S, mean, 7*sd)
				}
			}
		}
		g.Class(fmt.Sprintf("frequencies:n=%d", n))
		g.Class(fmt.Sprintf("frequencies:orderedSample(%d,%d)", sn, sm))
		g.NonTrivial()
	})
}
