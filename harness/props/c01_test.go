package props

// C01 — BLS Verify accepts exactly the one signature sk·H(m) per key, message, hasher.

import (
	"bytes"
	"testing"

	"github.com/onflow/crypto"
	"github.com/onflow/crypto/hash"

	"verifharness/gen"
	"verifharness/oracle/bls381"
	"verifharness/oracle/keccak"
)

func TestC01_Exact(t *testing.T) {
	gen.Run(t, "C01", func(g *gen.G) {
		k := drawKey(g, "key")
		msg := drawMsg(g, "msg")
		h, hdesc := drawHasher(g, "hasher")
		if tag, ok := kmacTagOf(hdesc); ok {
			// the documented expand_message_xof: KMAC128 keyed with tag ‖ signature ciphersuite, customizer "H2C", 128 bytes
			if got, want := h.ComputeHash(msg), keccak.KMAC128([]byte(tag+sigSuite), []byte("H2C"), msg, 128); !bytes.Equal(got, want) {
				g.Fatalf("NewExpandMsgXOFKMAC128(%d-byte tag %q).ComputeHash differs from KMAC128(tag‖%s, \"H2C\", msg, 128) of SP 800-185", len(tag), tag, sigSuite)
			}
			if len(tag) > 130 {
				g.Class("longTag")
			}
		}
		H := hashToG1(g, msg, h)
		S := H.Mul(k.x)
		expected := bls381.G1Compress(S)

		sig, err := k.sk.Sign(msg, h)
		if err != nil {
			g.Fatalf("Sign failed: %v", err)
		}
		if !bytes.Equal(sig, expected) {
			g.Fatalf("Sign (%s key %x, %s) returned %x, the oracle computes sk·H(m) = %x", k.how, scalarBytes(k.x), hdesc, []byte(sig), expected)
		}
		cands := sigCandidates(g, S, "c")
		// signatures of another message, key, tag
		msg2 := append(append([]byte{}, msg...), 0x01)
		if s2, err := k.sk.Sign(msg2, h); err == nil {
			cands = append(cands, cand{s2, "otherMessage", true})
		}
		k2 := drawKey(g, "key2")
		if k2.x.Cmp(k.x) != 0 {
			s2, _ := k2.sk.Sign(msg, h)
			cands = append(cands, cand{s2, "otherKey", true})
		}
		h2 := crypto.NewExpandMsgXOFKMAC128("other-tag-" + string(g.Bytes("otherTag", 0, 8)))
		if s2, err := k.sk.Sign(msg, h2); err == nil && !bytes.Equal(s2, expected) {
			cands = append(cands, cand{s2, "otherTag", true})
		}
		if tag, ok := kmacTagOf(hdesc); ok {
			// a tag that differs in one byte only (two long tags may agree on whole KMAC key blocks)
			h3 := crypto.NewExpandMsgXOFKMAC128(neighbourTag(g, "neighbourTag", tag))
			s3, err := k.sk.Sign(msg, h3)
			if err != nil {
				g.Fatalf("Sign under a neighbouring tag failed: %v", err)
			}
			if bytes.Equal(s3, expected) {
				g.Fatalf("two different domain tags (%q and a one-byte variation of it, %d bytes) give the same signature %x: no domain separation", tag, len(tag), expected)
			}
			cands = append(cands, cand{s3, "neighbourTag", true})
		}

		accepted, rejectedPoint := 0, 0
		for _, c := range cands {
			in := append([]byte{}, c.b...)
			ok, err := k.pk.Verify(in, msg, h)
			if err != nil {
				g.Fatalf("Verify(%s candidate %x) returned error %v", c.kind, c.b, err)
			}
			if !bytes.Equal(in, c.b) {
				g.Fatalf("Verify modified its signature argument (%s)", c.kind)
			}
			want := bytes.Equal(c.b, expected)
			if ok != want {
				g.Fatalf("Verify(%s candidate %x) = %v under %s key %x, message %x, %s; exact signature is %x", c.kind, c.b, ok, k.how, scalarBytes(k.x), msg, hdesc, expected)
			}
			if ok {
				accepted++
			} else if c.isPoint {
				rejectedPoint++
			}
			g.Class("cand:" + c.kind)
		}
		// the slice the first Sign returned was kept uncopied while the key signed other messages and verified
		if !bytes.Equal(sig, expected) {
			g.Fatalf("the signature returned by Sign changed while the key object was used further: %x, was %x", []byte(sig), expected)
		}
		// identity public keys reject everything
		for i, idk := range identityKeys(g, k) {
			for _, c := range cands {
				ok, err := idk.Verify(c.b, msg, h)
				if ok || err != nil {
					g.Fatalf("Verify under identity public key #%d accepted %s candidate %x (ok=%v err=%v)", i, c.kind, c.b, ok, err)
				}
			}
		}
		g.Class("key:" + k.how)
		if _, ok := h.(*scriptHasher); ok {
			g.Class("scriptedHasher")
		}
		if accepted >= 1 && rejectedPoint >= 1 {
			g.NonTrivial()
		}
	})
}

// TestC01_Hasher: nil / wrong-size hashers give the typed errors.
func TestC01_Hasher(t *testing.T) {
	gen.Run(t, "C01", func(g *gen.G) {
		k := drawKey(g, "key")
		msg := g.Bytes("msg", 0, 40)
		good := crypto.NewExpandMsgXOFKMAC128("t")
		sig, _ := k.sk.Sign(msg, good)
		var h hash.Hasher
		kind := g.Int("hasherKind", 0, 3)
		size := 128
		switch kind {
		case 0:
			h = nil
		case 1:
			size = g.Int("size", 0, 300)
			if size == 128 {
				size = 127
			}
			h = &scriptHasher{out: make([]byte, size), size: size}
		case 2:
			size = g.Int("kmacSize", 0, 260)
			if size == 128 {
				size = 129
			}
			h, _ = hash.NewKMAC_128([]byte("0123456789abcdef"), nil, size)
		default:
			hs := []hash.Hasher{hash.NewSHA2_256(), hash.NewSHA2_384(), hash.NewSHA3_256(), hash.NewSHA3_384(), hash.NewKeccak_256()}
			h = hs[g.Pick("std", len(hs))]
		}
		// the documented hasher errors carry no condition on the signature argument: a second fault does not change them
		switch g.Int("signatureWithBadHasher", 0, 5) {
		case 1:
			sig = nil
			g.Class("badHasher+nilSignature")
		case 2:
			sig = sig[:g.Int("sigLen", 0, 47)]
			g.Class("badHasher+shortSignature")
		case 3:
			sig = append(append([]byte{}, sig...), 0)
			g.Class("badHasher+longSignature")
		case 4:
			sig = crypto.BLSInvalidSignature()
			g.Class("badHasher+malformedSignature")
		}
		s, err := k.sk.Sign(msg, h)
		ok, verr := k.pk.Verify(sig, msg, h)
		if kind == 0 {
			if !crypto.IsNilHasherError(err) || !crypto.IsNilHasherError(verr) || s != nil || ok {
				g.Fatalf("nil hasher: Sign err=%v, Verify=(%v,%v)", err, ok, verr)
			}
		} else {
			if !crypto.IsInvalidHasherSizeError(err) || !crypto.IsInvalidHasherSizeError(verr) || s != nil || ok {
				g.Fatalf("hasher of size %d: Sign err=%v, Verify=(%v,%v)", h.Size(), err, ok, verr)
			}
		}
		g.NonTrivial()
		g.Class("badHasher")
	})
}
