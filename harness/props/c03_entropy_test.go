package props

import (
	crand "crypto/rand"
	"fmt"
	"io"
	"testing"

	"github.com/onflow/crypto"

	"verifharness/gen"
)

// countingReader passes reads through to the system source and counts the bytes.
type countingReader struct {
	r io.Reader
	n int
}

func (c *countingReader) Read(p []byte) (int, error) {
	n, err := c.r.Read(p)
	c.n += n
	return n, err
}

// TestC03_FreshRandomness: the property allows a disagreement with individual verification only "with probability
// about 2^-128 over its internal randomness": for a fixed input the coefficients have to be fresh at every call, not a
// function of the input (whoever chooses the input could otherwise compute them and make wrong entries cancel).
// Observable from outside: every call on two or more well-formed entries draws at least 128 bits from the process's
// cryptographic source (crypto/rand.Reader, the source named by the property's anchors).  Nothing else is demanded
// of how the bits are used.
func TestC03_FreshRandomness(t *testing.T) {
	gen.Run(t, "C03", func(g *gen.G) {
		n := g.Int("n", 2, 9)
		msg := g.Bytes("msg", 0, 30)
		h := crypto.NewExpandMsgXOFKMAC128("c03-entropy")
		invalid := make([]bool, n)
		nInvalid := 0
		if g.Bool("someInvalid") {
			for i := range invalid {
				if invalid[i] = g.Chance("invalidAt", 1, 3); invalid[i] {
					nInvalid++
				}
			}
		}
		pks := make([]crypto.PublicKey, n)
		sigs := make([]crypto.Signature, n)
		for i := range pks {
			x, _ := drawScalar(g, fmt.Sprintf("sk%d", i))
			sk := decodeSK(g, x)
			pks[i] = sk.PublicKey()
			m := msg
			if invalid[i] {
				m = append(append([]byte{}, msg...), 1) // a well-formed G1 point that is the signature of another message
			}
			s, err := sk.Sign(m, h)
			if err != nil {
				g.Fatalf("Sign failed: %v", err)
			}
			sigs[i] = s
		}
		old := crand.Reader
		cr := &countingReader{r: old}
		crand.Reader = cr
		res, err := crypto.BatchVerifyBLSSignaturesOneMessage(pks, sigs, msg, h)
		crand.Reader = old
		if err != nil {
			g.Fatalf("BatchVerifyBLSSignaturesOneMessage failed: %v", err)
		}
		for i, r := range res {
			if r == invalid[i] {
				g.Fatalf("BatchVerifyBLSSignaturesOneMessage returned %v at index %d, Verify says %v", r, i, !invalid[i])
			}
		}
		if cr.n < 16 {
			g.Fatalf("BatchVerifyBLSSignaturesOneMessage on %d well-formed entries (%d of them invalid) drew %d bytes from crypto/rand.Reader: its coefficients cannot carry 128 bits of fresh randomness per call", n, nInvalid, cr.n)
		}
		g.Class(fmt.Sprintf("freshRandomness:bytesPerEntry=%d", cr.n/n))
		g.NonTrivial()
	})
}
