package props

// Helpers shared by the ECDSA / key-generation properties (C11, C12): the two
// curves with their from-the-specification oracle parameters, private keys whose
// scalar the harness knows, hashers paired with their oracle digest function,
// signature byte-string builders.

import (
	"fmt"
	"math/big"
	"sync"

	"github.com/onflow/crypto"
	"github.com/onflow/crypto/hash"

	"verifharness/gen"
	"verifharness/oracle/keccak"
	"verifharness/oracle/sha2"
	"verifharness/oracle/wecdsa"
)

// wecCurve pairs a library signing algorithm with the oracle's domain parameters.
type wecCurve struct {
	name string
	algo crypto.SigningAlgorithm
	c    *wecdsa.Curve

	tabOnce      sync.Once
	xLead, yLead []int64 // small scalars k whose point k·G has x (resp. y) < 2^248
}

var wecCurveList = []*wecCurve{
	{name: "P256", algo: crypto.ECDSAP256, c: wecdsa.P256()},
	{name: "secp256k1", algo: crypto.ECDSASecp256k1, c: wecdsa.Secp256k1()},
}

func wecDrawCurve(g *gen.G, label string) *wecCurve {
	return wecCurveList[g.Pick(label, len(wecCurveList))]
}

func (cv *wecCurve) other() *wecCurve {
	if cv == wecCurveList[0] {
		return wecCurveList[1]
	}
	return wecCurveList[0]
}

const wecTableBound = 4096

// smallTables walks k = 1, 2, 3 … wecTableBound (a fixed, deterministic, bounded
// search) and keeps the k for which a coordinate of k·G has a leading zero byte.
// For such k the ECDSA value r = x mod n equals x and has a leading zero byte too.
func (cv *wecCurve) smallTables() (xLead, yLead []int64) {
	cv.tabOnce.Do(func() {
		lim := new(big.Int).Lsh(one, 248)
		G := cv.c.G()
		P := cv.c.G()
		for k := int64(1); k <= wecTableBound; k++ {
			if P.X.Cmp(lim) < 0 {
				cv.xLead = append(cv.xLead, k)
			}
			if P.Y.Cmp(lim) < 0 {
				cv.yLead = append(cv.yLead, k)
			}
			P = cv.c.Add(P, G)
		}
	})
	return cv.xLead, cv.yLead
}

// wecDrawScalar draws a private scalar in [1, n-1] from the structured pool.
func wecDrawScalar(g *gen.G, label string, cv *wecCurve) (*big.Int, string) {
	n := cv.c.N
	switch g.Int(label+"Kind", 0, 10) {
	case 0:
		return big.NewInt(1), "one"
	case 1:
		return big.NewInt(2), "two"
	case 2:
		return new(big.Int).Sub(n, one), "n-1"
	case 3:
		return new(big.Int).Sub(n, big.NewInt(2)), "n-2"
	case 4:
		return big.NewInt(int64(g.Int(label+"Small", 3, 70000))), "small"
	case 5:
		return new(big.Int).Lsh(one, uint(g.Int(label+"Pow2", 2, 255))), "pow2"
	case 6: // 1 to 24 leading zero bytes
		nz := g.Int(label+"LeadingZeros", 1, 24)
		x := new(big.Int).SetBytes(g.Bytes(label+"Low", 32-nz, 32-nz))
		if x.Sign() == 0 {
			x.SetInt64(5)
		}
		return x, "leadingZeros"
	case 7: // public key whose x coordinate has a leading zero byte
		xs, _ := cv.smallTables()
		if len(xs) == 0 {
			return big.NewInt(3), "small"
		}
		return big.NewInt(xs[g.Pick(label+"PubX0", len(xs))]), "pubXLeadingZero"
	case 8: // public key whose y coordinate has a leading zero byte
		_, ys := cv.smallTables()
		if len(ys) == 0 {
			return big.NewInt(3), "small"
		}
		return big.NewInt(ys[g.Pick(label+"PubY0", len(ys))]), "pubYLeadingZero"
	default:
		x := new(big.Int).SetBytes(g.Bytes(label+"Rand", 32, 32))
		x.Mod(x, new(big.Int).Sub(n, one))
		x.Add(x, one)
		return x, "random"
	}
}

// wecKey is a library ECDSA key pair whose private scalar the harness knows.
type wecKey struct {
	cv  *wecCurve
	sk  crypto.PrivateKey
	pk  crypto.PublicKey
	d   *big.Int
	how string
}

func (k wecKey) String() string {
	return fmt.Sprintf("%s %s key d=%x", k.cv.name, k.how, scalarBytes(k.d))
}

func wecDecodeSK(g *gen.G, cv *wecCurve, d *big.Int) crypto.PrivateKey {
	sk, err := crypto.DecodePrivateKey(cv.algo, scalarBytes(d))
	if err != nil {
		g.Fatalf("DecodePrivateKey(%s, %x) failed for a scalar in [1, n-1]: %v", cv.name, scalarBytes(d), err)
	}
	if sk == nil {
		g.Fatalf("DecodePrivateKey(%s, %x) returned a nil key and a nil error", cv.name, scalarBytes(d))
	}
	return sk
}

// wecDrawKey draws a key: generated from a 32..64-byte seed (the scalar is then
// read back with Encode; the derivation itself is C12's subject) or decoded
// from a pool scalar.
func wecDrawKey(g *gen.G, label string, cv *wecCurve) wecKey {
	if g.Int(label+"Src", 0, 3) == 0 {
		seed := g.Bytes(label+"Seed", 32, 64)
		sk, err := crypto.GeneratePrivateKey(cv.algo, seed)
		if err != nil || sk == nil {
			g.Fatalf("GeneratePrivateKey(%s, %d-byte seed %x) failed: %v", cv.name, len(seed), seed, err)
		}
		enc := sk.Encode()
		d := new(big.Int).SetBytes(enc)
		if len(enc) != 32 || d.Sign() == 0 || d.Cmp(cv.c.N) >= 0 {
			g.Fatalf("GeneratePrivateKey(%s, seed %x): Encode() = %x is not a 32-byte scalar in [1, n-1]", cv.name, seed, enc)
		}
		return wecKey{cv: cv, sk: sk, pk: sk.PublicKey(), d: d, how: "generated"}
	}
	d, how := wecDrawScalar(g, label, cv)
	sk := wecDecodeSK(g, cv, d)
	return wecKey{cv: cv, sk: sk, pk: sk.PublicKey(), d: d, how: "decoded:" + how}
}

// wecPub is the oracle's public key for the scalar d: the point d·G, its raw
// 64-byte encoding X‖Y (each coordinate left-padded to 32 bytes) and its SEC1
// compressed encoding.
func wecPub(cv *wecCurve, d *big.Int) (q wecdsa.Point, raw, compressed []byte) {
	q = cv.c.ScalarBaseMult(d)
	raw = make([]byte, 64)
	q.X.FillBytes(raw[:32])
	q.Y.FillBytes(raw[32:])
	return q, raw, cv.c.CompressPoint(q.X, q.Y)
}

// wecJoin writes r‖s, each as a 32-byte big-endian string (values < 2^256).
func wecJoin(r, s *big.Int) []byte {
	out := make([]byte, 64)
	r.FillBytes(out[:32])
	s.FillBytes(out[32:])
	return out
}

func wecSplit(sig []byte) (r, s *big.Int) {
	return new(big.Int).SetBytes(sig[:32]), new(big.Int).SetBytes(sig[32:64])
}

// wecFormatOK is the documented format: 64 bytes r‖s with 1 <= r, s <= n-1.
func wecFormatOK(cv *wecCurve, sig []byte) bool {
	if len(sig) != 64 {
		return false
	}
	r, s := wecSplit(sig)
	return r.Sign() > 0 && s.Sign() > 0 && r.Cmp(cv.c.N) < 0 && s.Cmp(cv.c.N) < 0
}

// wecHasher is a library hasher together with the oracle function computing the
// same digest.
type wecHasher struct {
	name string // class name
	desc string // full description for messages
	h    hash.Hasher
	ref  func(msg []byte) []byte
	size int
}

// wecDrawHasher draws a hasher with an output of at least 32 bytes: the five
// fixed-size ones, KMAC128 with a generated key / customizer / size 32..64, or
// (one time in seven) a hasher with a scripted output of 32..80 bytes whose
// leftmost 32 bytes come from a pool around 0, n and 2^256.
func wecDrawHasher(g *gen.G, label string, cv *wecCurve) wecHasher {
	switch g.Int(label, 0, 6) {
	case 0:
		return wecHasher{"SHA2_256", "SHA2_256", hash.NewSHA2_256(), sha2.SHA256, 32}
	case 1:
		return wecHasher{"SHA2_384", "SHA2_384", hash.NewSHA2_384(), sha2.SHA384, 48}
	case 2:
		return wecHasher{"SHA3_256", "SHA3_256", hash.NewSHA3_256(), keccak.SHA3_256, 32}
	case 3:
		return wecHasher{"SHA3_384", "SHA3_384", hash.NewSHA3_384(), keccak.SHA3_384, 48}
	case 4:
		return wecHasher{"Keccak_256", "Keccak_256", hash.NewKeccak_256(), keccak.Keccak256, 32}
	case 5:
		key := g.Bytes(label+"KmacKey", 16, 48)
		cust := g.Bytes(label+"KmacCust", 0, 16)
		size := g.Int(label+"KmacSize", 32, 64)
		h, err := hash.NewKMAC_128(key, cust, size)
		if err != nil {
			g.Fatalf("NewKMAC_128(key %x, customizer %x, size %d) failed: %v", key, cust, size, err)
		}
		return wecHasher{"KMAC128", fmt.Sprintf("KMAC128(key %x, customizer %x, size %d)", key, cust, size), h,
			func(m []byte) []byte { return keccak.KMAC128(key, cust, m, size) }, size}
	default:
		size := g.Int(label+"ScriptSize", 32, 80)
		v := new(big.Int)
		switch g.Int(label+"ScriptKind", 0, 6) {
		case 0:
		case 1:
			v.SetInt64(1)
		case 2:
			v.Sub(cv.c.N, one)
		case 3:
			v.Set(cv.c.N)
		case 4:
			v.Add(cv.c.N, one)
		case 5:
			v.Lsh(one, 256)
			v.Sub(v, one)
		default:
			v.SetBytes(g.Bytes(label+"ScriptRand", 32, 32))
		}
		out := make([]byte, size)
		v.FillBytes(out[:32])
		copy(out[32:], g.Expand(label+"ScriptTail", size-32))
		return wecHasher{"scripted", fmt.Sprintf("scripted output %x", out), &scriptHasher{out: out, size: size},
			func([]byte) []byte { return append([]byte{}, out...) }, size}
	}
}
