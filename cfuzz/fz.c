// libFuzzer targets on the C layer of onflow/crypto.  The file is compiled once
// per target (-DT_<NAME>) together with the repository's own C sources, which are
// #included so that every build comes from the current tree:
//
//   clang -O1 -g -fsanitize=fuzzer,address,undefined -fno-sanitize=alignment
//         -I$REPO -I$REPO/blst_src -I$REPO/blst_src/build -D__BLST_CGO__ -D__ADX__ -mno-avx
//         -DT_SER_E1 fz.c $REPO/blst_assembly.S
//
// Every target carries a semantic oracle (round trip, differential against
// BLST's own ZCash deserializers, algebraic identity); ASan / UBSan catch memory
// errors on arbitrary contents.  The targets respect the contracts under which
// the Go layer calls these functions (lengths are what the Go wrappers pass).
#include <stdint.h>
#include <stdio.h>
#include <stddef.h>
#include <string.h>
#include <stdlib.h>

#include "bls12381_utils.c"
#include "bls_core.c"
#include "bls_thresholdsign_core.c"
#include "dkg_core.c"

#define TRAP(msg)                                                              \
  do {                                                                         \
    fprintf(stderr, "ORACLE-VIOLATION: %s\n", msg);                            \
    __builtin_trap();                                                          \
  } while (0)

static int all_zero(const byte *p, size_t n) {
  for (size_t i = 0; i < n; i++)
    if (p[i])
      return 0;
  return 1;
}

#if defined(T_SER_E1)
// E1_read_bytes: canonical acceptance (accepted => E1_write_bytes returns the
// input) and agreement with blst_p1_uncompress (the ZCash reference in BLST).
int LLVMFuzzerTestOneInput(const uint8_t *data, size_t size) {
  if (size < 1)
    return 0;
  int len = (data[0] & 1) ? G1_SER_BYTES : (int)(size - 1); // mostly exact length
  if (len > (int)size - 1)
    len = (int)size - 1;
  byte *in = (byte *)malloc(len ? len : 1);
  memcpy(in, data + 1, len);
  E1 p;
  ERROR r = E1_read_bytes(&p, in, len);
  if (r == VALID) {
    if (len != G1_SER_BYTES)
      TRAP("E1_read_bytes accepted a wrong length");
    byte out[G1_SER_BYTES];
    E1_write_bytes(out, &p);
    if (memcmp(out, in, G1_SER_BYTES) != 0)
      TRAP("E1_read_bytes accepted a string that does not re-encode to itself");
    if (!E1_is_infty(&p) && !E1_affine_on_curve(&p))
      TRAP("E1_read_bytes returned a point that is not on the curve");
  }
  if (len == G1_SER_BYTES) {
    POINTonE1_affine a;
    BLST_ERROR br = blst_p1_uncompress(&a, in);
    int blst_ok = (br == BLST_SUCCESS || br == BLST_POINT_NOT_IN_GROUP); // BLST reports (0, ±2) as "not in group": it is a curve point, membership is a separate check here
    if (blst_ok != (r == VALID))
      TRAP("E1_read_bytes and blst_p1_uncompress disagree on acceptance");
  }
  free(in);
  return 0;
}
#elif defined(T_SER_E2)
int LLVMFuzzerTestOneInput(const uint8_t *data, size_t size) {
  if (size < 1)
    return 0;
  int len = (data[0] & 1) ? G2_SER_BYTES : (int)(size - 1);
  if (len > (int)size - 1)
    len = (int)size - 1;
  byte *in = (byte *)malloc(len ? len : 1);
  memcpy(in, data + 1, len);
  E2 p;
  ERROR r = E2_read_bytes(&p, in, len);
  if (r == VALID) {
    if (len != G2_SER_BYTES)
      TRAP("E2_read_bytes accepted a wrong length");
    byte out[G2_SER_BYTES];
    E2_write_bytes(out, &p);
    if (memcmp(out, in, G2_SER_BYTES) != 0)
      TRAP("E2_read_bytes accepted a string that does not re-encode to itself");
    if (!E2_is_infty(&p) && !E2_affine_on_curve(&p))
      TRAP("E2_read_bytes returned a point that is not on the curve");
  }
  if (len == G2_SER_BYTES) {
    // differential against BLST's ZCash deserializer.  Known finding F1: the
    // library writes the two F_p coefficients as c0||c1, ZCash is c1||c0; with
    // -DVERIF_F1_SWAPPED the halves are exchanged (flags moved) before the comparison.
    byte z[G2_SER_BYTES];
#ifdef VERIF_F1_SWAPPED
    memcpy(z, in + 48, 48);
    memcpy(z + 48, in, 48);
    z[0] = (z[0] & 0x1F) | (in[0] & 0xE0);
    z[48] &= 0x1F;
    int top_bits_in_second_half = (in[48] & 0xE0) != 0; // the library's second coefficient must be < p anyway
#else
    memcpy(z, in, G2_SER_BYTES);
    int top_bits_in_second_half = 0;
#endif
    POINTonE2_affine a;
    BLST_ERROR br = blst_p2_uncompress(&a, z);
    int blst_ok = (br == BLST_SUCCESS || br == BLST_POINT_NOT_IN_GROUP) && !top_bits_in_second_half;
#ifdef VERIF_F1_SWAPPED
    // the flag bits that the swap moved away from what BLST sees as byte 48 were cleared above;
    // if the original first half had its own top bits set beyond the flags they are the flags.
#endif
    if (blst_ok != (r == VALID))
      TRAP("E2_read_bytes and blst_p2_uncompress disagree on acceptance");
  }
  free(in);
  return 0;
}
#elif defined(T_SER_FR)
// Fr_read_bytes / Fr_star_read_bytes: accepted iff 32 bytes big-endian below r (and non-zero), round trip.
static const byte R_BE[32] = {0x73, 0xed, 0xa7, 0x53, 0x29, 0x9d, 0x7d, 0x48, 0x33, 0x39, 0xd8, 0x08, 0x09, 0xa1, 0xd8, 0x05,
                              0x53, 0xbd, 0xa4, 0x02, 0xff, 0xfe, 0x5b, 0xfe, 0xff, 0xff, 0xff, 0xff, 0x00, 0x00, 0x00, 0x01};
int LLVMFuzzerTestOneInput(const uint8_t *data, size_t size) {
  if (size < 1)
    return 0;
  int len = (data[0] & 1) ? Fr_BYTES : (int)(size - 1);
  if (len > (int)size - 1)
    len = (int)size - 1;
  byte *in = (byte *)malloc(len ? len : 1);
  memcpy(in, data + 1, len);
  Fr a;
  ERROR r = Fr_read_bytes(&a, in, len);
  ERROR rs = Fr_star_read_bytes(&a, in, len);
  // (BLST's check_mod_256 rejects zero as well, so Fr_read_bytes never accepts 0; the only
  // caller reachable from the Go API is Fr_star_read_bytes, where 0 is excluded by contract)
  int want = (len == Fr_BYTES) && memcmp(in, R_BE, 32) < 0 && !all_zero(in, 32);
  int want_star = want;
  if ((r == VALID) != want)
    TRAP("Fr_read_bytes acceptance differs from (32 bytes, 0 < value < r)");
  if ((rs == VALID) != want_star)
    TRAP("Fr_star_read_bytes acceptance differs from (32 bytes, 0 < value < r)");
  if (want) {
    Fr b;
    Fr_read_bytes(&b, in, len);
    byte out[Fr_BYTES];
    Fr_write_bytes(out, &b);
    if (memcmp(out, in, Fr_BYTES) != 0)
      TRAP("Fr_read_bytes / Fr_write_bytes do not round-trip");
  }
  // map_bytes_to_Fr on any length >= 1: result must be reduced
  if (len > 0) {
    Fr m;
    bool zero = map_bytes_to_Fr(&m, in, len);
    byte out[Fr_BYTES];
    Fr_write_bytes(out, &m);
    if (memcmp(out, R_BE, 32) >= 0)
      TRAP("map_bytes_to_Fr returned a non-reduced scalar");
    if (zero != (bool)all_zero(out, 32))
      TRAP("map_bytes_to_Fr zero flag inconsistent");
  }
  free(in);
  return 0;
}
#elif defined(T_SUM_VECTOR)
// E1_sum_vector_byte as called by AggregateBLSSignatures: k >= 1 elements of 48 bytes.
// Oracle: accepted => every element parses, and the sum of (x, -x) pairs appended is unchanged.
int LLVMFuzzerTestOneInput(const uint8_t *data, size_t size) {
  size_t k = size / G1_SER_BYTES;
  if (k < 1 || k > 64)
    return 0;
  byte *in = (byte *)malloc(k * G1_SER_BYTES);
  memcpy(in, data, k * G1_SER_BYTES);
  byte out[G1_SER_BYTES];
  int r = E1_sum_vector_byte(out, in, (int)(k * G1_SER_BYTES));
  int all_ok = 1;
  E1 acc, t;
  E1_set_infty(&acc);
  for (size_t i = 0; i < k; i++) {
    if (E1_read_bytes(&t, in + i * G1_SER_BYTES, G1_SER_BYTES) != VALID) {
      all_ok = 0;
      break;
    }
    E1_add(&acc, &acc, &t);
  }
  if ((r == VALID) != all_ok)
    TRAP("E1_sum_vector_byte acceptance differs from 'every element parses'");
  if (r == VALID) {
    byte want[G1_SER_BYTES];
    E1_write_bytes(want, &acc);
    if (memcmp(want, out, G1_SER_BYTES) != 0)
      TRAP("E1_sum_vector_byte differs from the element-wise sum");
  }
  free(in);
  return 0;
}
#elif defined(T_LAGRANGE)
// E1_lagrange_interpolate_at_zero_write as called by the reconstruction: degree+1 shares of 48
// bytes and degree+1 distinct non-zero indices.  Oracle: no memory error; a valid result is a
// canonical G1_SER_BYTES encoding; with all shares equal to s·(same point)… only memory safety and canonicity here.
int LLVMFuzzerTestOneInput(const uint8_t *data, size_t size) {
  if (size < 2)
    return 0;
  int degree = data[0] % 24; // up to 24 shares: crosses the 8-index limb batching three times
  size_t need = 1 + (size_t)(degree + 1) + (size_t)(degree + 1) * G1_SER_BYTES;
  if (size < need)
    return 0;
  byte idx[256];
  byte seen[256] = {0};
  for (int i = 0; i <= degree; i++) {
    byte v = data[1 + i];
    while (v == 0 || seen[v]) // distinct, non-zero (the Go layer guarantees both)
      v++;
    seen[v] = 1;
    idx[i] = v;
  }
  byte *shares = (byte *)malloc((size_t)(degree + 1) * G1_SER_BYTES);
  memcpy(shares, data + 1 + degree + 1, (size_t)(degree + 1) * G1_SER_BYTES);
  byte out[G1_SER_BYTES];
  int r = E1_lagrange_interpolate_at_zero_write(out, shares, idx, degree);
  int all_ok = 1;
  E1 t;
  for (int i = 0; i <= degree; i++)
    if (E1_read_bytes(&t, shares + (size_t)i * G1_SER_BYTES, G1_SER_BYTES) != VALID)
      all_ok = 0;
  if ((r == VALID) != all_ok)
    TRAP("E1_lagrange_interpolate_at_zero_write acceptance differs from 'every share parses'");
  if (r == VALID) {
    E1 p;
    if (E1_read_bytes(&p, out, G1_SER_BYTES) != VALID)
      TRAP("E1_lagrange_interpolate_at_zero_write returned a non-canonical encoding");
  }
  free(shares);
  return 0;
}
#elif defined(T_G2_VECTOR)
// G2_vector_read_bytes as called by the DKG: len elements of 96 bytes.
int LLVMFuzzerTestOneInput(const uint8_t *data, size_t size) {
  size_t k = size / G2_SER_BYTES;
  if (k < 1 || k > 8)
    return 0;
  byte *in = (byte *)malloc(k * G2_SER_BYTES);
  memcpy(in, data, k * G2_SER_BYTES);
  E2 *A = (E2 *)malloc(k * sizeof(E2));
  ERROR r = G2_vector_read_bytes(A, in, (int)k);
  int all_ok = 1;
  E2 t;
  for (size_t i = 0; i < k; i++)
    if (E2_read_bytes(&t, in + i * G2_SER_BYTES, G2_SER_BYTES) != VALID || !E2_in_G2(&t))
      all_ok = 0;
  if ((r == VALID) != all_ok)
    TRAP("G2_vector_read_bytes acceptance differs from 'every element is a canonical G2 element'");
  if (r == VALID) {
    byte *out = (byte *)malloc(k * G2_SER_BYTES);
    E2_vector_write_bytes(out, A, (int)k);
    if (memcmp(out, in, k * G2_SER_BYTES) != 0)
      TRAP("G2 vector does not round-trip");
    free(out);
  }
  free(A);
  free(in);
  return 0;
}
#elif defined(T_VERIFY)
// bls_verify / bls_spock_verify / bls_batch_verify with arbitrary signature bytes under fixed valid keys.
int LLVMFuzzerTestOneInput(const uint8_t *data, size_t size) {
  if (size < 1 + 128)
    return 0;
  static int init = 0;
  static E2 pk1, pk2;
  static Fr sk1, sk2;
  if (!init) {
    Fr_set_limb(&sk1, 7);
    Fr_set_limb(&sk2, 11);
    G2_mult_gen_to_affine(&pk1, &sk1);
    G2_mult_gen_to_affine(&pk2, &sk2);
    init = 1;
  }
  const byte *hash = data + 1;
  size_t n = (size - 1 - 128) / G1_SER_BYTES;
  if (n < 1)
    return 0;
  if (n > 9)
    n = 9;
  byte *sigs = (byte *)malloc(n * G1_SER_BYTES);
  memcpy(sigs, data + 1 + 128, n * G1_SER_BYTES);
  // the honest signature of sk1 on this hash is always accepted, the fuzzed one only if equal
  byte good[G1_SER_BYTES];
  bls_sign(good, &sk1, hash, 128);
  if (bls_verify(&pk1, good, hash, 128) != VALID)
    TRAP("bls_verify rejects bls_sign output");
  int v = bls_verify(&pk1, sigs, hash, 128);
  if (v == VALID && memcmp(sigs, good, G1_SER_BYTES) != 0)
    TRAP("bls_verify accepted a string different from the signature");
  if (v != VALID && v != INVALID)
    TRAP("bls_verify returned an undefined code");
  if (n >= 2) {
    int s = bls_spock_verify(&pk1, sigs, &pk2, sigs + G1_SER_BYTES);
    if (s != VALID && s != INVALID)
      TRAP("bls_spock_verify returned an undefined code");
  }
  // batch: position 0 carries the honest signature when the selector says so
  if (data[0] & 1)
    memcpy(sigs, good, G1_SER_BYTES);
  E2 *pks = (E2 *)malloc(n * sizeof(E2));
  for (size_t i = 0; i < n; i++)
    E2_copy(&pks[i], &pk1);
  byte *res = (byte *)malloc(n);
  byte *seed = (byte *)malloc(16 * n);
  for (size_t i = 0; i < 16 * n; i++)
    seed[i] = (byte)(i * 37 + data[0] + 1);
  bls_batch_verify((int)n, res, pks, sigs, hash, 128, seed);
  for (size_t i = 0; i < n; i++) {
    int want = memcmp(sigs + i * G1_SER_BYTES, good, G1_SER_BYTES) == 0;
    if ((res[i] == VALID) != want)
      TRAP("bls_batch_verify verdict differs from 'equals the signature'");
  }
  free(seed);
  free(res);
  free(pks);
  free(sigs);
  return 0;
}
#elif defined(T_MULTI)
// bls_verifyPerDistinctMessage vs bls_verifyPerDistinctKey: the two groupings that
// VerifyBLSSignatureManyMessages chooses between must give the same verdict for the same list of
// (key, message) pairs, and must accept the aggregate sum sk_i·H(m_i) (C02).
#define NK 4
#define NM 4
#define MAXN 7
int LLVMFuzzerTestOneInput(const uint8_t *data, size_t size) {
  if (size < 2 + MAXN + G1_SER_BYTES)
    return 0;
  static int init = 0;
  static Fr sks[NK];
  static E2 pks[NK];
  static byte hashes[NM][128];
  if (!init) {
    limb_t v[NK] = {3, 5, 7, 11};
    for (int i = 0; i < NK; i++) {
      Fr_set_limb(&sks[i], v[i]);
      G2_mult_gen_to_affine(&pks[i], &sks[i]);
    }
    Fr_neg(&sks[3], &sks[0]); // key 3 = -key 0 : cancelling keys
    G2_mult_gen_to_affine(&pks[3], &sks[3]);
    for (int m = 0; m < NM; m++)
      for (int j = 0; j < 128; j++)
        hashes[m][j] = (byte)(m * 131 + j * 7 + 1);
    init = 1;
  }
  int n = 1 + data[0] % MAXN;
  int use_good = data[1] & 1;
  int ki[MAXN], mi[MAXN];
  for (int i = 0; i < n; i++) {
    ki[i] = data[2 + i] % NK;
    mi[i] = (data[2 + i] / NK) % NM;
  }
  // the correct aggregate
  E1 acc, t;
  E1_set_infty(&acc);
  for (int i = 0; i < n; i++) {
    byte s[G1_SER_BYTES];
    bls_sign(s, &sks[ki[i]], hashes[mi[i]], 128);
    if (E1_read_bytes(&t, s, G1_SER_BYTES) != VALID)
      TRAP("bls_sign produced an undecodable signature");
    E1_add(&acc, &acc, &t);
  }
  byte sig[G1_SER_BYTES];
  if (use_good)
    E1_write_bytes(sig, &acc);
  else
    memcpy(sig, data + 2 + MAXN, G1_SER_BYTES);
  // grouping per distinct message
  byte flat_h[MAXN * 128];
  uint32_t len_h[MAXN], per_h[MAXN];
  E2 flat_pk[MAXN];
  int nb_h = 0, off_pk = 0;
  for (int m = 0; m < NM; m++) {
    int c = 0;
    for (int i = 0; i < n; i++)
      if (mi[i] == m) {
        E2_copy(&flat_pk[off_pk++], &pks[ki[i]]);
        c++;
      }
    if (c) {
      memcpy(flat_h + nb_h * 128, hashes[m], 128);
      len_h[nb_h] = 128;
      per_h[nb_h] = c;
      nb_h++;
    }
  }
  int va = bls_verifyPerDistinctMessage(sig, nb_h, flat_h, len_h, per_h, flat_pk);
  // grouping per distinct key
  E2 dpk[MAXN];
  uint32_t per_k[MAXN], len_h2[MAXN];
  byte flat_h2[MAXN * 128];
  int nb_k = 0, off_h = 0;
  for (int k = 0; k < NK; k++) {
    int c = 0;
    for (int i = 0; i < n; i++)
      if (ki[i] == k) {
        memcpy(flat_h2 + off_h * 128, hashes[mi[i]], 128);
        len_h2[off_h++] = 128;
        c++;
      }
    if (c) {
      E2_copy(&dpk[nb_k], &pks[k]);
      per_k[nb_k] = c;
      nb_k++;
    }
  }
  int vb = bls_verifyPerDistinctKey(sig, nb_k, dpk, per_k, flat_h2, len_h2);
  if (va != vb)
    TRAP("per-message and per-key groupings give different verdicts for the same (key, message) pairs");
  if (va != VALID && va != INVALID)
    TRAP("aggregate verification returned an undefined code");
  if (use_good && va != VALID)
    TRAP("the aggregate of the individual signatures is rejected");
  if (!use_good && va == VALID) {
    byte want[G1_SER_BYTES];
    E1_write_bytes(want, &acc);
    if (memcmp(want, sig, G1_SER_BYTES) != 0)
      TRAP("a string different from the aggregate signature is accepted");
  }
  return 0;
}
#elif defined(T_POLY)
// The DKG's polynomial evaluations (C07 / C08: public key shares are derived from the verification vector, a share is
// checked against them):  E2_polynomial_image(A, x) = sum_k x^k A_k  for every vector A, including vectors with
// entries at infinity and entries in Jacobian form, and  Fr_polynomial_image(a, x) = sum_k a_k x^k  with y = that·g2.
// The coefficients are small known multiples c_k of the generator, so the expected value (sum_k c_k x^k)·g2 is
// computed in plain 64-bit integer arithmetic: degree <= 5, c_k < 2^16, x <= 255 keep the sum below 2^63.
int LLVMFuzzerTestOneInput(const uint8_t *data, size_t size) {
  if (size < 2)
    return 0;
  int degree = data[0] % 6;
  byte x = data[1] ? data[1] : 1;
  if (size < 2 + 3 * (size_t)(degree + 1))
    return 0;
  E2 A[6];
  Fr a[6];
  uint64_t c[6];
  for (int k = 0; k <= degree; k++) {
    const uint8_t *q = data + 2 + 3 * k;
    c[k] = ((uint64_t)q[0] << 8) | q[1];
    Fr_set_limb(&a[k], (limb_t)c[k]);
    if (c[k] == 0) {
      E2_set_infty(&A[k]);
    } else if (q[2] & 1) {
      G2_mult_gen(&A[k], &a[k]); // projective representation
    } else {
      G2_mult_gen_to_affine(&A[k], &a[k]);
    }
  }
  uint64_t sum = 0, pw = 1;
  for (int k = 0; k <= degree; k++) {
    sum += c[k] * pw;
    pw *= x;
  }
  Fr s;
  Fr_set_limb(&s, (limb_t)sum);
  E2 want;
  G2_mult_gen(&want, &s);
  E2 y;
  E2_polynomial_image(&y, A, degree, x);
  if (!E2_is_equal(&y, &want))
    TRAP("E2_polynomial_image differs from (sum c_k x^k)·g2");
  Fr img;
  E2 y2;
  Fr_polynomial_image(&img, &y2, a, degree, x);
  if (!Fr_is_equal(&img, &s))
    TRAP("Fr_polynomial_image differs from sum a_k x^k");
  if (!E2_is_equal(&y2, &want))
    TRAP("Fr_polynomial_image: y differs from P(x)·g2");
  if (x <= 6) { // the batch form used by the DKG: y[i] = Q(i+1)
    E2 ys[6];
    E2_polynomial_images(ys, x, A, degree);
    if (!E2_is_equal(&ys[x - 1], &want))
      TRAP("E2_polynomial_images[x-1] differs from Q(x)");
  }
  if (G2_check_log(&s, &want) != 1)
    TRAP("G2_check_log rejects s·g2");
  return 0;
}
#else
#error "define one of T_SER_E1 T_SER_E2 T_SER_FR T_SUM_VECTOR T_LAGRANGE T_G2_VECTOR T_VERIFY T_MULTI T_POLY"
#endif
