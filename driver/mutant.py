#!/usr/bin/env python3
"""Sensitivity run: apply a patch to a scratch copy of /repo and run checks against the copy.

  driver/mutant.py <patch> <ID> [<ID>...] [--tier quick] [--suite]   (--suite also runs the repository's own tests on the mutant)

Expected: ./check exits 1 with a VIOLATION line.  The scratch copy is removed afterwards.
"""
import os, shutil, subprocess, sys, tempfile
verif = os.path.dirname(os.path.dirname(os.path.abspath(__file__)))
args = [a for a in sys.argv[1:] if not a.startswith("--")]
patch, ids = os.path.abspath(args[0]), args[1:]
tier = "quick"
if "--tier" in sys.argv:
    tier = sys.argv[sys.argv.index("--tier") + 1]
    ids = [i for i in ids if i != tier]
d = tempfile.mkdtemp(prefix="mut-", dir="/tmp")
try:
    subprocess.check_call(["rsync", "-a", "--exclude", ".git", "/repo/", d + "/"])
    r = subprocess.run(["patch", "-p1", "-s", "-d", d, "-i", patch])
    if r.returncode != 0:
        print("PATCH-FAILED", patch); sys.exit(3)
    if "--suite" in sys.argv:
        env = dict(os.environ); env.pop("GOFLAGS", None); env["GOPROXY"] = "off"
        r = subprocess.run("go test -vet=off -count=1 ./... 2>&1 | tail -15", shell=True, cwd=d, env=env, capture_output=True, text=True)
        print("SUITE:", "PASS" if "FAIL" not in r.stdout else "FAIL"); print(r.stdout[-1500:])
    rc_all = {}
    for pid in ids:
        env = dict(os.environ); env["VERIF_REPO"] = d
        r = subprocess.run([os.path.join(verif, "check"), pid, "--tier", tier], env=env, capture_output=True, text=True)
        tail = [l for l in r.stdout.splitlines() if l.startswith(("VIOLATION", "INCONCLUSIVE", "BUILD-ERROR", "C"))][-3:]
        print("%s on %s: exit %d  %s" % (pid, os.path.basename(patch), r.returncode, " | ".join(t[:200] for t in tail)))
        if "--verbose" in sys.argv:
            print(r.stdout[-3000:])
        rc_all[pid] = r.returncode
        # evidence and replays written by a mutant run are not evidence for /repo
        for f in os.listdir(os.path.join(verif, "replays", pid)) if os.path.isdir(os.path.join(verif, "replays", pid)) else []:
            if f.startswith("new-"):
                os.remove(os.path.join(verif, "replays", pid, f))
    sys.exit(0 if all(v == 1 for v in rc_all.values()) else 1)
finally:
    shutil.rmtree(d, ignore_errors=True)
    shutil.rmtree(os.path.join(verif, ".work", "mod-" + __import__("hashlib").sha1(d.encode()).hexdigest()[:10]), ignore_errors=True)
    import glob
    for f in glob.glob(os.path.join(verif, ".work", "bin", "*-" + __import__("hashlib").sha1(d.encode()).hexdigest()[:8] + ".test")):
        os.remove(f)
