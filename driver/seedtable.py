#!/usr/bin/env python3
"""Prints the markdown table of DESIGN.md section 11 from seeded/*/meta.json and writes it into DESIGN.md."""
import glob, json, os, re
verif = os.path.dirname(os.path.dirname(os.path.abspath(__file__)))
rows = []
for mp in sorted(glob.glob(os.path.join(verif, "seeded", "*", "meta.json"))):
    m = json.load(open(mp))
    name = os.path.basename(os.path.dirname(mp))
    am = m.get("author_meta", {})
    summ = (am.get("summary") or "").replace("\n", " ").replace("|", "/")
    when = (am.get("manifests_when") or "").replace("\n", " ").replace("|", "/")
    if len(summ) > 230:
        summ = summ[:227] + "…"
    if len(when) > 200:
        when = when[:197] + "…"
    cb = m.get("confirmed_by_us", {})
    conf = "yes" if cb.get("demo_passes_without_change") and cb.get("demo_fails_with_change") and cb.get("suite_passes_with_change") else "partly: %s" % {k: v for k, v in cb.items() if k != "demo_location"}
    ch = []
    for k, v in (m.get("checks") or {}).items():
        ch.append("%s %s: %s" % (k, v.get("tier", ""), {0: "held (missed)", 1: "VIOLATION", 2: "inconclusive"}.get(v.get("exit"), v.get("exit"))))
    if m.get("recheck"):
        ch.append("final recheck %s: %s" % (m["recheck"].get("tier"), {0: "held (missed)", 1: "VIOLATION", 2: "inconclusive"}.get(m["recheck"].get("exit"))))
    if cb.get("note"):
        conf += " (" + cb["note"][:160] + ")"
    rows.append("| `%s` | %s | %s | %s | %s |" % (name, summ, when, conf, "; ".join(ch)))
table = "| seed | change | needs, in order to manifest | confirmed (demo fails with / passes without, suite passes) | checks run against it |\n|---|---|---|---|---|\n" + "\n".join(rows)
print(table)
p = os.path.join(verif, "DESIGN.md")
s = open(p).read()
a = s.find("<!-- SEEDTABLE-BEGIN -->")
b = s.find("<!-- SEEDTABLE-END -->")
if a >= 0 and b > a:
    s = s[:a] + "<!-- SEEDTABLE-BEGIN -->\n" + table + "\n" + s[b:]
    open(p, "w").write(s)
