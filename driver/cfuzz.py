"""libFuzzer engine on the C layer (cfuzz/fz.c): build, run, evidence.

  build(targets, repo, verif, work, goenv, log, f1_swapped) -> dict target->path | None
  command(job, tier, n, seed, rundir, repo, verif, work)     -> (cmd, cwd)   (runs this file as a wrapper)
  replay(path, ...)                                         -> 0 | 1 | 2

Run as a script it is the wrapper around one fuzzing job: it runs the target on a scratch copy of the
committed seed corpus, parses libFuzzer's statistics into VERIF_STATS, and leaves crash artefacts in the
job directory (the driver turns them into VIOLATION lines).
"""
import glob
import hashlib
import json
import os
import re
import shutil
import subprocess
import sys

TARGETS = ["SER_E1", "SER_E2", "SER_FR", "SUM_VECTOR", "LAGRANGE", "G2_VECTOR", "VERIFY", "MULTI", "POLY"]
MAXLEN = {"SER_E1": 120, "SER_E2": 220, "SER_FR": 80, "SUM_VECTOR": 48 * 12, "LAGRANGE": 1 + 25 + 25 * 48, "G2_VECTOR": 96 * 5, "VERIFY": 1 + 128 + 48 * 9, "MULTI": 80, "POLY": 2 + 3 * 6}


def out_dir(repo, work):
    tag = hashlib.sha1(os.path.abspath(repo).encode()).hexdigest()[:10]
    return os.path.join(work, "cfuzz", tag)


def build(targets, repo, verif, work, goenv, log, f1_swapped=True):
    if not shutil.which("clang"):
        log("BUILD-ERROR: clang not found (libFuzzer engine unavailable)")
        return None
    repo = os.path.abspath(repo)
    d = out_dir(repo, work)
    os.makedirs(d, exist_ok=True)
    procs = {}
    for t in targets:
        out = os.path.join(d, "fz_" + t)
        cmd = ["clang", "-O1", "-g", "-fsanitize=fuzzer,address,undefined", "-fno-sanitize=alignment", "-fno-sanitize-recover=undefined",
               "-I" + repo, "-I" + repo + "/blst_src", "-I" + repo + "/blst_src/build", "-D__BLST_CGO__", "-D__ADX__", "-mno-avx",
               "-fno-builtin-memcpy", "-fno-builtin-memset", "-w", "-DT_" + t]
        if f1_swapped:
            cmd.append("-DVERIF_F1_SWAPPED")
        cmd += ["-o", out, os.path.join(verif, "cfuzz", "fz.c"), os.path.join(repo, "blst_assembly.S")]
        procs[t] = (out, subprocess.Popen(cmd, stdout=subprocess.PIPE, stderr=subprocess.STDOUT, text=True))
    res = {}
    for t, (out, p) in procs.items():
        o, _ = p.communicate()
        if p.returncode != 0:
            log("BUILD-ERROR (cfuzz %s):\n%s" % (t, o[-3000:]))
            return None
        res[t] = out
    return res


def command(job, tier, n, seed, rundir, repo, verif, work):
    return [sys.executable, os.path.abspath(__file__), job["target"], tier, str(n), str(seed), rundir, os.path.abspath(repo), verif, work], rundir


def replay(path, repo, verif, work, goenv, log):
    """path = crash artefact named artefact-<TARGET>-...; re-runs the target on it."""
    m = re.search(r"artefact-([A-Z0-9_]+)-", os.path.basename(path))
    if not m or m.group(1) not in TARGETS:
        return None
    t = m.group(1)
    known = json.load(open(os.path.join(verif, "known_findings.json"))).get("findings", [])
    f1 = any(k["id"] == "F1" and k.get("status") == "known" for k in known)
    b = build([t], repo, verif, work, goenv, log, f1)
    if not b:
        return 2
    r = subprocess.run([b[t], path], capture_output=True, text=True)
    log((r.stdout + r.stderr)[-2500:])
    return 0 if r.returncode == 0 else 1


def main():
    target, tier, n, seed, rundir, repo, verif, work = sys.argv[1:9]
    n, seed = int(n), int(seed)
    exe = os.path.join(out_dir(repo, work), "fz_" + target)
    corpus = os.path.join(rundir, "corpus")
    shutil.copytree(os.path.join(verif, "corpus", target), corpus)
    nseed = len(os.listdir(corpus))
    prefix = os.path.join(rundir, "artefact-%s-" % target)
    cmd = [exe, "-seed=%d" % (seed % (2 ** 31 - 1) + 1), "-max_len=%d" % MAXLEN[target], "-artifact_prefix=" + prefix, "-print_final_stats=1", "-timeout=60"]
    if tier == "thorough":
        cmd += ["-fork=%d" % int(os.environ.get("VERIF_CFUZZ_FORK", "4")), "-max_total_time=%d" % n, "-ignore_crashes=0"]
    else:
        cmd += ["-runs=%d" % n]
    cmd.append(corpus)
    env = dict(os.environ)
    env["ASAN_OPTIONS"] = "abort_on_error=1:detect_leaks=0"
    env["UBSAN_OPTIONS"] = "halt_on_error=1:print_stacktrace=1"
    r = subprocess.run(cmd, stdout=subprocess.PIPE, stderr=subprocess.STDOUT, text=True, env=env, cwd=rundir)
    out = r.stdout
    execs = 0
    m = re.findall(r"stat::number_of_executed_units:\s*(\d+)", out)
    if m:
        execs = sum(int(x) for x in m)
    else:
        m = re.findall(r"^#(\d+)[:\s]", out, re.M)
        execs = max([int(x) for x in m] or [0])
    corp = len(os.listdir(corpus))
    cov = re.findall(r"cov: (\d+) ft: (\d+)", out)
    samples = []
    for f in sorted(os.listdir(corpus))[:3]:
        samples.append({"target": target, "input_hex": open(os.path.join(corpus, f), "rb").read()[:160].hex()})
    stats = {"evaluations": execs, "nontrivial": corp, "extra_distinct": corp, "classes": {"cfuzz:" + target + ":executions": execs, "cfuzz:" + target + ":corpus": corp},
             "skipped": {}, "hashes": [], "samples": samples, "exhaustive": [],
             "info": {"cfuzz:" + target: {"seed_corpus": nseed, "final_corpus": corp, "coverage_edges": int(cov[-1][0]) if cov else None, "features": int(cov[-1][1]) if cov else None, "pinned": tier != "thorough"}}}
    with open(os.environ.get("VERIF_STATS", os.path.join(rundir, "stats.json")), "w") as f:
        json.dump(stats, f)
    crashes = glob.glob(prefix + "*")
    sys.stdout.write(out[-6000:])
    if crashes:
        sys.exit(1)
    if r.returncode != 0:
        sys.exit(3)  # the fuzzer itself failed without leaving an artefact: infrastructure
    sys.exit(0)


if __name__ == "__main__":
    main()
