#!/usr/bin/env python3
"""Evaluates one independently written seeded change against the checks.

  driver/seedeval.py <worktree>/SEED <X> <ID> [more IDs] [--tier quick|thorough] [--keep]

1. copies the seed into /verif/seeded/<ID>-<X>/ (patch.diff, demo test, meta.json);
2. confirms it in a scratch copy of /repo: the demonstration passes without the patch and fails with it, and the repository's own suite still passes with it;
3. runs the named checks against the patched scratch copy (VERIF_REPO) and records which ones report a violation.
The scratch copy and its build output are removed afterwards.
"""
import json, os, re, shutil, subprocess, sys, tempfile, glob, hashlib
verif = os.path.dirname(os.path.dirname(os.path.abspath(__file__)))
args = [a for a in sys.argv[1:] if not a.startswith("--")]
seeddir, X, ids = args[0], args[1], args[2:]
tier = "quick"
if "--tier" in sys.argv:
    tier = sys.argv[sys.argv.index("--tier") + 1]
    ids = [i for i in ids if i != tier]
pid = ids[0]
dst = os.path.join(verif, "seeded", "%s-%s%s" % (pid, X, os.environ.get("SEED_SUFFIX", "")))
os.makedirs(dst, exist_ok=True)
shutil.copy(os.path.join(seeddir, X + ".patch.diff"), os.path.join(dst, "patch.diff"))
demo_src = os.path.join(seeddir, X + "_demo_test.go.txt")
demo_txt = open(demo_src).read()
shutil.copy(demo_src, os.path.join(dst, "demo_test.go.txt"))
meta = {}
try:
    meta = json.load(open(os.path.join(seeddir, X + ".meta.json")))
except Exception as e:
    meta = {"note": "author's meta.json unreadable: %s" % e}
# where does the demo go?
first = demo_txt.splitlines()[0] if demo_txt else ""
m = re.search(r"([\w/\.]*zz_seed\w*_test\.go)", first)
rel = m.group(1) if m else "zz_seed_demo_test.go"
rel = rel.split("WORKTREE/")[-1]
rel = re.sub(r"^/tmp/seed-C\d+/", "", rel).lstrip("/")
pkgdir = os.path.dirname(rel)
pkg = "./" + pkgdir if pkgdir else "."
d = tempfile.mkdtemp(prefix="seedeval-", dir="/tmp")
env = dict(os.environ); env.pop("GOFLAGS", None); env["GOPROXY"] = "off"
res = {"demo_location": rel}
def run(cmd, **kw):
    return subprocess.run(cmd, shell=True, cwd=d, env=env, capture_output=True, text=True, **kw)
try:
    subprocess.check_call(["rsync", "-a", "--exclude", ".git", "--exclude", "SEED", "/repo/", d + "/"])
    open(os.path.join(d, rel), "w").write(demo_txt)
    r = run("go test -vet=off -count=1 -run 'Seed|ZZ' %s 2>&1 | tail -30" % pkg)
    res["demo_passes_without_change"] = ("FAIL" not in r.stdout) and ("ok" in r.stdout)
    os.remove(os.path.join(d, rel))
    r = subprocess.run(["git", "apply", "--unsafe-paths", "--directory=" + d, os.path.join(dst, "patch.diff")], capture_output=True, text=True, cwd="/")
    if r.returncode != 0:
        r = subprocess.run(["patch", "-p1", "-s", "-d", d, "-i", os.path.join(dst, "patch.diff")], capture_output=True, text=True)
    res["patch_applies"] = r.returncode == 0
    r = run("go test -vet=off -count=1 ./... 2>&1 | tail -8")
    res["suite_passes_with_change"] = "FAIL" not in r.stdout and r.stdout.count("ok") >= 3
    res["suite_tail"] = r.stdout[-400:]
    open(os.path.join(d, rel), "w").write(demo_txt)
    r = run("go test -vet=off -count=1 -run 'Seed|ZZ' %s 2>&1 | tail -30" % pkg)
    res["demo_fails_with_change"] = "FAIL" in r.stdout
    res["demo_tail_with_change"] = r.stdout[-600:]
    os.remove(os.path.join(d, rel))
    checks = {}
    for cid in ids:
        e2 = dict(os.environ); e2["VERIF_REPO"] = d
        r = subprocess.run([os.path.join(verif, "check"), cid, "--tier", tier], env=e2, capture_output=True, text=True)
        viol = [l for l in r.stdout.splitlines() if l.startswith("VIOLATION")]
        msg = ""
        for f in [v.split("replay=")[-1] for v in viol][:1]:
            try:
                msg = json.load(open(f)).get("message", "")[:300]
            except Exception:
                msg = open(f, errors="replace").read()[:300] if os.path.exists(f) else ""
        checks[cid] = {"tier": tier, "exit": r.returncode, "violations": len(viol), "first_message": msg}
        for f in glob.glob(os.path.join(verif, "replays", cid, "new-*")):
            os.remove(f)
    res["checks"] = checks
    res["detected"] = any(c["exit"] == 1 for c in checks.values())
finally:
    shutil.rmtree(d, ignore_errors=True)
    h = hashlib.sha1(d.encode()).hexdigest()
    shutil.rmtree(os.path.join(verif, ".work", "mod-" + h[:10]), ignore_errors=True)
    shutil.rmtree(os.path.join(verif, ".work", "c20", h[:10]), ignore_errors=True)
    shutil.rmtree(os.path.join(verif, ".work", "cfuzz", h[:10]), ignore_errors=True)
    shutil.rmtree(os.path.join(verif, ".work", "alt", h[:8]), ignore_errors=True)
    for f in glob.glob(os.path.join(verif, ".work", "bin", "*-" + h[:8] + ".test")):
        os.remove(f)
out = {"property": pid, "seed": X, "author_meta": meta, "confirmed_by_us": {k: res.get(k) for k in ("demo_location", "demo_passes_without_change", "patch_applies", "suite_passes_with_change", "demo_fails_with_change")},
       "what_we_ran": "scratch copy of /repo (rsync) + patch; `go test -run 'Seed|ZZ' <pkg>` with and without the patch; `go test ./...` with the patch; `VERIF_REPO=<copy> ./check <ID> --tier %s`" % tier,
       "checks": res.get("checks"), "detected": res.get("detected"), "demo_tail_with_change": res.get("demo_tail_with_change", "")[-300:]}
old = {}
mp = os.path.join(dst, "meta.json")
if os.path.exists(mp):
    try:
        old = json.load(open(mp))
    except Exception:
        old = {}
if old.get("checks") and out.get("checks"):
    merged = dict(old["checks"]); 
    for k, v in out["checks"].items():
        merged[k + ("@" + tier if k in merged and merged[k].get("tier") != tier else "")] = v
    out["checks"] = merged
    out["detected"] = any(c["exit"] == 1 for c in merged.values())
json.dump(out, open(mp, "w"), indent=1)
print("%s-%s%s: demo ok/fail = %s/%s, suite passes = %s, detected = %s  %s" % (pid, X, os.environ.get("SEED_SUFFIX", ""), res.get("demo_passes_without_change"), res.get("demo_fails_with_change"), res.get("suite_passes_with_change"),
      res.get("detected"), {k: v["exit"] for k, v in (res.get("checks") or {}).items()}))
