"""C15, in-package part: builds the `go test -overlay` command that injects
harness/inpkg/random/c15_inpkg_test.go into package random of the repository
under test (the repository itself is never written to).

  command(job, tier, n, seed, rundir, repo, verif, work) -> (cmd, cwd)
  build(repo, verif, work, goenv, log)                   -> bool   (optional cache warm-up / compile check)
  replay(path, repo, verif, work, goenv, log)            -> 0 | 1 | 2

The go.mod / go.sum used are private copies inside `rundir` (-modfile), so that
running `go` with cwd = repo cannot touch the repository's go.sum.  The driver
provides GOFLAGS=-mod=mod GOPROXY=off and the VERIF_* variables.
"""
import json
import os
import shutil
import subprocess
import tempfile

INJECTED_NAME = "zz_verif_c15_test.go"
SOURCE = os.path.join("harness", "inpkg", "random", "c15_inpkg_test.go")
TESTS = ("TestVerifC15_UintN", "TestVerifC15_Perm", "TestVerifC15_Deep")


def prepare(rundir, repo, verif):
    """Writes go.mod, go.sum and overlay.json into rundir; returns (modfile, overlay)."""
    repo = os.path.abspath(repo)
    os.makedirs(rundir, exist_ok=True)
    modfile = os.path.join(rundir, "go.mod")
    shutil.copy(os.path.join(repo, "go.mod"), modfile)
    shutil.copy(os.path.join(repo, "go.sum"), os.path.join(rundir, "go.sum"))
    os.chmod(modfile, 0o644)
    os.chmod(os.path.join(rundir, "go.sum"), 0o644)
    overlay = os.path.join(rundir, "overlay.json")
    src = os.path.join(os.path.abspath(verif), SOURCE)
    if not os.path.exists(src):
        raise RuntimeError("missing " + src)
    with open(overlay, "w") as f:
        json.dump({"Replace": {os.path.join(repo, "random", INJECTED_NAME): src}}, f)
    return modfile, overlay


def command(job, tier, n, seed, rundir, repo, verif, work):
    modfile, overlay = prepare(rundir, repo, verif)
    cmd = ["go", "test", "-modfile=" + modfile, "-overlay=" + overlay, "-count=1", "-vet=off", "-timeout", "0",
           "-v", "-run", "^%s$" % job["test"], "./random"]
    return cmd, os.path.abspath(repo)


def build(repo, verif, work, goenv, log):
    """Compiles package random with the injected file once (fills the build cache, reports compile errors early)."""
    d = tempfile.mkdtemp(prefix="c15-build-", dir=work if os.path.isdir(work) else None)
    try:
        modfile, overlay = prepare(d, repo, verif)
        cmd = ["go", "test", "-modfile=" + modfile, "-overlay=" + overlay, "-count=1", "-vet=off", "-run", "^$", "./random"]
        r = subprocess.run(cmd, cwd=os.path.abspath(repo), env=goenv(), capture_output=True, text=True)
        if r.returncode != 0:
            log("BUILD-ERROR (%s):\n%s%s" % (" ".join(cmd), r.stdout[-4000:], r.stderr[-4000:]))
            return False
        return True
    finally:
        shutil.rmtree(d, ignore_errors=True)


def replay(path, repo, verif, work, goenv, log):
    """Re-runs the parameters of a failure record. 1 = still fails (violation), 0 = passes, 2 = cannot interpret."""
    try:
        rec = json.load(open(path))
    except Exception as e:  # noqa: BLE001
        log("REPLAY-ERROR: cannot read %s: %s" % (path, e))
        return 2
    test = rec.get("test")
    if rec.get("property") != "C15" or test not in TESTS:
        log("REPLAY-ERROR: %s is not a record of the in-package C15 tests" % path)
        return 2
    os.makedirs(work, exist_ok=True)
    d = tempfile.mkdtemp(prefix="c15-replay-", dir=work)
    try:
        cmd, cwd = command({"test": test}, "quick", 0, 0, d, repo, verif, work)
        env = goenv({"VERIF_REPLAY": os.path.abspath(path), "VERIF_TIER": "quick", "VERIF_STATS": "", "VERIF_FAILDIR": "",
                     "VERIF_SHARD": "0", "VERIF_SHARDS": "1"})
        r = subprocess.run(cmd, cwd=cwd, env=env, capture_output=True, text=True)
        out = r.stdout + r.stderr
        if r.returncode == 0 and ("--- PASS: " + test) in out:
            log("replay passes: property C15 holds on %s" % path)
            return 0
        log(out[-3000:])
        if "REPLAY-FAILED" in out:
            return 1
        return 2
    finally:
        shutil.rmtree(d, ignore_errors=True)
