#!/usr/bin/env python3
"""Systematic mutation campaign over the code the properties are anchored in.

  driver/mutate.py gen [--seed N]                 enumerate candidate mutants -> mutation/candidates.jsonl
  driver/mutate.py run [--workers K] [--max N] [--props C01,C02] [--ops ROR,LCR,...] [--budget-min M]
                                                  evaluate candidates not yet in mutation/results.jsonl
  driver/mutate.py recheck <mutant id>... [--ids C01,C09] [--tier quick]
                                                  re-run checks against already evaluated mutants (after strengthening)
  driver/mutate.py show <mutant id>               print the mutant as a diff
  driver/mutate.py report                         summary table (markdown) -> mutation/REPORT.md

A mutant is one syntactic change on one line of /repo (relational / logical / arithmetic operator replacement,
negation removal, constant replacement, deletion of a one-line statement or of an early `return`) inside a line range
that a property's `anchors.mechanism[].where` names (line numbers of the pinned snapshot are mapped to the current tree
with difflib).  For every mutant, in a private scratch copy of /repo under /tmp:
  1. the repository's own test suite of the affected packages is run (does not compile -> discarded; fails -> "suite");
  2. if the suite stays green, the quick check of every property anchored on that line is run with VERIF_REPO=<copy>;
     exit 1 (VIOLATION) -> "killed", exit 0 -> "survived" (needs triage: equivalent mutant, outside the property, or a gap),
     exit 2 -> "inconclusive".
Scratch copies are removed at the end.  Nothing in /repo is touched and committed evidence is not overwritten
(the driver redirects evidence and new replays to .work/alt/ when VERIF_REPO is set).
"""
import difflib, glob, hashlib, json, os, random, re, shutil, subprocess, sys, tempfile, threading, time

VERIF = os.path.dirname(os.path.dirname(os.path.abspath(__file__)))
REPO = "/repo"
SNAPSHOT = "54fab01"  # the pinned commit the anchors' line numbers refer to
MUTDIR = os.path.join(VERIF, "mutation")
CAND = os.path.join(MUTDIR, "candidates.jsonl")
RES = os.path.join(MUTDIR, "results.jsonl")

SRC_RE = re.compile(r"([\w/\.\-]+\.(?:go|c|h|s|S)):(\d+)(?:-(\d+))?((?:\s*(?:,|;|\(|and|callers at)?\s*\(?\d+(?:-\d+)?\)?(?!\.))*)")
NUM_RE = re.compile(r"(\d+)(?:-(\d+))?")


def anchor_ranges():
    """[(property, file, old_lo, old_hi)] from properties.jsonl."""
    out = []
    for l in open(os.path.join(VERIF, "properties.jsonl")):
        p = json.loads(l)
        for m in p.get("anchors", {}).get("mechanism", []) + p.get("anchors", {}).get("state", []):
            w = m.get("where", "")
            for mm in SRC_RE.finditer(w):
                f, lo, hi, rest = mm.group(1), int(mm.group(2)), mm.group(3), mm.group(4)
                out.append((p["id"], f, lo, int(hi) if hi else lo))
                for nn in NUM_RE.finditer(rest or ""):
                    a = int(nn.group(1)); b = int(nn.group(2)) if nn.group(2) else a
                    out.append((p["id"], f, a, b))
    return out


def old_to_new_lines(f):
    try:
        old = subprocess.run(["git", "-C", REPO, "show", "%s:%s" % (SNAPSHOT, f)], capture_output=True, text=True, check=True).stdout.splitlines()
    except Exception:
        return None, None
    new = open(os.path.join(REPO, f), errors="replace").read().splitlines()
    mp = {}
    sm = difflib.SequenceMatcher(None, old, new, autojunk=False)
    for tag, i1, i2, j1, j2 in sm.get_opcodes():
        if tag == "equal":
            for k in range(i2 - i1):
                mp[i1 + k + 1] = j1 + k + 1
        else:  # changed block: map proportionally (these are the repaired lines; they stay candidates)
            for k in range(i2 - i1):
                mp[i1 + k + 1] = min(j2, j1 + k + 1) if j2 > j1 else max(1, j1)
            for k in range(j1, j2):
                mp.setdefault(-(k + 1), k + 1)
    return mp, new


def in_string(line, pos):
    q = 0
    i = 0
    while i < pos:
        c = line[i]
        if c == "\\":
            i += 2
            continue
        if c == '"':
            q ^= 1
        i += 1
    return q == 1


def code_part(line, is_c):
    """index where a trailing // comment starts (or len)."""
    i = 0
    inq = False
    while i < len(line) - 1:
        c = line[i]
        if c == "\\":
            i += 2
            continue
        if c == '"':
            inq = not inq
        if not inq and line[i:i + 2] == "//":
            return i
        i += 1
    return len(line)


ROR = [(r"<=", "<"), (r">=", ">"), (r"==", "!="), (r"!=", "=="), (r"(?<=\s)<(?=\s)", "<="), (r"(?<=\s)>(?=\s)", ">=")]
LCR = [(r"&&", "||"), (r"\|\|", "&&")]
AOR = [(r"\s\+\s1\b", ""), (r"\s-\s1\b", ""), (r"(?<=[\w\)\]])\+1\b", ""), (r"(?<=[\w\)\]])-1\b", ""),
       (r"(?<=[\w\)\]]\s)\+(?=\s[\w\(])", "-"), (r"(?<=[\w\)\]]\s)-(?=\s[\w\(])", "+"),
       (r"(?<=[\w\)\]]\s)/(?=\s[\w\(])", "*"), (r"(?<=[\w\)\]]\s)%(?=\s[\w\(])", "/")]
NEG = [(r"\bif\s+!", "if "), (r"\bif\s*\(\s*!", "if ("), (r"&&\s*!", "&& "), (r"\|\|\s*!", "|| ")]
CONST = [(r"(?<![\w\.])0(?![\w\.x])", "1"), (r"(?<![\w\.])1(?![\w\.])", "0"), (r"(?<![\w\.])1(?![\w\.])", "2"),
         (r"\btrue\b", "false"), (r"\bfalse\b", "true")]
OPS = {"ROR": ROR, "LCR": LCR, "AOR": AOR, "NEG": NEG, "CONST": CONST}

SDL_SKIP = re.compile(r"^\s*(return\b|if\b|for\b|else\b|switch\b|case\b|default\b|var\b|const\b|type\b|func\b|defer\b|go\b|import\b|package\b|break\b|continue\b|goto\b|#|\}|\{|//|/\*|\*)")


def mutants_of_line(f, lineno, line):
    is_c = not f.endswith(".go")
    stripped = line.strip()
    if not stripped or stripped.startswith("//") or stripped.startswith("/*") or stripped.startswith("*") or stripped.startswith("#"):
        return
    end = code_part(line, is_c)
    code = line[:end]
    for op, rules in OPS.items():
        for k, (pat, rep) in enumerate(rules):
            for m in re.finditer(pat, code):
                if in_string(code, m.start()):
                    continue
                if op == "ROR" and (code[m.start() - 1:m.start()] in "<>-!=+*/&|^%:" and pat in ("==", "<=", ">=", "!=")) and m.start() > 0:
                    # part of a longer operator such as <<= or :=
                    if code[m.start() - 1] in "<>:":
                        continue
                if op == "ROR" and pat == r"==" and code[m.end():m.end() + 1] == "=":
                    continue
                new = code[:m.start()] + rep + code[m.end():] + line[end:]
                if new != line:
                    yield op, "%s@%d:%s->%s" % (op, m.start(), m.group(0).strip() or m.group(0), rep or "(deleted)"), new
    # statement deletion: a one-line statement (assignment or call)
    if not SDL_SKIP.match(line) and "{" not in code and "}" not in code and ":=" not in code:
        s = code.rstrip()
        if (s.endswith(")") or s.endswith(";") or re.search(r"[\w\]\)]\s*(=|\+=|-=|\|=|&=|\^=)\s*[^=]", s)) and not s.endswith(","):
            if s.count("(") == s.count(")"):
                yield "SDL", "SDL:delete statement", ""
    # deletion of an early return / goto inside a block
    if re.match(r"^\s+(return\b.*|goto\s+\w+;|break;?|continue;?)\s*$", code) and len(line) - len(line.lstrip()) >= 2:
        yield "SDLR", "SDLR:delete %s" % stripped.split()[0], ""


def cmd_gen(seed):
    os.makedirs(MUTDIR, exist_ok=True)
    ranges = anchor_ranges()
    byfile = {}
    for pid, f, lo, hi in ranges:
        byfile.setdefault(f, []).append((pid, lo, hi))
    cands = {}
    for f, rs in sorted(byfile.items()):
        if not os.path.exists(os.path.join(REPO, f)) or f.endswith((".s", ".S")) or "_test.go" in f:
            continue
        mp, new = old_to_new_lines(f)
        if mp is None:
            continue
        line_props = {}
        for pid, lo, hi in rs:
            news = sorted({mp[o] for o in range(lo, hi + 1) if o in mp})
            if not news:
                continue
            for ln in range(news[0], news[-1] + 1):  # contiguous in the current file, incl. inserted (repaired) lines
                line_props.setdefault(ln, set()).add(pid)
        for ln, pids in sorted(line_props.items()):
            if ln > len(new):
                continue
            line = new[ln - 1]
            for op, desc, newline in mutants_of_line(f, ln, line):
                mid = hashlib.sha1(("%s:%d:%s:%s" % (f, ln, desc, line)).encode()).hexdigest()[:10]
                cands[mid] = dict(id=mid, file=f, line=ln, op=op, desc=desc, before=line, after=newline, props=sorted(pids))
    lst = sorted(cands.values(), key=lambda c: c["id"])
    random.Random(seed).shuffle(lst)
    # round-robin over (rarest anchored property, operator) so that every property and operator is sampled early
    cnt = {}
    for c in lst:
        for p in c["props"]:
            cnt[p] = cnt.get(p, 0) + 1
    buckets = {}
    for c in lst:
        key = (min(c["props"], key=lambda p: cnt[p]), c["op"])
        buckets.setdefault(key, []).append(c)
    order = []
    keys = sorted(buckets)
    while any(buckets[k] for k in keys):
        for k in keys:
            if buckets[k]:
                order.append(buckets[k].pop())
    lst = order
    with open(CAND, "w") as fo:
        for c in lst:
            fo.write(json.dumps(c) + "\n")
    byop = {}
    for c in lst:
        byop[c["op"]] = byop.get(c["op"], 0) + 1
    print("%d candidate mutants in %d files; by operator: %s" % (len(lst), len({c["file"] for c in lst}), byop))


def cmd_gen_outside(seed, sample):
    """Second campaign: lines of the library's source files that NO property anchors (helpers, constructors, error paths),
    sampled; each mutant is run against the checks of its file family."""
    ranges = anchor_ranges()
    anchored = {}
    files = set()
    for pid, f, lo, hi in ranges:
        files.add(f)
    extra = ["thresholdsign.go", "bls_crossBLST.go", "hash/hash.go", "hash/sha2.go", "hash/sha3.go", "hash/legacy_keccak.go", "hash/types.go", "random/rand.go", "common.go", "sign.go", "spock.go"]
    for f in extra:
        if os.path.exists(os.path.join(REPO, f)):
            files.add(f)
    known = {json.loads(l)["id"] for l in open(CAND)} if os.path.exists(CAND) else set()
    cands = {}
    for f in sorted(files):
        if not os.path.exists(os.path.join(REPO, f)) or f.endswith((".s", ".S")) or "_test.go" in f or f == "no_cgo.go":
            continue
        new = open(os.path.join(REPO, f), errors="replace").read().splitlines()
        depth_ok = False
        for ln, line in enumerate(new, 1):
            for op, desc, newline in mutants_of_line(f, ln, line):
                if op in ("CONST", "SDL"):  # the least informative operators are left to the first campaign
                    continue
                mid = hashlib.sha1(("%s:%d:%s:%s" % (f, ln, desc, line)).encode()).hexdigest()[:10]
                if mid in known:
                    continue
                cands[mid] = dict(id=mid, file=f, line=ln, op=op, desc=desc, before=line, after=newline, props=family(f)[:6], campaign="outside-anchors")
    lst = sorted(cands.values(), key=lambda c: c["id"])
    random.Random(seed).shuffle(lst)
    lst = lst[:sample]
    with open(CAND, "a") as fo:
        for c in lst:
            fo.write(json.dumps(c) + "\n")
    byop = {}
    for c in lst:
        byop[c["op"]] = byop.get(c["op"], 0) + 1
    print("%d candidates outside the anchored ranges appended (sampled); by operator: %s" % (len(lst), byop))


def goenv():
    e = dict(os.environ)
    e.pop("GOFLAGS", None)
    e["GOPROXY"] = "off"
    return e


def apply_mutant(d, c):
    p = os.path.join(d, c["file"])
    lines = open(os.path.join(REPO, c["file"]), errors="replace").read().split("\n")
    if lines[c["line"] - 1] != c["before"]:
        return False
    if c["after"] == "":
        lines[c["line"] - 1] = ""
    else:
        lines[c["line"] - 1] = c["after"]
    open(p, "w").write("\n".join(lines))
    return True


def restore(d, c):
    shutil.copy(os.path.join(REPO, c["file"]), os.path.join(d, c["file"]))


def run_suite(d, c):
    f = c["file"]
    pkgs = "./..." if (f.startswith("hash/") or f.startswith("random/")) else "."
    t0 = time.time()
    try:
        r = subprocess.run("go test -vet=off -count=1 -timeout 240s %s 2>&1 | tail -40" % pkgs, shell=True, cwd=d, env=goenv(), capture_output=True, text=True, errors="replace", timeout=900)
    except subprocess.TimeoutExpired:
        return "suite-timeout", "", time.time() - t0
    out = r.stdout
    if "[build failed]" in out or "cannot use" in out or re.search(r"\.go:\d+:\d+: ", out) and "FAIL" in out and "--- FAIL" not in out and "panic" not in out:
        return "noncompile", out[-600:], time.time() - t0
    if re.search(r"\.c:\d+:\d+: error", out) or "undefined reference" in out:
        return "noncompile", out[-600:], time.time() - t0
    if "FAIL" in out or "panic:" in out:
        return "suite", out[-600:], time.time() - t0
    if out.count("ok") >= 1:
        return "pass", "", time.time() - t0
    return "suite-unknown", out[-600:], time.time() - t0


def run_checks(d, c, ids, tier="quick", par="4"):
    res = {}
    for pid in ids:
        e = dict(os.environ)
        e["VERIF_REPO"] = d
        e["VERIF_PAR"] = par
        e["VERIF_SKIP_SELFTEST"] = "1"
        t0 = time.time()
        try:
            r = subprocess.run([os.path.join(VERIF, "check"), pid, "--tier", tier], env=e, capture_output=True, text=True, errors="replace", timeout=3600)
            rc, out = r.returncode, r.stdout + r.stderr
        except subprocess.TimeoutExpired:
            rc, out = 2, "driver timeout"
        msg = ""
        viol = [l for l in out.splitlines() if l.startswith("VIOLATION")]
        for v in viol[:1]:
            fpath = v.split("replay=")[-1].strip()
            try:
                msg = json.load(open(fpath)).get("message", "")[:240]
            except Exception:
                try:
                    msg = open(fpath, errors="replace").read()[:240]
                except Exception:
                    msg = ""
        if rc == 2:
            msg = out[-500:]
        res[pid] = dict(exit=rc, wall_s=round(time.time() - t0, 1), msg=msg)
        if rc == 1:
            break  # killed: no need to run the remaining anchored properties
    return res


def clean_alt(d):
    h = hashlib.sha1(d.encode()).hexdigest()
    for sub in ("mod-" + h[:10], os.path.join("c20", h[:10]), os.path.join("cfuzz", h[:10]), os.path.join("alt", h[:8])):
        shutil.rmtree(os.path.join(VERIF, ".work", sub), ignore_errors=True)
    for f in glob.glob(os.path.join(VERIF, ".work", "bin", "*-" + h[:8] + ".test")):
        os.remove(f)


RECHK = os.path.join(MUTDIR, "rechecks.jsonl")


def load_results():
    """results.jsonl (append-only, written by `run`) merged with rechecks.jsonl (append-only, written by `recheck`)."""
    done = {}
    if os.path.exists(RES):
        for l in open(RES):
            try:
                r = json.loads(l)
                done[r["id"]] = r
            except Exception:
                pass
    if os.path.exists(RECHK):
        for l in open(RECHK):
            try:
                k = json.loads(l)
            except Exception:
                continue
            r = done.get(k["id"])
            if not r:
                continue
            r.setdefault("rechecks", []).append(k)
            if any(x["exit"] == 1 for x in k["checks"].values()) and r.get("verdict") in ("survived", "inconclusive", "killed-after-strengthening"):
                r["verdict"] = "killed-after-strengthening"
            elif k.get("supersedes") and r.get("verdict") == "killed" and all(x["exit"] == 0 for x in k["checks"].values()):
                # a kill recorded while the harness itself was broken, re-run afterwards (recheck --supersede)
                r["verdict"] = "survived"
    return done


def cmd_run(args):
    workers = int(opt(args, "--workers", "4"))
    mx = int(opt(args, "--max", "100000"))
    budget = float(opt(args, "--budget-min", "100000")) * 60
    fprops = set(filter(None, opt(args, "--props", "").split(",")))
    fops = set(filter(None, opt(args, "--ops", "").split(",")))
    ffiles = set(filter(None, opt(args, "--files", "").split(",")))
    cands = [json.loads(l) for l in open(CAND)]
    done = load_results()
    todo = [c for c in cands if c["id"] not in done and (not fprops or fprops & set(c["props"])) and (not fops or c["op"] in fops)
            and (not ffiles or c["file"] in ffiles)][:mx]
    if "--reverse" in args:
        todo.reverse()
    print("%d candidates, %d already evaluated, %d to do with %d workers" % (len(cands), len(done), len(todo), workers), flush=True)
    lock = threading.Lock()
    t_start = time.time()
    it = iter(todo)

    def worker(k):
        d = "/tmp/mutw-%d-%d" % (os.getpid(), k)
        shutil.rmtree(d, ignore_errors=True)
        subprocess.check_call(["rsync", "-a", "--exclude", ".git", REPO + "/", d + "/"])
        try:
            while True:
                with lock:
                    c = next(it, None)
                if c is None or time.time() - t_start > budget:
                    break
                with lock:
                    fresh = c["id"] in {json.loads(l)["id"] for l in open(RES)} if os.path.exists(RES) else False
                if fresh:  # evaluated meanwhile by another runner process
                    continue
                rec = dict(c)
                if not apply_mutant(d, c):
                    rec["verdict"] = "stale"
                else:
                    try:
                        v, tail, w = run_suite(d, c)
                        rec["suite"] = v
                        rec["suite_wall_s"] = round(w, 1)
                        if v == "pass":
                            ids = [p for p in c["props"] if not fprops or p in fprops] or c["props"]
                            rec["checks"] = run_checks(d, c, ids)
                            exits = [x["exit"] for x in rec["checks"].values()]
                            rec["verdict"] = "killed" if 1 in exits else ("inconclusive" if 2 in exits else "survived")
                        else:
                            rec["verdict"] = v
                            rec["suite_tail"] = tail[-300:]
                    finally:
                        restore(d, c)
                rec["at"] = time.strftime("%Y-%m-%dT%H:%M:%S")
                with lock:
                    with open(RES, "a") as fo:
                        fo.write(json.dumps(rec) + "\n")
                    print("[w%d] %s %s:%d %s -> %s %s" % (k, c["id"], c["file"], c["line"], c["desc"], rec["verdict"],
                                                           {p: x["exit"] for p, x in rec.get("checks", {}).items()}), flush=True)
        finally:
            shutil.rmtree(d, ignore_errors=True)
            clean_alt(d)

    ths = [threading.Thread(target=worker, args=(k,)) for k in range(workers)]
    for t in ths:
        t.start()
    for t in ths:
        t.join()


def family(f):
    """the checks of neighbouring properties that exercise the same file (run against survivors of the anchored checks)"""
    if f.startswith("dkg"):
        return ["C07", "C08", "C09", "C10", "C20"]
    if f.startswith("bls_thresholdsign"):
        return ["C06", "C18", "C09", "C20"]
    if f.startswith("hash/"):
        return ["C13", "C19", "C20", "C01", "C16"]
    if f.startswith("random/"):
        return ["C14", "C15", "C09", "C20"]
    if f in ("ecdsa.go", "sign.go"):
        return ["C11", "C12", "C05", "C09", "C19", "C20"]
    return ["C01", "C02", "C03", "C04", "C05", "C16", "C17", "C12", "C06", "C09", "C19", "C20"]


def cmd_recheck(args):
    tier = opt(args, "--tier", "quick")
    ids_override = list(filter(None, opt(args, "--ids", "").split(",")))
    names = [a for a in args if not a.startswith("--") and a not in (tier,) and a not in (",".join(ids_override),)]
    done = load_results()
    if "--survivors" in args:
        names = [k for k, r in done.items() if r.get("verdict") == "survived" and not r.get("triage")]
    d = "/tmp/mutw-re-%d" % os.getpid()
    subprocess.check_call(["rsync", "-a", "--exclude", ".git", REPO + "/", d + "/"])
    try:
        for n in names:
            c = done.get(n)
            if not c:
                cs = [json.loads(l) for l in open(CAND)]
                c = next((x for x in cs if x["id"] == n), None)
            if not c or not apply_mutant(d, c):
                print(n, "unknown or stale")
                continue
            try:
                ids = ids_override or c["props"]
                if "--family" in args:
                    ids = [p for p in family(c["file"]) if p not in c["props"]]
                res = run_checks(d, c, ids, tier=tier, par="8")
            finally:
                restore(d, c)
            print(n, c["file"], c["line"], c["desc"], {p: x["exit"] for p, x in res.items()}, flush=True)
            with open(RECHK, "a") as fo:
                rec = dict(id=n, tier=tier, at=time.strftime("%Y-%m-%dT%H:%M:%S"), checks=res)
                if "--supersede" in args:
                    rec["supersedes"] = True
                fo.write(json.dumps(rec) + "\n")
    finally:
        shutil.rmtree(d, ignore_errors=True)
        clean_alt(d)


def cmd_show(mid):
    for src in (RES, CAND):
        if not os.path.exists(src):
            continue
        for l in open(src):
            c = json.loads(l)
            if c["id"] == mid:
                print("%s:%d  [%s]  props=%s" % (c["file"], c["line"], c["desc"], c["props"]))
                lines = open(os.path.join(REPO, c["file"]), errors="replace").read().split("\n")
                for k in range(max(0, c["line"] - 8), c["line"] - 1):
                    print("  " + lines[k])
                print("- " + c["before"])
                print("+ " + c["after"])
                for k in range(c["line"], min(len(lines), c["line"] + 6)):
                    print("  " + lines[k])
                for k in ("verdict", "suite", "checks", "triage", "rechecks"):
                    if k in c:
                        print(k, ":", json.dumps(c[k])[:600])
                return


def cmd_report():
    done = load_results()
    tri = {}
    tp = os.path.join(MUTDIR, "triage.json")
    if os.path.exists(tp):
        tri = json.load(open(tp))
    tot = {}
    for r in done.values():
        for p in r["props"]:
            t = tot.setdefault(p, {})
            v = r.get("verdict")
            if r["id"] in tri and v in ("survived", "inconclusive"):
                v = "survived:" + tri[r["id"]]["class"]
            t[v] = t.get(v, 0) + 1
    cols = sorted({v for t in tot.values() for v in t})
    out = ["| property | " + " | ".join(cols) + " |", "|---|" + "---|" * len(cols)]
    for p in sorted(tot):
        out.append("| %s | " % p + " | ".join(str(tot[p].get(c, 0)) for c in cols) + " |")
    allv = {}
    for r in done.values():
        v = r.get("verdict")
        if r["id"] in tri and v in ("survived", "inconclusive"):
            v = "survived:" + tri[r["id"]]["class"]
        allv[v] = allv.get(v, 0) + 1
    out.append("")
    out.append("Mutants evaluated: %d (each counted once): %s" % (len(done), json.dumps(allv, sort_keys=True)))
    out.append("")
    out.append("| survivor | site | change | anchored in | triage |")
    out.append("|---|---|---|---|---|")
    for r in sorted(done.values(), key=lambda r: (r["file"], r["line"])):
        if r.get("verdict") in ("survived", "killed-after-strengthening", "inconclusive"):
            t = tri.get(r["id"], {})
            out.append("| `%s` | %s:%d | `%s` → `%s` | %s | %s%s |" % (r["id"], r["file"], r["line"], r["before"].strip()[:90].replace("|", "\\|"), (r["after"].strip()[:90] or "(deleted)").replace("|", "\\|"),
                                                                  ",".join(r["props"]), r.get("verdict"), (": " + t.get("class", "") + " — " + t.get("why", "")) if t else ""))
    s = "\n".join(out)
    open(os.path.join(MUTDIR, "REPORT.md"), "w").write(s + "\n")
    print(s)


def opt(args, name, default):
    if name in args:
        return args[args.index(name) + 1]
    return default


if __name__ == "__main__":
    a = sys.argv[1:]
    if not a:
        print(__doc__)
        sys.exit(0)
    if a[0] == "gen":
        cmd_gen(int(opt(a, "--seed", "1")))
    elif a[0] == "gen-outside":
        cmd_gen_outside(int(opt(a, "--seed", "2")), int(opt(a, "--sample", "400")))
    elif a[0] == "run":
        cmd_run(a[1:])
    elif a[0] == "recheck":
        cmd_recheck(a[1:])
    elif a[0] == "show":
        cmd_show(a[1])
    elif a[0] == "report":
        cmd_report()
