#!/usr/bin/env python3
"""Re-runs checks against seeds already stored in seeded/:  driver/seedrecheck.py [--tier quick] <name> [<name>...] | --all
For each seeded/<ID>-<X>: scratch copy of /repo + patch.diff, `VERIF_REPO=<copy> ./check <ID>`; prints exit codes and
updates meta.json ("recheck")."""
import glob, hashlib, json, os, shutil, subprocess, sys, tempfile
verif = os.path.dirname(os.path.dirname(os.path.abspath(__file__)))
tier = "quick"
args = [a for a in sys.argv[1:] if not a.startswith("--")]
if "--tier" in sys.argv:
    tier = sys.argv[sys.argv.index("--tier") + 1]
    args = [a for a in args if a != tier]
names = sorted(os.listdir(os.path.join(verif, "seeded"))) if "--all" in sys.argv else args
bad = 0
for name in names:
    sd = os.path.join(verif, "seeded", name)
    pid = name.split("-")[0]
    d = tempfile.mkdtemp(prefix="seedre-", dir="/tmp")
    try:
        subprocess.check_call(["rsync", "-a", "--exclude", ".git", "/repo/", d + "/"])
        r = subprocess.run(["patch", "-p1", "-s", "-d", d, "-i", os.path.join(sd, "patch.diff")], capture_output=True, text=True)
        if r.returncode != 0:
            print(name, "PATCH-FAILED"); bad += 1; continue
        e = dict(os.environ); e["VERIF_REPO"] = d
        r = subprocess.run([os.path.join(verif, "check"), pid, "--tier", tier], env=e, capture_output=True, text=True)
        print("%s: %s %s exit %d" % (name, pid, tier, r.returncode), flush=True)
        if r.returncode != 1:
            bad += 1
        m = json.load(open(os.path.join(sd, "meta.json")))
        m["recheck"] = {"tier": tier, "exit": r.returncode}
        json.dump(m, open(os.path.join(sd, "meta.json"), "w"), indent=1)
        for f in glob.glob(os.path.join(verif, "replays", pid, "new-*")):
            os.remove(f)
    finally:
        shutil.rmtree(d, ignore_errors=True)
        h = hashlib.sha1(d.encode()).hexdigest()
        for sub in ("mod-" + h[:10], os.path.join("c20", h[:10]), os.path.join("cfuzz", h[:10]), os.path.join("alt", h[:8])):
            shutil.rmtree(os.path.join(verif, ".work", sub), ignore_errors=True)
        for f in glob.glob(os.path.join(verif, ".work", "bin", "*-" + h[:8] + ".test")):
            os.remove(f)
print("not detected:", bad)
