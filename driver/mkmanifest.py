#!/usr/bin/env python3
"""Regenerates /verif/MANIFEST.json from driver/props.py (run after editing the job tables)."""
import json, os, sys
here = os.path.dirname(os.path.abspath(__file__))
sys.path.insert(0, here)
import props as P

verif = os.path.dirname(here)
all_ids = [json.loads(l)["id"] for l in open(os.path.join(verif, "properties.jsonl"))]
checks = []
for pid in all_ids:
    if pid not in P.PROPS:
        continue
    s = P.PROPS[pid]
    checks.append({
        "property_id": pid,
        "quick_cmd": "./check %s --tier quick" % pid,
        "thorough_cmd": "./check %s --tier thorough" % pid,
        "evidence_file": "/verif/evidence/%s.json" % pid,
        "replay_cmd_template": "./check %s --replay {path}" % pid,
        "engine": s.get("engine", "rapid-harness"),
        "level_claimed": {
            "category": "exploration",
            "text": s.get("level_text", "Generated-input search (rapid, shrinking, library-free replay files) against an independent from-specification oracle; "
                          "finite sub-spaces named in the evidence are enumerated completely. No proof: absence of a violation is established only for what was generated."),
            "design_ref": "DESIGN.md section 7, " + pid,
        },
        "level_note": "; ".join(s.get("assumptions", [])) or "oracles in harness/oracle are trusted (self-tested on published vectors)",
        "technique": s.get("technique", "property-based testing (pgregory.net/rapid) against a reference-model / differential oracle"),
    })
na = [{"property_id": pid, "reason": P.NOT_APPLICABLE.get(pid, "check not built yet in this session (work in progress); nothing is claimed for it")} for pid in all_ids if pid not in P.PROPS]
m = {
    "version": 1,
    "setup_cmd": "./check --setup",
    "hooks": {
        "guard": "verif",
        "enable": "no source hooks exist: every check reaches /repo through its public API from the external module /verif/harness (replace => /repo), through `go test -overlay` (C15) or by compiling /repo's C files into libFuzzer targets; nothing in /repo is guarded",
        "baseline_off_cmd": "cd /repo && go test -vet=off -count=1 -timeout 25m ./...",
        "source_commits": [],
        "add_only": True,
    },
    "engines": [
        {"name": "rapid-harness", "path": "/verif/harness", "serves_properties": sorted(P.PROPS), "kind_free_text": "Go property-based tests (pgregory.net/rapid v1.3.0) over a recording draw layer, independent math/big and from-spec oracles, python driver ./check"},
    ] + P.EXTRA_ENGINES,
    "checks": checks,
    "not_applicable": na,
    "notes": "Exit codes: 0 held / 1 VIOLATION / 2 infrastructure or inconclusive. Known and fixed findings: /verif/known_findings.json. Design: /verif/DESIGN.md.",
}
json.dump(m, open(os.path.join(verif, "MANIFEST.json"), "w"), indent=1)
print("MANIFEST.json: %d checks, %d not applicable" % (len(checks), len(na)))
