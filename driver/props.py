"""Per-property job tables for ./check.

Each job is one test function of harness/props run as its own process:
  test      Go test name
  quick     rapid case count (or enumeration budget, passed as VERIF_N) in the quick tier
  thorough  the same for the thorough tier (per shard)
  shards    number of processes with distinct seeds in the thorough tier
  mode      plain | race   (which build of the test binary)
"""


def J(test, quick, thorough, shards=1, **kw):
    d = dict(test=test, quick=quick, thorough=thorough, shards=shards)
    d.update(kw)
    return d


PROPS = {}

PROPS["C14"] = dict(
    title="ChaCha20 PRG equals the RFC 8439 keystream; Store/Restore resumes exactly",
    rule=("rapid-generated histories over one PRG (Read of sizes 0/1/≤64/>64/aligned/unaligned/large, Store+Restore, fork, UintN, "
          "Permutation, Samples) checked step by step against an independent RFC 8439 keystream oracle (model = byte offset); "
          "plus every byte offset 0..N as store/restore point, plus invalid lengths. Non-trivial = a restore at an offset that is "
          "not a multiple of 64, or a history mixing reads ≤64 and >64 bytes, or a rejected length; distinct = hash of the draw record."),
    assumptions=["oracle/chacha is a from-RFC-8439 implementation with the RFC's test vectors as self-test",
                 "positions beyond 2^32 blocks (256 GiB) are outside the documented range and not generated"],
    jobs=[
        J("TestC14_Stream", 400, 4000, shards=8),
        J("TestC14_EveryOffset", 2, 6, shards=4),
        J("TestC14_Invalid", 300, 3000, shards=2),
    ],
)

PROPS["C13"] = dict(
    title="Hashers and KMAC128 equal their standards for all inputs and chunkings",
    rule=("(1) enumeration: for each algorithm every message length 0..2·rate (thorough 0..4·rate) through ComputeHash on a dirty object and "
          "through Reset + a generated chunk pattern + SumHash, plus every two-way split for short lengths (thorough: all lengths ≤ 2·rate); "
          "(2) rapid state machine over Write/SumHash/Reset/ComputeHash/one-shot helpers with a byte-stream model; (3) generated KMAC key / "
          "customizer / output sizes, every key length 16..400 (700), invalid parameters. Oracle: from-spec Keccak/SHA-2/KMAC. Non-trivial = length ≥ rate, "
          "a split inside the message, a history with ≥ 2 kinds of operation or crossing a block boundary; distinct by draw-record hash (generated) or by construction (enumerated)."),
    assumptions=["oracle/keccak and oracle/sha2 are from-spec implementations self-tested on FIPS 202 / SP 800-185 / FIPS 180-4 vectors and cross-checked against the Go standard library",
                 "after SumHash/ComputeHash on a SHA-3/Keccak object and after ComputeHash on a SHA-2 object only Reset/ComputeHash are issued (continuation unspecified by the documentation)"],
    jobs=[
        J("TestC13_LengthSplit", 12, 24, shards=6),
        J("TestC13_History", 600, 5000, shards=6),
        J("TestC13_KMACParams", 500, 4000, shards=2),
        J("TestC13_KMACEveryKeyLen", 2, 4, shards=1),
        J("TestC13_KMACInvalid", 300, 2000, shards=1),
    ],
)

BLS_ASSUME = ["oracle/bls381 (math/big group arithmetic + ZCash codec) is trusted; self-tested on the standard generator encodings, group laws and cofactor-torsion constructions",
              "hash-to-curve is taken from the library as the signature of private scalar 1, decoded and subgroup-checked by the oracle; verdicts are decided from known discrete logs (no pairing in the oracle)",
              "G2 encodings are compared through the codec calibrated on Encode(sk=1) (finding F1 is C05's subject)"]

PROPS["C01"] = dict(
    title="BLS Verify accepts exactly the one signature sk*H(m) per key, message, hasher",
    rule=("per case: a key (decoded from a structured scalar pool / generated / aggregated), a message, a hasher (KMAC128 expand-message with generated tag or a scripted 128-byte output with halves in {0,1,p-1,p,p+1,2^384,2^512-1,random}); "
          "the oracle computes sk·H(m) and ~25 candidate strings (exact, bit flips, negation, s+T with T of order 3/11/random cofactor torsion, s+k·G, x+p, all flag combinations, infinity variants, length 0..200, curve point outside G1, random G1 point, "
          "signature of another message/key/tag); Verify(c) must equal (c == compress(sk·H(m))) with nil error, and be false under three kinds of identity key. "
          "Non-trivial = the case has the accepted string and at least one rejected candidate that decodes to a curve point; distinct by draw-record hash."),
    assumptions=BLS_ASSUME,
    jobs=[
        J("TestC01_Exact", 250, 2500, shards=14),
        J("TestC01_Hasher", 150, 1000, shards=2),
    ],
)

PROPS["C02"] = dict(
    title="Aggregate BLS verification equals the pairing-product definition",
    rule=("n positions (1..12, thorough to 40) filled from a pool of k keys and m (message, hasher) pairs through named shapes (all-distinct, all-equal, few-messages/many-keys, few-keys/many-messages, tie, duplicated pairs, pk and -pk on one message, "
          "same point in separately decoded key objects, identity key injected); oracle Σ sk_i·H_i(m_i) by big-integer arithmetic; ~25 candidate signatures per case; each call repeated 3× (Go map order) and on a permutation of the triples; "
          "VerifyBLSSignatureOneMessage compared with Verify under the aggregated key and with the oracle; single-fault error inputs. Non-trivial = n ≥ 2 with a repeated key or message; distinct by draw-record hash."),
    assumptions=BLS_ASSUME,
    jobs=[
        J("TestC02_ManyMessages", 120, 1200, shards=12),
        J("TestC02_OneMessage", 120, 1200, shards=3),
        J("TestC02_Errors", 200, 1500, shards=1),
    ],
)

PROPS["C03"] = dict(
    title="Batch verification agrees index-by-index with individual verification",
    rule=("positions on one message, each valid or invalid by a generated kind (swapped pair, s_i+d with s_j-d, three-way cancellation, bit flip, s+T outside G1, identity signature, wrong length, identity key, other message, negated, malformed); "
          "expected[i] := signature bytes equal the oracle's sk_i·H(m) and key not identity; checked against BatchVerify and (generated job) against Verify; all 2^n subsets of invalid positions for n ≤ 4 (thorough n ≤ 7); input-error cases. "
          "Non-trivial = at least one valid and one invalid position; distinct by draw-record hash (generated) / by construction (subsets)."),
    assumptions=BLS_ASSUME + ["the 2^-128 soundness error of the batch coefficients (crypto/rand inside the library) is ignored"],
    jobs=[
        J("TestC03_Generated", 250, 2500, shards=10),
        J("TestC03_Subsets", 6, 6, shards=4),
        J("TestC03_Errors", 150, 1000, shards=1),
    ],
)

PROPS["C04"] = dict(
    title="Key and signature aggregation are mutually consistent group homomorphisms",
    rule=("multisets of 1..10 private scalars (duplicates, additive inverses, zero sums), a message and hasher, a generated permutation and binary nesting, a split A⊎B for removal; oracle Σsk mod r, (Σsk)·g2, (Σsk)·H(m); "
          "plus plain E1 sums with operands outside G1, plus error inputs. Non-trivial = size ≥ 3 with a duplicate, inverse pair, nesting depth ≥ 2 or identity sum; distinct by draw-record hash."),
    assumptions=BLS_ASSUME,
    jobs=[
        J("TestC04_Homomorphism", 200, 1500, shards=10),
        J("TestC04_NonG1", 200, 1500, shards=2),
        J("TestC04_Errors", 150, 1000, shards=1),
    ],
)

PROPS["C05"] = dict(
    title="Serialization is canonical and validating for every key and signature type",
    rule=("per decoder (BLS private / public / signature parsing in aggregation and Verify; ECDSA private / raw public / compressed public on both curves) near-valid strings: encodings of library-produced objects and of oracle-built points "
          "(subgroup, curve-but-not-subgroup, cofactor torsion, small order, infinity) mutated by bit flips, flag-bit combinations, coordinates from {0,1,2,p-1,p,p+1,2^381-1,2^384-1}, x+p aliases, non-residue x, dirty infinity at every position, "
          "truncation/extension to 0..200 bytes, every prefix byte, scalars {0,1,r-1,r,r+1,2^255,2^256-1}, random strings. Oracle = exact acceptance sets (strict ZCash codec + subgroup test by r-multiplication; on-curve + reduced for ECDSA): "
          "rejected ⇒ typed error, accepted ⇒ oracle accepts and re-encoding returns the input, oracle accepts ⇒ library accepts; produced objects round-trip. Non-trivial = the string derives from a valid encoding or an oracle-built point (not random garbage); distinct by the byte string."),
    assumptions=BLS_ASSUME[:1] + ["oracle/wecdsa (generic Weierstrass arithmetic, X9.62 compression) is trusted; self-tested against RFC 6979 vectors, crypto/elliptic and btcec",
        "while finding F1 (G2 coefficient order c0||c1 instead of ZCash c1||c0) is listed as known, the BLS public-key oracle uses the library's coefficient order and counts that exclusion; everything else of the ZCash format is still enforced",
        "the zero private key that AggregateBLSPrivateKeys documents it may return is not required to round-trip"],
    jobs=[
        J("TestC05_BLSPrivate", 1500, 20000, shards=1),
        J("TestC05_BLSPublic", 800, 5000, shards=6),
        J("TestC05_BLSSignature", 1500, 10000, shards=3),
        J("TestC05_ECDSAPrivate", 1500, 20000, shards=1),
        J("TestC05_ECDSAPublic", 1500, 10000, shards=2),
        J("TestC05_Produced", 300, 2000, shards=2),
        J("TestC05_Enumerations", 3, 8, shards=2),
    ],
)


def custom_command(job, tier, n, seed, rundir, repo, verif, work):
    raise RuntimeError("no custom job kinds yet: %r" % job.get("kind"))


def custom_build(pid, tier, repo, verif, work, goenv, log):
    return True


def custom_setup(repo, verif, work, goenv, log):
    return True


def custom_replay(pid, path, repo, verif, work, goenv, log):
    return None

NOT_APPLICABLE = {}
EXTRA_ENGINES = []
