"""Per-property job tables for ./check.

Each job is one test function of harness/props run as its own process:
  test      Go test name
  quick     rapid case count (or enumeration budget, passed as VERIF_N) in the quick tier
  thorough  the same for the thorough tier (per shard)
  shards    number of processes with distinct seeds in the thorough tier
  mode      plain | race   (which build of the test binary)
"""


def J(test, quick, thorough, shards=1, **kw):
    d = dict(test=test, quick=quick, thorough=thorough, shards=shards)
    d.update(kw)
    return d


def GF(test, seconds, procs=8, **kw):
    """Native Go fuzzing of the property behind <test> (thorough tier only; `seconds` wall clock, not pinned to VERIF_SEED)."""
    d = dict(test="gofuzz:" + test, fuzz_test=test, quick=0, thorough=seconds, shards=1, kind="gofuzz", procs=procs, tiers=("thorough",),
             timeout_thorough=seconds + 1800)
    d.update(kw)
    return d


PROPS = {}

PROPS["C14"] = dict(
    technique="stateful model-based testing (rapid): byte-offset model against an RFC 8439 keystream oracle, every restore offset enumerated",
    title="ChaCha20 PRG equals the RFC 8439 keystream; Store/Restore resumes exactly",
    rule=("rapid-generated histories over one PRG (Read of sizes 0/1/≤64/>64/aligned/unaligned/large, Store+Restore, fork, UintN, "
          "Permutation, Samples) checked step by step against an independent RFC 8439 keystream oracle (model = byte offset); "
          "plus every byte offset 0..N as store/restore point, plus invalid lengths. Non-trivial = a restore at an offset that is "
          "not a multiple of 64, or a history mixing reads ≤64 and >64 bytes, or a rejected length; distinct = hash of the draw record."),
    assumptions=["oracle/chacha is a from-RFC-8439 implementation with the RFC's test vectors as self-test",
                 "positions beyond 2^32 blocks (256 GiB) are outside the documented range and not generated"],
    jobs=[
        J("TestC14_Stream", 600, 60000, shards=14),
        J("TestC14_EveryOffset", 2, 12, shards=8),
        J("TestC14_Invalid", 600, 60000, shards=4),
        GF("TestC14_Stream", 60),
    ],
)

PROPS["C13"] = dict(
    technique="property-based testing (rapid): stateful model of hasher streams + exhaustive length x split enumeration against from-spec Keccak / SHA-2 / KMAC",
    title="Hashers and KMAC128 equal their standards for all inputs and chunkings",
    rule=("(1) enumeration: for each algorithm every message length 0..2·rate (thorough 0..4·rate) through ComputeHash on a dirty object and "
          "through Reset + a generated chunk pattern + SumHash, plus every two-way split for short lengths (thorough: all lengths ≤ 2·rate); "
          "(2) rapid state machine over Write/SumHash/Reset/ComputeHash/one-shot helpers with a byte-stream model; (3) generated KMAC key / "
          "customizer / output sizes, every key length 16..400 (700), invalid parameters. Oracle: from-spec Keccak/SHA-2/KMAC. Non-trivial = length ≥ rate, "
          "a split inside the message, a history with ≥ 2 kinds of operation or crossing a block boundary; distinct by draw-record hash (generated) or by construction (enumerated)."),
    assumptions=["oracle/keccak and oracle/sha2 are from-spec implementations self-tested on FIPS 202 / SP 800-185 / FIPS 180-4 vectors and cross-checked against the Go standard library",
                 "after SumHash/ComputeHash on a SHA-3/Keccak object and after ComputeHash on a SHA-2 object only Reset/ComputeHash are issued (continuation unspecified by the documentation)"],
    jobs=[
        J("TestC13_LengthSplit", 12, 60, shards=8),
        J("TestC13_History", 1500, 60000, shards=12),
        J("TestC13_KMACParams", 1500, 40000, shards=6),
        J("TestC13_KMACEveryKeyLen", 2, 10, shards=4),
        J("TestC13_KMACInvalid", 500, 20000, shards=2),
        GF("TestC13_History", 60),
    ],
)

BLS_ASSUME = ["oracle/bls381 (math/big group arithmetic + ZCash codec) is trusted; self-tested on the standard generator encodings, group laws and cofactor-torsion constructions",
              "hash-to-curve is taken from the library as the signature of private scalar 1, decoded and subgroup-checked by the oracle; verdicts are decided from known discrete logs (no pairing in the oracle)",
              "G2 encodings are compared through the codec calibrated on Encode(sk=1) (finding F1 is C05's subject)"]

PROPS["C01"] = dict(
    technique="property-based testing (rapid): differential against a math/big BLS12-381 oracle over structured candidate signatures",
    title="BLS Verify accepts exactly the one signature sk*H(m) per key, message, hasher",
    rule=("per case: a key (decoded from a structured scalar pool / generated / aggregated), a message, a hasher (KMAC128 expand-message with generated tag or a scripted 128-byte output with halves in {0,1,p-1,p,p+1,2^384,2^512-1,random}); "
          "the oracle computes sk·H(m) and ~25 candidate strings (exact, bit flips, negation, s+T with T of order 3/11/random cofactor torsion, s+k·G, x+p, all flag combinations, infinity variants, length 0..200, curve point outside G1, random G1 point, "
          "signature of another message/key/tag); Verify(c) must equal (c == compress(sk·H(m))) with nil error, and be false under three kinds of identity key. "
          "Non-trivial = the case has the accepted string and at least one rejected candidate that decodes to a curve point; distinct by draw-record hash."),
    assumptions=BLS_ASSUME,
    jobs=[
        J("TestC01_Exact", 400, 10000, shards=15),
        J("TestC01_Hasher", 300, 10000, shards=2),
    ],
)

PROPS["C02"] = dict(
    technique="property-based testing (rapid): oracle-computed pairing-product definition via known discrete logs + metamorphic order/repetition invariance",
    title="Aggregate BLS verification equals the pairing-product definition",
    rule=("n positions (1..12, thorough to 40) filled from a pool of k keys and m (message, hasher) pairs through named shapes (all-distinct, all-equal, few-messages/many-keys, few-keys/many-messages, tie, duplicated pairs, pk and -pk on one message, "
          "same point in separately decoded key objects, identity key injected); oracle Σ sk_i·H_i(m_i) by big-integer arithmetic; ~25 candidate signatures per case; each call repeated 3× (Go map order) and on a permutation of the triples; "
          "VerifyBLSSignatureOneMessage compared with Verify under the aggregated key and with the oracle; single-fault error inputs. Non-trivial = n ≥ 2 with a repeated key or message; distinct by draw-record hash."),
    assumptions=BLS_ASSUME,
    jobs=[
        J("TestC02_ManyMessages", 200, 3500, shards=12),
        J("TestC02_OneMessage", 200, 4000, shards=4),
        J("TestC02_Errors", 300, 10000, shards=1),
        J("TestC02_LargeLists", 40, 600, shards=4),
        J("TestC02_ManyMessages", 0, 300, shards=2, mode="asan", tiers=("thorough",)),
        J("cfuzz:MULTI", 3000, 240, kind="cfuzz", target="MULTI"),
    ],
)

PROPS["C03"] = dict(
    technique="property-based testing (rapid) + exhaustive subset enumeration: index-wise differential against individual verification and an oracle",
    title="Batch verification agrees index-by-index with individual verification",
    rule=("positions on one message, each valid or invalid by a generated kind (swapped pair, s_i+d with s_j-d, three-way cancellation, bit flip, s+T outside G1, identity signature, wrong length, identity key, other message, negated, malformed); "
          "expected[i] := signature bytes equal the oracle's sk_i·H(m) and key not identity; checked against BatchVerify and (generated job) against Verify; all 2^n subsets of invalid positions for n ≤ 4 (thorough n ≤ 7); input-error cases. "
          "Non-trivial = at least one valid and one invalid position; distinct by draw-record hash (generated) / by construction (subsets)."),
    assumptions=BLS_ASSUME + ["the 2^-128 soundness error of the batch coefficients (crypto/rand inside the library) is ignored"],
    jobs=[
        J("TestC03_Generated", 400, 5000, shards=12),
        J("TestC03_Subsets", 6, 6, shards=4),
        J("TestC03_Errors", 200, 5000, shards=1),
        J("TestC03_StructuralPlusCancelling", 400, 6000, shards=4),
        J("TestC03_FreshRandomness", 200, 3000, shards=1),
        J("TestC03_LargeBatches", 12, 150, shards=2),
    ],
)

PROPS["C04"] = dict(
    technique="property-based testing (rapid): algebraic homomorphism laws checked against big-integer group arithmetic",
    title="Key and signature aggregation are mutually consistent group homomorphisms",
    rule=("multisets of 1..10 private scalars (duplicates, additive inverses, zero sums), a message and hasher, a generated permutation and binary nesting, a split A⊎B for removal; oracle Σsk mod r, (Σsk)·g2, (Σsk)·H(m); "
          "plus plain E1 sums with operands outside G1, plus error inputs. Non-trivial = size ≥ 3 with a duplicate, inverse pair, nesting depth ≥ 2 or identity sum; distinct by draw-record hash."),
    assumptions=BLS_ASSUME,
    jobs=[
        J("TestC04_Homomorphism", 300, 8000, shards=12),
        J("TestC04_NonG1", 300, 8000, shards=3),
        J("TestC04_Errors", 200, 8000, shards=1),
        J("TestC04_LargeLists", 12, 120, shards=2),
    ],
)

PROPS["C05"] = dict(
    technique="property-based testing (rapid) with structured near-valid generators + finite enumerations + coverage-guided libFuzzer targets with round-trip / BLST-differential oracles",
    title="Serialization is canonical and validating for every key and signature type",
    rule=("per decoder (BLS private / public / signature parsing in aggregation and Verify; ECDSA private / raw public / compressed public on both curves) near-valid strings: encodings of library-produced objects and of oracle-built points "
          "(subgroup, curve-but-not-subgroup, cofactor torsion, small order, infinity) mutated by bit flips, flag-bit combinations, coordinates from {0,1,2,p-1,p,p+1,2^381-1,2^384-1}, x+p aliases, non-residue x, dirty infinity at every position, "
          "truncation/extension to 0..200 bytes, every prefix byte, scalars {0,1,r-1,r,r+1,2^255,2^256-1}, random strings. Oracle = exact acceptance sets (strict ZCash codec + subgroup test by r-multiplication; on-curve + reduced for ECDSA): "
          "rejected ⇒ typed error, accepted ⇒ oracle accepts and re-encoding returns the input, oracle accepts ⇒ library accepts; produced objects round-trip. Non-trivial = the string derives from a valid encoding or an oracle-built point (not random garbage); distinct by the byte string."),
    assumptions=BLS_ASSUME[:1] + ["oracle/wecdsa (generic Weierstrass arithmetic, X9.62 compression) is trusted; self-tested against RFC 6979 vectors, crypto/elliptic and btcec",
        "while finding F1 (G2 coefficient order c0||c1 instead of ZCash c1||c0) is listed as known, the BLS public-key oracle uses the library's coefficient order and counts that exclusion; everything else of the ZCash format is still enforced",
        "the zero private key that AggregateBLSPrivateKeys documents it may return is not required to round-trip"],
    jobs=[
        J("TestC05_BLSPrivate", 2000, 100000, shards=2),
        J("TestC05_BLSPublic", 1000, 15000, shards=8),
        J("TestC05_BLSSignature", 2000, 40000, shards=4),
        J("TestC05_ECDSAPrivate", 2000, 100000, shards=2),
        J("TestC05_ECDSAPublic", 2000, 40000, shards=4),
        J("TestC05_Produced", 400, 6000, shards=3),
        J("TestC05_Enumerations", 3, 12, shards=4),
        GF("TestC05_ECDSAPublic", 60), GF("TestC05_ECDSAPrivate", 30),
        J("cfuzz:SER_E1", 150000, 240, kind="cfuzz", target="SER_E1", env={"VERIF_CFUZZ_FORK": "5"}),
        J("cfuzz:SER_E2", 100000, 240, kind="cfuzz", target="SER_E2", env={"VERIF_CFUZZ_FORK": "5"}),
        J("cfuzz:SER_FR", 150000, 120, kind="cfuzz", target="SER_FR", env={"VERIF_CFUZZ_FORK": "4"}),
    ],
)

PROPS["C06"] = dict(
    technique="property-based testing (rapid) + exhaustive signer-subset enumeration against Lagrange interpolation over F_r and G1",
    title="Threshold shares reconstruct the unique group signature for any >= t+1 signers",
    rule=("(n, t) from 2..254 (biased to n ≤ 12, always including t+1 around 8/9/16/17 and n = 254), seed, message, tag; the dealer output is checked by finite differences (all n private shares on one polynomial of degree exactly t), "
          "P(0)·g2 = group key and sk_i·g2 = pk_i by the oracle; expected signature := compress(P(0)·H(m)); signer subsets of size ≥ t+1 in ascending / descending / interleaved / random order through the stateless function and through a generated "
          "interleaving of TrustedAdd / VerifyAndAdd; one bad share (other signer's, random G1 point, s+T, malformed, identity, wrong length 0/1/47/49/96) at a generated position (the TrustedAdd sequence repeated on 12 fresh objects because the "
          "implementation iterates a Go map); all subsets for n ≤ 5 (thorough 6) and all orders for n ≤ 4; error inputs. Non-trivial = the subset is not {0..t} ascending, or a bad share is present; distinct by draw-record hash / by construction."),
    assumptions=BLS_ASSUME + ["oracle/fr (Lagrange / finite differences over F_r) is trusted; self-tested on hand-checked polynomials",
                              "a share s+T whose small-order component is annihilated by its Lagrange coefficient legitimately yields the exact signature; this is accepted (class torsionAnnihilatedByLagrangeCoefficient)"],
    jobs=[
        J("TestC06_Generated", 150, 2500, shards=10),
        J("TestC06_BadShare", 200, 5000, shards=5),
        J("TestC06_Subsets", 2, 2, shards=2),
        J("TestC06_Fixed", 12, 150, shards=4),
        J("TestC06_Errors", 200, 5000, shards=1),
        J("TestC06_Misconfigured", 300, 5000, shards=3),
        GF("TestC06_BadShare", 90),
    ],
)

PROPS["C11"] = dict(
    technique="property-based testing (rapid): complete differential against a generic-Weierstrass ECDSA oracle, incl. keys crafted for non-reduced aliases",
    title="ECDSA verification is exact on P-256 and secp256k1 for every hasher",
    rule=("a case draws the curve, a key (generated from a seed or decoded from scalars 1, 2, n-1, n-2, small, 2^k, leading-zero-byte values, scalars whose public x or y has a leading zero byte, random), a message of 0..300 bytes and a hasher "
          "(SHA2-256/384, SHA3-256/384, Keccak-256, KMAC128 with generated key/customizer/size 32..64, or a scripted hasher whose first 32 bytes are 0, 1, n-1, n, n+1, 2^256-1 or random). Candidates: the library signature; r or s in {0, n, n+1, 2^256-1}; "
          "all-zero; every length 0..130; random bytes; plus a drawn subset of costly kinds: oracle signatures with chosen nonces (incl. r with a leading zero byte), the (r, n-s) twin, r/s swapped, one-bit flips, r or s off by one, (n-r, s), "
          "signatures of another message / key / the other curve, signature over the rightmost 32 digest bytes. For every candidate Verify must equal the generic-Weierstrass oracle on the leftmost 32 bytes of the oracle digest with nil error; "
          "SignatureFormatCheck must equal (len = 64 and 1 <= r, s < n) and false implies Verify false; nil / short hashers give the typed errors. Non-trivial = a candidate passing the format check yet rejected, or an accepted twin; distinct by draw-record hash."),
    assumptions=["oracle/wecdsa (math/big Weierstrass arithmetic, FIPS 186-4 verification) is trusted; self-tested on RFC 6979 vectors and cross-checked against crypto/ecdsa and btcec",
                 "digests come from the oracle/sha2 and oracle/keccak implementations, not from the library's hashers"],
    jobs=[
        J("TestC11_Exact", 500, 6000, shards=14),
        J("TestC11_Hasher", 2000, 100000, shards=1),
        J("TestC11_CraftedSmallS", 600, 20000, shards=3),
        GF("TestC11_Exact", 90),
    ],
)

PROPS["C12"] = dict(
    technique="property-based testing (rapid) + exhaustive seed-length enumeration: differential against from-spec HKDF / KeyGen oracles",
    title="Key generation is a fixed, in-range, deterministic function of the seed",
    rule=("algorithm in {BLS12-381, P-256, secp256k1}; seed length classes 32..64, 65..256, boundaries {31,32,33,255,256,257}, 0..31, 257..300 with contents all-zero / all-0xff / generated (nil allowed at length 0); "
          "expected private key bytes from the oracle derivation (IETF BLS KeyGen / HKDF-SHA256 to 48 bytes mod (n-1) + 1, on the oracle's own SHA-256/HMAC/HKDF); determinism, seed unmodified, range; out-of-range lengths give (nil, invalid-inputs). "
          "Every length 0..300 x 3 contents x 3 algorithms is enumerated. Public keys of generated, decoded (structured scalar pools incl. 2^k, leading zero bytes) and aggregated private keys equal scalar·generator by the oracle (raw X||Y and X9.62 for ECDSA; calibrated G2 codec for BLS), "
          "PublicKey() twice gives Equal keys, DecodePublicKey(Encode()) round-trips. Non-trivial = every accepted case; distinct by (algorithm, seed) / (algorithm, origin, scalar)."),
    assumptions=["oracle/keygen implements the documented derivations on oracle/sha2; self-tested on the repository's pinned breaking-change vectors", "oracle/wecdsa and oracle/bls381 give scalar·generator"],
    jobs=[
        J("TestC12_ConcurrentPublicKey", 60, 1500, shards=4),
        J("TestC12_Seed", 2000, 50000, shards=5),
        J("TestC12_EveryLength", 8, 100, shards=3),
        J("TestC12_PublicKey", 2000, 50000, shards=4),
    ],
)

PROPS["C15"] = dict(
    technique="exhaustive tape enumeration (all source reads for every n <= 2^16, all accepted tapes for n <= 8) injected in-package, plus rapid histories against a keystream model",
    title="Sampling helpers are in range, valid and exactly uniform in the PRG's bits",
    rule=("(1) in-package (go test -overlay into package random, /repo untouched), under the tape model (one attempt = ceil(bitlen(n-1)/8) source bytes, little-endian, masked to bitlen(n-1) bits, rejected if > n-1): for every n <= VERIF_N (quick 4096, thorough every n <= 65536) "
          "UintN(n) is run on every possible first source read (256 or 65 536 tapes) and, after one rejected first read, on every possible second read: result < n, acceptance iff masked value <= n-1, result = masked value, every value hit by exactly 256^size/2^bitlen reads at both levels, "
          "read length exactly size, stale high bytes irrelevant; plus 2^k, 2^k±1 (all k), 2^63, 2^64-1 and seed-derived n of every bit length on seed-derived tapes with forced rejections. (2) for every n <= 7 (thorough 8) and m <= n, Permutation/Shuffle/SubPermutation/Samples on every tape of accepted values "
          "(per-draw ranges discovered by probing all 256 byte values), each tape also with every rejected value inserted at every position and with unused high bits set; every output valid and the tape→outcome map hits each of the n!/(n-m)! outcomes equally often; negative/inconsistent sizes error without swapping. "
          "(3) public API: rapid histories on two equal-seed ChaCha20 PRGs checked for validity, equality, and against the model over the RFC 8439 oracle keystream. Non-trivial = n not a power of two (UintN); m < n or n >= 3 (permutation helpers); distinct = (n, tape) / (helper, n, m, tape) by construction, draw-record hash for (3)."),
    assumptions=["the tape model stated in UintN's comments; an implementation that reads differently makes the in-package job report TAPE-MODEL-DOES-NOT-APPLY (inconclusive, exit 2), not a violation",
                 "conditional uniformity at read depth >= 3 follows from the identical decision function verified at depths 1 and 2 (UintN carries no other state)",
                 "SubPermutation's unused slice capacity is read only to tell draws apart during probing"],
    jobs=[
        J("TestC15_Public", 600, 60000, shards=4),
        J("TestC15_Frequencies", 30, 150, shards=4),
        J("TestVerifC15_UintN", 4096, 65536, shards=16, kind="c15"),
        J("TestVerifC15_Perm", 7, 9, shards=4, kind="c15"),
        J("TestVerifC15_Deep", 128, 1024, shards=4, kind="c15"),
    ],
    exhaustive_note="UintN: all first reads (and all second reads after a rejection) for every n in the budget; permutation helpers: all accepted-value tapes for n <= 7 (8)",
)

PROPS["C20"] = dict(
    technique="differential testing across four build configurations driven by rapid-generated operations and DKG transcripts",
    title="Results do not depend on the build configuration",
    rule=("each case generates one operation with generated valid and invalid inputs and sends the identical request line to worker programs built from the current tree as default (ADX), CGO_CFLAGS='-O2 -D__BLST_PORTABLE__', -tags purego and CGO_ENABLED=0 -tags no_cgo "
          "(BLS-dependent operations go only to the three cgo builds); the answer lines must be byte-identical, and a worker that dies or answers malformed JSON while another answers is a disagreement. Operations: hashes with a split, KMAC128, ChaCha20 PRG reads and samples, key generation / decoding, "
          "ECDSA verification, BLS sign / verify (~25 candidate classes) / PoP / aggregation / removal / one- and many-message verification / batch verdict lists / SPoCK / threshold key generation and reconstruction; TestC20_DKG compares full transcripts (every message, callback, End output) of the three DKG protocols "
          "with n <= 5 (8) on a FIFO schedule incl. bad parameters and one damaged message. Non-trivial = the operation reaches BLS12-381 field arithmetic or absorbs >= 1 full Keccak block; distinct by draw-record hash."),
    assumptions=["this CPU has ADX; the portable build really runs the non-ADX mulq assembly (blst's cpuid probe is not compiled by the cgo build)", "-D__BLST_NO_ASM__ does not compile on amd64 at the pinned commit and is excluded",
                 "ECDSA Sign is randomized and excluded; batch verification is compared by verdict list; DKG callback log texts are not compared (the library names a complainer by map iteration)"],
    jobs=[
        J("TestC20_Configs", 1500, 60000, shards=6),
        J("TestC20_DKG", 400, 12000, shards=4),
    ],
)

PROPS["C16"] = dict(
    technique="property-based testing (rapid): differential against oracle sk*H_pop(pk) with crafted domain tags",
    title="Proofs of possession are sound and domain-separated from every signature",
    rule=("keys from the structured pool; the PoP hasher is rebuilt independently from the documented suite string (and its KMAC output cross-checked with the SP 800-185 oracle); expected PoP := compress(sk·H_pop(pk bytes)); ~25 candidate strings plus another key's PoP; "
          "three kinds of identity key; for generated and crafted tags (empty, long, every prefix/suffix of the two suite strings, the PoP suite itself, tags making tag||SIG-suite share a prefix or suffix with the PoP suite) the signature of the public-key bytes (and of a generated message) "
          "must not verify as a PoP and the PoP must not verify as a signature. Non-trivial = crafted tag, or a candidate set with an accepted and a curve-point-rejected member; distinct by draw-record hash."),
    assumptions=BLS_ASSUME,
    jobs=[J("TestC16_PoP", 300, 6000, shards=15), J("TestC16_NonBLS", 50, 200, shards=1)],
)

PROPS["C17"] = dict(
    technique="property-based testing (rapid): verdict predicted from known discrete logs (a*x2 = b*x1), symmetry metamorphic relation",
    title="SPoCK verification holds exactly for proofs of one message under claimed keys",
    rule=("scalars x1, x2 (equal, negated, distinct), base B = H(data) via sk = 1, proofs p1 = a·B, p2 = b·B' built by the oracle with (a, b) honest, scaled by a common factor, attributed to the wrong key, zero, unrelated, off by one; B' = B or the image of other data; "
          "expected verdict := a·x2 ≡ b·x1 (mod r) on one base, both-identity on independent bases; each pair also swapped; the first proof replaced by ~25 structured candidates (non-canonical / outside G1 must be rejected); identity keys; SPOCKProve = Sign and SPOCKVerifyAgainstData = Verify; non-BLS keys and bad hashers give typed errors. "
          "Non-trivial = accepted without being the honest pair, or rejected although both proofs are non-identity G1 points; distinct by draw-record hash."),
    assumptions=BLS_ASSUME + ["two hash-to-curve images of different data are treated as independent bases (unknown discrete-log relation)"],
    jobs=[J("TestC17_Verify", 300, 4000, shards=15), J("TestC17_NonBLS", 50, 200, shards=1)],
)

DKG_RULE = ("one network simulator (harness/sim): protocol in {Feldman-VSS-Qual with one dealer, Joint-Feldman}, n = 2..5 (thorough 7, a few 10), t = 1..n-1, at most t Byzantine participants (the dealer may be one). Honest participants are real library instances behind a recording processor; "
            "a Byzantine participant is a real instance whose outgoing messages pass through a generated fault grammar per (message type, receiver): honest, omitted, late (next round), duplicated, malformed (empty, bad tag, wrong size, scalar 0 / >= r, vector of wrong size, cleared flag, off-curve, on-curve outside G2, small-order component, identity A_0), "
            "well-formed but inconsistent (share / vector of another polynomial, share+1, wrong answer value, out-of-range index biased to n itself, two vector entries outside G2 that cancel), the vector held back behind the dealer's other round-1 broadcasts, plus unsolicited messages at the start of a round or after a generated number of deliveries "
            "(complaints against any dealer, malformed complaints, answers with right, wrong or malformed value before or after the complaint, empty, unknown tag, vector again, junk on the private channel, wrong channel). Templates: one victim and one wildcard fault with an explicit treatment of the victim's complaint, an answer for the victim nobody asked for, "
            "an accomplice exchanging an answer and a complaint with the dealer, groundless accusations of honest dealers. "
            "The scheduler delivers the (message, receiver) pairs of a round in a generated order (broadcasts of one sender stay ordered per receiver and may be echoed to the sender; reactions join the round, an honest reaction may instead be delivered in the next round, within the deadline of its type; every pool is drained before the timeouts; timeouts and End in generated orders). ")

PROPS["C07"] = dict(
    technique="model-based fault-injection simulation driven by rapid (generated schedules, Byzantine fault grammar, collusion / accusation templates), agreement and key-composition invariants; libFuzzer differential on the C polynomial evaluation; native Go fuzzing of the same property in the thorough tier",
    title="DKG: honest participants agree on the verdict and on consistent keys",
    rule=DKG_RULE + ("Invariant after End at every honest participant: identical sets of disqualified dealers, identical outcome (all DKG-failure or identical group key and public key shares), private share matches public share, "
          "(every 5th case, always in thorough) group key and all public shares on one polynomial of degree <= t by Lagrange interpolation in G2 with the oracle, and t+1 honest participants reconstruct a signature valid under the group key; "
          "key composition: at every honest participant whose End succeeded the group key is the sum of A_0 over exactly the dealers it did not report through Disqualify (first, round-1, valid vectors; public shares likewise in the deep cases), a reported single dealer means End fails, more than t reported dealers mean failure, and a Joint-Feldman failure has a documented cause. "
          "The libFuzzer target POLY checks the C polynomial evaluations behind the public shares element-wise; the thorough tier adds a native-fuzz campaign over the same property. "
          "Non-trivial = a Byzantine participant performed a non-honest action and the delivery order was not FIFO; distinct by draw-record hash."),
    assumptions=BLS_ASSUME[:1] + ["the assumptions of the statement: round-synchronous delivery, reliable broadcast, at most t Byzantine participants", "Joint-Feldman: the disqualified set of a participant is read from its Disqualify callbacks; single-dealer protocol: from the End verdict"],
    jobs=[J("TestC07_Agreement", 1500, 4000, shards=16), J("TestC07_LargeNetwork", 2, 12, shards=4), GF("TestC07_Agreement", 150, procs=16),
          J("cfuzz:POLY", 20000, 120, kind="cfuzz", target="POLY")],
)

PROPS["C08"] = dict(
    technique="model-based fault-injection simulation driven by rapid (fairness invariants, converse triggers, key composition) + exhaustive delivery-order enumeration for plain VSS + libFuzzer targets on vector parsing and polynomial evaluation; native Go fuzzing of the same property in the thorough tier",
    title="DKG qualification is fair: honest never blamed, bad dealing never accepted",
    rule=DKG_RULE + ("Invariants: (e) no Disqualify / FlagMisbehavior callback at an honest reporter targets an honest participant; (f) a Byzantine dealer whose vector was omitted, late or malformed (confirmed invalid by the oracle), who attracted more than t distinct complaints before the second timeout, "
          "or who left an honest complaint unanswered or answered it with a value not matching its vector, is disqualified by every honest participant; (g) plain Feldman VSS: every delivery order of (vector, share, one duplicate of each) x every kind of vector and share: End returns keys iff the first vector is valid (oracle) and the first share is well-formed and matches it, otherwise a DKG-failure error. "
          "Non-trivial = Byzantine non-honest action and non-FIFO delivery (simulator) / an invalid or inconsistent dealing (plain VSS); distinct by draw-record hash / by construction."),
    assumptions=BLS_ASSUME[:1] + ["the assumptions of the statement: round-synchronous delivery, reliable broadcast, at most t Byzantine participants"],
    jobs=[J("TestC08_Fairness", 1000, 5000, shards=14), J("TestC08_PlainVSS", 3, 12, shards=6), J("TestC08_LargeNetwork", 2, 12, shards=4), GF("TestC08_Fairness", 150, procs=16),
          J("cfuzz:POLY", 20000, 120, kind="cfuzz", target="POLY"), J("cfuzz:G2_VECTOR", 30000, 120, kind="cfuzz", target="G2_VECTOR")],
)

PROPS["C10"] = dict(
    technique="stateful model-based testing (rapid): reference state machine + metamorphic non-interference twin",
    title="DKG instances follow the documented single-use state machine",
    rule=("protocol x role (dealer / non-dealer) x (n <= 5, t); a call sequence of up to 25 (thorough 40) calls over {Start, NextTimeout, End, HandleBroadcastMsg, HandlePrivateMsg, ForceDisqualify, Running} with in-range origins and out-of-range ones (-1, n, n+1, 255, 256, 2^20, -2^31), "
          "payloads taken from real instances run with the same parameters (so End can succeed) or junk. Oracle 1: a reference model of the documented machine (new / running(k timeouts) / ended) predicts the error class of every call and Running(). "
          "Oracle 2 (non-interference, metamorphic): a twin instance receives only the calls the model accepts; the instance that additionally received the rejected calls must emit the same messages and callbacks and end with the same End result. Both are driven to End and re-checked after End. "
          "Non-trivial = the sequence contains a call rejected for a state or index reason while running; distinct by draw-record hash."),
    assumptions=["Start after End is outside the quantifier (documentation asks for a new instance per run); a dealer's Start with a too-short seed is a rejected call (documented invalid-inputs error) that leaves the instance new"],
    jobs=[J("TestC10_StateMachine", 4000, 50000, shards=16), GF("TestC10_StateMachine", 120, procs=16)],
)

PROPS["C09"] = dict(
    technique="property-based robustness testing (rapid, hostile argument generators, journalled calls) + libFuzzer with ASan/UBSan on the C layer",
    title="No exported function panics or corrupts memory on untrusted input",
    rule=("a table of the exported surface (decoders, key generation, Sign/Verify, PoP, SPoCK, the four aggregations, one/many-message and batch verification, threshold key generation / stateless reconstruction / inspector and participant methods, DKG constructors and every DKGState method fed with arbitrary (origin, tag, payload) "
          "sequences incl. real payloads mutated, enum and key String(), hashers and KMAC constructor, ChaCha20 PRG constructors and every Rand method, error predicates) with an argument generator per parameter kind: byte slices nil / empty / 1 short / exact / 1 long / 10 000 / valid / valid with one byte changed / all 0xff; "
          "integers -1, 0, 1, boundary +-1, 254..257, 2^16, +-2^31, +-2^63; enum values -2..10; lists empty / nil / mismatched. Every call is journalled before it runs (a worker killed by a C abort or SIGSEGV leaves the journal as replay) and runs under the property's recover wrapper: a Go panic, a dead worker, or a signature returned by ThresholdSignature() that fails verification is a violation. "
          "Non-trivial = the input is invalid in at least one way and the call returned; distinct by draw-record hash."),
    assumptions=["documented exceptions are excluded by construction: UintN(0), nil interface / callback arguments, permutation and KMAC sizes above 2^20, PRG positions beyond the documented 256 GiB stream, hashers whose ComputeHash returns fewer bytes than Size() claims, the no_cgo build",
                 "Go's -asan does not see over-reads that stay inside a slice's capacity; memory safety of the C layer on arbitrary bytes is the subject of the libFuzzer targets in cfuzz/ (when built) and of the semantic oracles of C05/C06"],
    jobs=[J("TestC09_Calls", 3000, 40000, shards=12, journal=True), J("TestC09_Regressions", 1, 1, journal=True), J("TestC09_DKGNetwork", 500, 6000, shards=6, journal=True),
          J("TestC09_Calls", 500, 3000, shards=4, journal=True, mode="asan"), J("TestC09_DKGNetwork", 60, 600, shards=2, journal=True, mode="asan"),
          J("cfuzz:SUM_VECTOR", 30000, 240, kind="cfuzz", target="SUM_VECTOR"),
          J("cfuzz:LAGRANGE", 40000, 240, kind="cfuzz", target="LAGRANGE"),
          J("cfuzz:G2_VECTOR", 30000, 240, kind="cfuzz", target="G2_VECTOR"),
          J("cfuzz:VERIFY", 4000, 300, kind="cfuzz", target="VERIFY"),
          GF("TestC09_Calls", 90, journal=True), GF("TestC09_DKGNetwork", 90, journal=True)],
)

PROPS["C18"] = dict(
    title="Stateful threshold-signature object is linearizable under concurrent use",
    rule=("a key set (n <= 6, t <= 3) and a generated concurrent program: 2..16 goroutines x 1..6 operations from {TrustedAdd, VerifyAndAdd, HasShare, EnoughShares, VerifyShare, VerifyThresholdSignature, SignShare, ThresholdSignature} with valid shares, another signer's share, malformed and short shares, duplicate and out-of-range indices; "
          "all goroutines start on a barrier; each program is executed 10 (thorough 20, replay 200) times on fresh objects under GOMAXPROCS in {2, 4, 16}, built with -race. Oracle: porcupine linearizability check of the recorded history (invocation / response stamps from one atomic counter) against the documented sequential model, "
          "plus direct invariants after quiescence (at most t+1 shares retained, EnoughShares consistent, every returned threshold signature equals the unique group signature), plus a silent race detector. Non-trivial = at least two goroutines with >= 2 mutating calls in total; distinct by program (draw-record hash)."),
    assumptions=["the Go scheduler, not the harness, chooses the interleavings: a window of a few instructions can survive the stress; the race detector is happens-before based and does not need the bad interleaving to occur",
                 "a porcupine time-out (10 s) is counted as inconclusive, never as a violation"],
    technique="property-based generation of concurrent programs (rapid) + porcupine linearizability checking + Go race detector",
    jobs=[J("TestC18_Linearizable", 120, 1200, shards=16, mode="race")],
)

PROPS["C19"] = dict(
    title="Operations documented as read-only or thread-safe are race-free",
    rule=("a generated mix of the listed operations run by 2..16 goroutines over shared objects: one KMAC128 hasher (ComputeHash), one expand-message hasher shared by BLS Sign / Verify / BLSVerifyPOP / SPOCKVerify / one- and many-message aggregate verification / batch verification on shared keys, ECDSA Sign and Verify on shared keys with per-goroutine hashers; "
          "public keys are materialised before sharing. Built with -race, each mix run 4 (thorough 8) times under GOMAXPROCS in {2, 4, 16}. Oracle: no race report; every deterministic result equals the result of the same call run alone beforehand (randomized ECDSA signatures must verify); every argument buffer and the shared hashers' streams are byte-identical before and after. "
          "Non-trivial = at least two calls sharing a hasher or key across goroutines; distinct by draw-record hash."),
    assumptions=["the race detector does not instrument the C layer; C code is reached only through immutable Go-owned buffers, whose integrity is compared before/after",
                 "lazy PublicKey() caching is not among the operations the property lists and is materialised before sharing"],
    technique="property-based generation of concurrent operation mixes (rapid) under the Go race detector with a solo-run differential oracle",
    jobs=[J("TestC19_RaceFree", 150, 1500, shards=16, mode="race")],
)


import c15_overlay
import c20_build
import cfuzz
import gofuzz
import json as _json
import os as _os


# additions of the third session (generators and oracles added after the independent seeds and the mutation campaign)
RULE_ADDITIONS = {
    'C07': "Large-network job: 129..254 participants in Feldman-VSS-Qual and 24..40 in Joint-Feldman (thresholds 1..3), victims drawn from the last indices half of the time.",
    'C20': "The worker keeps every digest a hasher returned, uncopied, while the hasher is used further (ComputeHash of a longer message, Reset, streamed suffix, continued stream) and serialises them at the end of the operation.",
    'C08': "Plain Feldman VSS: a ninth kind of share, the right residue in the non-canonical encoding x + r, with dealers searched (four cases in five) for a share small enough that x + r fits in 255 bits.",
    'C01': "Key objects and hashers carry generated histories: the public key is obtained through a generated constructor route (PublicKey(), decoded from a buffer that is then overwritten, one-element aggregate, projective result of RemoveBLSPublicKeys), aggregated keys have inputs with and without cached public keys, KMAC hashers were written to / reset / read before (the reference H(m) comes from a fresh twin), domain tags reach 480 bytes and a one-byte neighbour of the tag must give another signature; the expand-message hasher itself is compared with SP 800-185 KMAC128(tag || suite, 'H2C', m, 128). The hasher errors of Verify are asserted with nil / short / long / malformed signatures as well; the slice returned by Sign is kept uncopied while the key signs and verifies further. Key pairs also come out of other APIs: a key share of BLSThresholdKeyGen and the keys a plain Feldman VSS participant leaves End() with (public part as returned by that API, or recomputed).",
    'C02': 'Keys through generated constructor routes; when the aggregate is the identity (total cancellation is drawn explicitly) an infinity encoding with a stray byte at each of the 47 positions must be rejected. A large-list job puts 15..200 (message, hasher) entries under each of one to three keys, or 15..200 distinct key objects (projective ones among them) under each of one to three messages; the exact sum must be accepted and the sum over the entries beyond the first 64 (16) of each group rejected.',
    'C03': 'A template job combines 0-4 structural entries (wrong-length / nil signature, identity key, malformed, outside G1, identity signature) with one cancelling pair / triple / swapped pair at generated positions (one case in three: the group at the highest indices). Every call on two or more well-formed entries must draw at least 128 bits from crypto/rand.Reader (the coefficients are fresh per call, not a function of the input). Batches of 33..257 entries (sizes around 64, 128, 256) with none to four invalid positions (first, last, generated; cancelling groups included).',
    'C04': 'Input keys through generated constructor routes (projective keys included), private keys with and without cached public keys; lists of 63..300 items around the sizes 64 / 128 / 256 with an identity signature inside. Lists of 15..65 arbitrary E1 points (order-3 points, identity, repeated and negated neighbours next to each other) must sum to the E1 sum of the oracle. A few keys of the long lists are held in projective form or were decoded / re-aggregated. Removal also runs in two steps (the second call receives the un-normalised result of the first), from another object for the same aggregate, and from the identity left after removing every key.',
    'C05': 'Produced objects include the keys a plain Feldman VSS participant returns when dealt an honest vector or one whose entries were moved outside G2 by cancelling amounts.',
    'C06': "For t <= 12 the sharing polynomial's coefficients are recovered and must be non-zero and pairwise distinct; the participant constructor must report what its inspector part refuses. Objects configured with a threshold below the degree of the sharing polynomial, with a foreign group key, or whose caller overwrites a share buffer after a successful add: whatever ThresholdSignature() returns without an error must verify under the group key of the object. A second share for a signer already in the pool, valid or not, must give the duplicated-signer error through VerifyAndAdd and TrustedAdd.",
    'C09': 'The DKG constructors are held to their documented argument contract on tuples with a generated subset of hostile arguments; every DKG handler / ForceDisqualify call of the message feeder must return the documented error class (state-transition when not running, invalid-inputs for an origin outside [0, n), nil otherwise), origins are biased to the range edges and to the dealer, payloads include bare tags; stateless reconstruction with valid or hostile spare shares must give a verifying signature; well-formed list calls and whole DKG networks also run under the address sanitizer in the quick tier. Half of the DKG feeder cases start the instance and draw most steps from the alphabet of well-formed messages around one dealer and one complainer (complaint, answer with valid / zero / r / r-1 / all-ones value, the real vector, the real share, timeouts) in generated order; hostile integers fall next to the documented bound one time in three. Any signature string against well-formed key / message / hasher lists must give a verdict without an error from the one-message and the many-messages verifier.',
    'C11': 'The hasher object handed to Sign / Verify has a generated history (writes of lengths around the block size, resets, ComputeHash, SumHash) one time in three. The slice returned by Sign is kept uncopied while the key signs further messages.',
    'C12': 'Aggregated keys have inputs with and without cached public keys; the caller overwrites the slices Encode() / EncodeCompressed() returned and encodes again.',
    'C13': "SHA-2's documented continuation after ComputeHash is part of the model; every digest handed out is kept uncopied and compared again after the object was used further.",
    'C14': 'States returned by Store() of generators that stay in use are kept uncopied and must still restore to the offset at which they were taken.',
    'C15': 'Raw reads of both PRG read paths are interleaved with the helpers; returned permutations are kept uncopied and compared again later; a deterministic frequency net (seven standard deviations, fixed ChaCha20 stream) runs next to the exact argument, which has to decline any read pattern other than the documented one. The frequency net also counts, for sparse and dense (n, m), how often every element is at every position of SubPermutation / Samples. A call rejected for its sizes must read nothing from the random source.',
    'C16': 'Identity keys come from eight constructions (constant, decoded, pk + (-pk), removal of a key from itself, of all keys at once and in two steps, public key of the zero aggregate with cold and warm inputs); keys through generated constructor routes; hashers with histories. Key pairs also come out of other APIs: a key share of BLSThresholdKeyGen and the keys a plain Feldman VSS participant leaves End() with (public part as returned by that API, or recomputed).',
    'C17': 'Both proofs are also modified together: (p1 + T, p2 - T), (p1 + T, p2 + T), (p1 + T, -(p1 + T)) must be rejected, (-p1, -p2), (c p1, c p2) and (-p1, -pk2) keep the verdict; keys through generated constructor routes; eight identity-key constructions. The non-BLS key is combined with a nil, SHA2, SHA3 or wrong-size KMAC hasher and with truncated proofs: the not-a-BLS-key error is still the documented one. Key pairs also come out of other APIs: a key share of BLSThresholdKeyGen and the keys a plain Feldman VSS participant leaves End() with (public part as returned by that API, or recomputed).',
    'C18': 'Goroutines are released through a spin barrier; one case in three is a stampede (every goroutine starts with the same call on the same signer and share buffer); key objects are rebuilt for each of the runs of a program.',
    'C19': "Goroutines are released through a spin barrier; one case in three is a stampede on one call; the signature list handed to batch verification must stay the caller's. The memory of every BLS public key object is compared before and after the calls (run alone and concurrently), not only what the keys encode to.",
}
for _pid, _txt in RULE_ADDITIONS.items():
    PROPS[_pid]["rule"] += " Added later: " + _txt

CFUZZ_TARGETS = {"C02": ["MULTI"], "C05": ["SER_E1", "SER_E2", "SER_FR"], "C07": ["POLY"], "C08": ["POLY", "G2_VECTOR"], "C09": ["SUM_VECTOR", "LAGRANGE", "G2_VECTOR", "VERIFY"]}


def _f1_known(verif):
    try:
        ks = _json.load(open(_os.path.join(verif, "known_findings.json"))).get("findings", [])
    except Exception:
        return True
    return any(k.get("id") == "F1" and k.get("status") == "known" for k in ks)


SKIPPED_ENGINES = {}  # property -> note, filled by custom_build when an auxiliary engine cannot be built
GOFUZZ_PROPS = sorted(p for p, spec in PROPS.items() if any(j.get("kind") == "gofuzz" for j in spec["jobs"]))
MODFILE_ARGS = lambda: []  # set by ./check (a -modfile redirecting the replace to VERIF_REPO)


def custom_command(job, tier, n, seed, rundir, repo, verif, work):
    if job.get("kind") == "gofuzz":
        return gofuzz.command(job, tier, n, seed, rundir, repo, verif, work)
    if job.get("kind") == "cfuzz":
        return cfuzz.command(job, tier, n, seed, rundir, repo, verif, work)
    if job.get("kind") == "c15":
        return c15_overlay.command(job, tier, n, seed, rundir, repo, verif, work)
    raise RuntimeError("unknown job kind: %r" % job.get("kind"))


def custom_build(pid, tier, repo, verif, work, goenv, log):
    if tier == "thorough" and pid in GOFUZZ_PROPS:
        if gofuzz.build(repo, verif, work, goenv, log, MODFILE_ARGS()) is None:
            return False
    if pid in CFUZZ_TARGETS:
        if cfuzz.build(CFUZZ_TARGETS[pid], repo, verif, work, goenv, log, _f1_known(verif)) is None:
            # The libFuzzer targets call internal C functions by name; a refactoring of the C layer that renames one or
            # changes a signature makes them uncompilable although the Go module still builds.  The targets are an
            # auxiliary engine: the property is then decided by the Go-level jobs alone, and the evidence says so.
            SKIPPED_ENGINES[pid] = "libFuzzer targets %s could not be built against this tree (internal C interfaces changed?): their jobs were skipped" % CFUZZ_TARGETS[pid]
            log("ENGINE-UNAVAILABLE: " + SKIPPED_ENGINES[pid])
        return True
    if pid == "C20":
        return c20_build.build(repo, verif, work, goenv, log) is not None
    if pid == "C15":
        return c15_overlay.build(repo, verif, work, goenv, log)
    return True


def custom_setup(repo, verif, work, goenv, log):
    ok = c20_build.build(repo, verif, work, goenv, log) is not None and c15_overlay.build(repo, verif, work, goenv, log)
    return ok and cfuzz.build(cfuzz.TARGETS, repo, verif, work, goenv, log, _f1_known(verif)) is not None


def custom_replay(pid, path, repo, verif, work, goenv, log):
    base = _os.path.basename(path)
    if "artefact-gofuzz-" in base:
        test = base[base.index("artefact-gofuzz-") + len("artefact-gofuzz-"):].rsplit("-", 1)[0]
        plain = _os.path.join(work, "bin", "props-plain-%s.test" % ("repo" if repo == "/repo" else __import__("hashlib").sha1(repo.encode()).hexdigest()[:8]))
        return gofuzz.replay(path, test, repo, verif, work, goenv, log, plain)
    if pid in CFUZZ_TARGETS and "artefact-" in _os.path.basename(path):
        return cfuzz.replay(path, repo, verif, work, goenv, log)
    if pid == "C15":
        return c15_overlay.replay(path, repo, verif, work, goenv, log)
    return None

NOT_APPLICABLE = {}
EXTRA_ENGINES = [{"name": "cfuzz-libfuzzer", "path": "/verif/cfuzz", "serves_properties": ["C02", "C05", "C07", "C08", "C09"], "kind_free_text": "libFuzzer targets (clang -fsanitize=fuzzer,address,undefined) compiled against /repo's own C sources with in-target semantic oracles (canonical round trip, BLST ZCash differential, element-wise recomputation); pinned -seed/-runs in the quick tier, time-boxed forks in the thorough tier"},
                 {"name": "gofuzz-native", "path": "/verif/harness/props/gofuzz_test.go", "serves_properties": GOFUZZ_PROPS, "kind_free_text": "Go's native coverage-guided fuzzer (go test -fuzz) driving the same rapid property functions through rapid.MakeFuzz (thorough tier only; a campaign cannot be pinned to VERIF_SEED, the saved failing record is the reproducible unit)"},
                 {"name": "overlay-inpackage", "path": "/verif/harness/inpkg", "serves_properties": ["C15"], "kind_free_text": "in-package exhaustive tape enumeration injected with go test -overlay"},
                 {"name": "cfgworker", "path": "/verif/harness/cfgworker", "serves_properties": ["C20"], "kind_free_text": "worker program built in four build configurations, driven by a rapid differential property"}]
