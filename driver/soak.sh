#!/bin/sh
# Runs every quick check at several VERIF_SEED values on the unchanged tree; any non-zero exit is printed (false-alarm / flakiness guard).
#   driver/soak.sh 2 3 4        (seeds)         TIER=thorough driver/soak.sh 7
cd "$(dirname "$0")/.." || exit 2
tier=${TIER:-quick}
bad=0
for seed in "$@"; do
  for id in C01 C02 C03 C04 C05 C06 C07 C08 C09 C10 C11 C12 C13 C14 C15 C16 C17 C18 C19 C20; do
    VERIF_EVIDENCE_DIR=.work/soak-evidence VERIF_SEED=$seed ./check $id --tier $tier > .work/soak-$id-$seed.log 2>&1
    rc=$?
    if [ $rc -ne 0 ]; then bad=$((bad+1)); echo "seed $seed $id exit $rc: $(grep -E 'VIOLATION|INCONCLUSIVE' .work/soak-$id-$seed.log | head -2)"; else rm -f .work/soak-$id-$seed.log; fi
  done
  echo "seed $seed done"
done
echo "non-zero exits: $bad"
