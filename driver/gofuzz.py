"""Coverage-guided engine on the Go layer: Go's native fuzzer driving the rapid properties (harness/props/gofuzz_test.go).

Thorough tier only.  build() compiles one instrumented test binary (`go test -c -fuzz=FuzzProp`) against the current
tree of the repository; a job runs `FuzzProp` with VERIF_FUZZ_TEST=<Test function> for a wall-clock budget.  The byte
string mutated by the fuzzer is rapid's source of randomness (rapid.MakeFuzz), so the property, its oracle and the
recorded draws are exactly those of the rapid search; a failing execution writes the usual library-free record
(fail-*.json), which `./check <ID> --replay` re-executes.  Reaching the time budget is the normal end (exit 0).
A campaign cannot be pinned to VERIF_SEED: the saved record is the reproducible unit.

Used as a program by the job command:  gofuzz.py run <binary> <test> <seconds> <rundir> <statsfile> <procs>
"""
import glob
import hashlib
import json
import os
import re
import shutil
import subprocess
import sys
import time


def bin_path(repo, work):
    tag = hashlib.sha1(repo.encode()).hexdigest()[:8] if repo != "/repo" else "repo"
    return os.path.join(work, "bin", "props-gofuzz-%s.test" % tag)


def build(repo, verif, work, goenv, log, modfile_args):
    out = bin_path(repo, work)
    os.makedirs(os.path.dirname(out), exist_ok=True)
    cmd = ["go", "test", "-c", "-vet=off", "-fuzz=FuzzProp", "-o", out] + modfile_args + ["./props"]
    t0 = time.time()
    r = subprocess.run(cmd, cwd=os.path.join(verif, "harness"), env=goenv(), capture_output=True, text=True)
    if r.returncode != 0:
        log("GOFUZZ-BUILD-ERROR:\n" + r.stdout[-3000:] + r.stderr[-3000:])
        return None
    log("built %s in %.1fs" % (os.path.basename(out), time.time() - t0))
    return out


def command(job, tier, n, seed, rundir, repo, verif, work):
    """n = fuzzing time in seconds."""
    procs = str(job.get("procs", 8))
    return [sys.executable, os.path.abspath(__file__), "run", bin_path(repo, work), job["fuzz_test"], str(n), rundir,
            os.path.join(rundir, "stats.json"), procs], rundir


def run(binary, test, seconds, rundir, statsfile, procs):
    env = dict(os.environ)
    env["VERIF_FUZZ_TEST"] = test
    env["VERIF_FAILDIR"] = rundir
    env.pop("VERIF_STATS", None)  # coordinator and workers are separate processes: statistics come from the fuzzer's own counters
    cache = os.path.join(rundir, "fuzzcache")
    cmd = [binary, "-test.run", "^$", "-test.fuzz", "^FuzzProp$", "-test.fuzztime", "%ss" % seconds, "-test.fuzzcachedir", cache,
           "-test.parallel", procs, "-test.timeout", "0"]
    t0 = time.time()
    p = subprocess.run(cmd, cwd=rundir, env=env, capture_output=True, text=True, errors="replace")
    out = p.stdout + p.stderr
    sys.stdout.write(out[-6000:])
    execs, interesting = 0, 0
    for m in re.finditer(r"execs: (\d+) .*?\(total: (\d+)\)", out):
        execs, interesting = int(m.group(1)), int(m.group(2))
    stats = {"evaluations": execs, "nontrivial": 0, "classes": {"gofuzz:%s:executions" % test: execs, "gofuzz:%s:coverage-increasing inputs" % test: interesting},
             "info": {"gofuzz:" + test: "native Go fuzzing (coverage-guided, rapid.MakeFuzz) for %ss on %s processes: %d executions, %d coverage-increasing inputs; not pinned to VERIF_SEED" % (seconds, procs, execs, interesting)}}
    with open(statsfile, "w") as f:
        json.dump(stats, f)
    shutil.rmtree(cache, ignore_errors=True)
    if p.returncode == 0:
        return 0
    saved = glob.glob(os.path.join(rundir, "testdata", "fuzz", "FuzzProp", "*"))
    if glob.glob(os.path.join(rundir, "fail-*.json")):
        return 1  # the property itself wrote a failure record: the driver reports it
    for j in glob.glob(os.path.join(rundir, "journal-*.json")):
        os.remove(j)  # a journal alone only says which case a worker was in when the coordinator stopped it; the coordinator keeps the input of a worker that died
    if saved:
        # The fuzzer saved an input but the property wrote no record: the worker died or did not answer the coordinator.
        # Go's coordinator also says so ("fuzzing process hung or terminated unexpectedly") when one execution exceeds its
        # 10 s hang limit, which a loaded machine can cause on its own.  A wall-clock limit is no correctness signal: the
        # saved input is executed again, alone, with a generous limit; only if that run fails (a record is written, the
        # process dies, or it does not return within 10 minutes) is the input reported.
        env2 = dict(env)
        cmd2 = [binary, "-test.run", "^FuzzProp$", "-test.timeout", "0"]
        try:
            p2 = subprocess.run(cmd2, cwd=rundir, env=env2, capture_output=True, text=True, errors="replace", timeout=600)
            rc2, out2 = p2.returncode, p2.stdout + p2.stderr
        except subprocess.TimeoutExpired:
            rc2, out2 = -1, "re-execution of the saved input did not return within 600 s"
        fails = glob.glob(os.path.join(rundir, "fail-*.json"))
        if rc2 != 0:
            fails += glob.glob(os.path.join(rundir, "journal-*.json"))
        if rc2 == 0 and not fails:
            for j in glob.glob(os.path.join(rundir, "journal-*.json")):
                os.remove(j)
            # the campaign ended early; what it explored until then stands (the executions are counted in the statistics)
            sys.stdout.write("\nGOFUZZ: a worker died or was declared hung on an input that passes when executed again alone (engine / machine load): campaign ended early, no finding\n")
            stats["info"]["gofuzz:" + test] += "; the campaign ended early: the coordinator declared a worker hung or dead on an input that passes when executed again alone"
            with open(statsfile, "w") as f:
                json.dump(stats, f)
            return 0
        sys.stdout.write("\nGOFUZZ: the saved input fails again when executed alone (exit %d):\n%s\n" % (rc2, out2[-3000:]))
        if fails:
            return 1
        dst = os.path.join(rundir, "artefact-gofuzz-%s-%s" % (test, os.path.basename(saved[0])))
        shutil.copy(saved[0], dst)
        return 1
    if "context deadline exceeded" in out:
        # a known way for `go test -fuzz` to end a time-boxed campaign: the budget was used, nothing failed
        sys.stdout.write("\nGOFUZZ: the fuzzer ended its time budget with 'context deadline exceeded' and no failing input: no finding\n")
        return 0
    # other engine trouble: inconclusive, never a violation
    sys.stdout.write("\nGOFUZZ: exit %d without a failing input — inconclusive\n" % p.returncode)
    return 3


def replay(path, test, repo, verif, work, goenv, log, plain_binary):
    """Re-executes a saved fuzzer input (artefact-gofuzz-<Test>-<hash>) through the plain test binary's seed-corpus mode."""
    d = os.path.join(work, "gofuzz-replay-%d" % os.getpid())
    shutil.rmtree(d, ignore_errors=True)
    os.makedirs(os.path.join(d, "testdata", "fuzz", "FuzzProp"))
    shutil.copy(path, os.path.join(d, "testdata", "fuzz", "FuzzProp", "input"))
    env = goenv({"VERIF_FUZZ_TEST": test, "VERIF_FAILDIR": d})
    r = subprocess.run([plain_binary, "-test.run", "^FuzzProp$", "-test.v"], cwd=d, env=env, capture_output=True, text=True, errors="replace")
    log((r.stdout + r.stderr)[-2500:])
    shutil.rmtree(d, ignore_errors=True)
    return 0 if r.returncode == 0 else 1


if __name__ == "__main__":
    if len(sys.argv) >= 8 and sys.argv[1] == "run":
        sys.exit(run(sys.argv[2], sys.argv[3], int(sys.argv[4]), sys.argv[5], sys.argv[6], sys.argv[7]))
    print(__doc__)
