"""Builds the four per-configuration workers of property C20.

    build(repo, verif, work, goenv, log) -> {"default": path, "portable": path, "purego": path, "nocgo": path} | None

The workers are harness/cfgworker built against the current tree of `repo`:

    default    go build
    portable   CGO_CFLAGS="-O2 -D__BLST_PORTABLE__" go build      (README: CPUs without ADX)
    purego     go build -tags purego                              (pure-Go Keccak-f / xor, std-lib fallbacks)
    nocgo      CGO_ENABLED=0 go build -tags no_cgo                (no BLS12-381)

The four builds run in parallel.  Go's build cache keys on CGO_CFLAGS and on the
tag set, so every configuration is really compiled with its own settings.
"""
import hashlib
import os
import shutil
import subprocess
import time

CONFIGS = [
    # name, extra build args, extra environment
    ("default", [], {}),
    ("portable", [], {"CGO_CFLAGS": "-O2 -D__BLST_PORTABLE__"}),
    ("purego", ["-tags", "purego"], {}),
    ("nocgo", ["-tags", "no_cgo"], {"CGO_ENABLED": "0"}),
]


def repo_tag(repo):
    return hashlib.sha1(os.path.abspath(repo).encode()).hexdigest()[:10]


def out_dir(repo, work):
    return os.path.join(work, "c20", repo_tag(repo))


def _modfile_args(repo, verif, work):
    """-modfile pointing at a copy of harness/go.mod whose replace targets `repo` (same scheme as ./check)."""
    if repo == "/repo":
        return []
    harness = os.path.join(verif, "harness")
    d = os.path.join(work, "mod-" + hashlib.sha1(repo.encode()).hexdigest()[:10])
    os.makedirs(d, exist_ok=True)
    src = open(os.path.join(harness, "go.mod")).read().replace("=> /repo", "=> " + repo)
    with open(os.path.join(d, "go.mod"), "w") as f:
        f.write(src)
    shutil.copy(os.path.join(harness, "go.sum"), os.path.join(d, "go.sum"))
    return ["-modfile=" + os.path.join(d, "go.mod")]


def workers_env(paths):
    """Value of VERIF_C20_WORKERS for a dict returned by build()."""
    return ",".join("%s=%s" % (name, paths[name]) for name, _, _ in CONFIGS)


def build(repo, verif, work, goenv, log):
    harness = os.path.join(verif, "harness")
    d = out_dir(repo, work)
    os.makedirs(d, exist_ok=True)
    mod = _modfile_args(repo, verif, work)
    procs = []
    t0 = time.time()
    for name, args, extra in CONFIGS:
        out = os.path.join(d, "worker-" + name)
        tmp = out + ".tmp"
        env = goenv()
        # the driver's CGO_CFLAGS carries -DVERIF_C_TREE=<hash of the C/asm tree> so that edits to files the
        # Go build cache does not hash (blst_src/build/**/*.s) force a rebuild; keep that define in every build
        tree_define = " ".join(w for w in env.get("CGO_CFLAGS", "").split() if w.startswith("-DVERIF_C_TREE="))
        if name != "nocgo":
            env["CGO_ENABLED"] = "1"
        env.update(extra)
        if name == "portable":
            env["CGO_CFLAGS"] = (extra["CGO_CFLAGS"] + " " + tree_define).strip()
        elif name != "nocgo":
            env["CGO_CFLAGS"] = ("-g -O2 " + tree_define).strip()
        else:
            env.pop("CGO_CFLAGS", None)
        cmd = ["go", "build", "-o", tmp] + mod + args + ["./cfgworker"]
        p = subprocess.Popen(cmd, cwd=harness, env=env, stdout=subprocess.PIPE, stderr=subprocess.STDOUT, text=True)
        procs.append((name, cmd, extra, out, tmp, p))
    ok = True
    paths = {}
    for name, cmd, extra, out, tmp, p in procs:
        txt, _ = p.communicate()
        if p.returncode != 0 or not os.path.exists(tmp):
            ok = False
            log("C20-BUILD-ERROR (%s: %s %s):\n%s" % (name, " ".join("%s=%r" % kv for kv in sorted(extra.items())), " ".join(cmd), (txt or "")[-4000:]))
            continue
        os.replace(tmp, out)
        paths[name] = out
    if not ok:
        return None
    log("built C20 workers (%s) in %.1fs -> %s" % (", ".join(n for n, _, _ in CONFIGS), time.time() - t0, d))
    return paths
